"""Entry of the stylesheet transformer: what the routine-level analysis (css_common) *assumes* about the state it starts from
and about the top-level rule loop is established here from the real code (engine M, MIR of the current tree).

 constructor  `StyleSheetTransformer::from_css` up to its call of `parse_rules`: the caller's options reach the transformer unchanged
              (for every option value and every source text), `using_low_priority` is false, the warning list and the at-rule
              stack are empty, the two outputs are distinct fresh objects, and the transformer has no state the routine analysis
              does not know about (an unknown field makes the routine-level results unsound -> probes + inconclusive).
 rule list    `parse_rules`: rules are handed to `parse_at_rule` / `parse_qualified_rule` one after the other; `at_file_start` is
              true for the first rule of the list and only for it, whatever the rules before wrote to whichever output
              (output lengths are monotone symbolic counters); every iteration consumes a rule.
Violations are replayed through `from_css` on a pool of probe sheets (reference rewrite `lib/cssref.py`, warnings for import position).
"""
import json
import re
import time
import z3

from lib import common
from lib.common import log
from mirsym.mir import MirUnsupported
from mirsym.core import Executor, Path, Agg, Ref, SymEnum, SeqV, Opaque, UNIT, Inconclusive
from mirsym import sc_env, contracts
from mirsym.sc_env import Css
from checks import css_common as cc

KNOWN_FIELDS = ('options', 'path', 'normal_output', 'low_priority_output', 'using_low_priority', 'warnings', 'cur_at_rule_stacks')

PROBE_SHEETS = [
    ('.a .b{width:75rpx}', {'class_prefix': 'p'}), ('.a{x:y}', {'class_prefix': 'é'}), ('.a .b>.c{x:y}', {'class_prefix': '中文'}),
    ('.a{x:y}.b{z:w}', {'class_prefix': ''}), ('.\\31  .b{x:y}:is(.-\\32  .c){z:w}', {}), ('.a\\9  .b{x:y}', {}), ('.md\\:flex .w-1\\/2:not(.\\31 0px){x:y}', {'class_prefix': 'p'}), ('.a\\.b{x:y}', {'class_prefix': 'p'}), ('.x .y{a:b}', {'class_prefix': '\U0001F600'}),
    (':host{c:d}', {'convert_host': True}), (':/**/host{c:d}.a{e:f}', {'convert_host': True, 'class_prefix': 'p'}), (':\\68ost{c:d}', {'convert_host': True}),
    ('@media (a){:hos\\74{c:d}}', {'convert_host': True, 'host_is': 'h'}), (':host{c:d}', {'convert_host': False}),
    ('@media (a){@supports (b){:host{c:d}}}@media (e){@supports (b){:host{f:g}}}', {'convert_host': True}),
    ('@media (a){.x .y{c:d}@supports (b){:host{e:f}}}', {'convert_host': True, 'class_prefix': 'p'}),
    ('@media (a){@supports (b){:host{c:d}}@supports (k){:host{l:m}}}:host{n:o}', {'convert_host': True}),
    ('@import "a";.b{c:d}', {'import_sign': 'IMP'}), ('@import "a" screen, print;.b{c:d}', {'import_sign': 'IMP'}),
    ('@import "a" layer(x) supports(display:grid) screen and (min-width:10px), print;', {'import_sign': 'IMP'}), ('a{b:1rpx}', {'rpx_ratio': 375.0}), ('a{b:1rpx}', {}),
]
# every combination of the option values on three small sheets (an option that is rewritten from another one in the constructor only
# shows under one combination)
import itertools as _it
for _ch, _hi, _cp, _is, _rr in _it.product((True, False), (None, 'h'), (None, 'p'), (None, 'IMP'), (None, 0.5)):
    _o = {'convert_host': _ch}
    for _k, _v in (('host_is', _hi), ('class_prefix', _cp), ('import_sign', _is), ('rpx_ratio', _rr)):
        if _v is not None:
            _o[_k] = _v
    PROBE_SHEETS.append((':host{c:d}.a{w:1rpx}@media (m){:host{e:f}.b{g:h}}', _o))
    if _is is not None:
        PROBE_SHEETS.append(('@import "a";:host(.k){c:d}', _o))
IMPORT_POSITION_PROBES = [
    ('@import "a";', {'import_sign': 'IMP'}, 0), ('.x{y:z}@import "a";', {'import_sign': 'IMP'}, 1), (':host{c:d}@import "a";', {'import_sign': 'IMP', 'convert_host': True}, 1),
    ('@media (a){:host{c:d}@import "a";}', {'import_sign': 'IMP', 'convert_host': True}, 1), ('@media (a){.x{c:d}}@import "a";', {'import_sign': 'IMP'}, 1), ('@font-face{a:b}@import "a";', {'import_sign': 'IMP'}, 1),
    (':host .x{c:d}@import "a";', {'import_sign': 'IMP', 'convert_host': True}, 1), ('@media (a){@import "a";}', {'import_sign': 'IMP'}, 0),
    ('/* c */ @import "a";', {'import_sign': 'IMP'}, 0),
]


def probe_sheets(res, key, what):
    """-> True if a probe sheet deviates from the reference rewrite (a violation is recorded)"""
    for css, opts in PROBE_SHEETS:
        why, out = cc.oracle_mismatch(css, dict(opts))
        res.coverage['traces_validated_against_impl'] = res.coverage.get('traces_validated_against_impl', 0) + 1
        if why is not None:
            res.violation(key, '%s | probe %r with %r -> %r (%s)' % (what, css, opts, out.get('normal'), why), {'css': css, 'options': opts})
            return True
    return False


def probe_import_position(res, key, what):
    for css, opts, want in IMPORT_POSITION_PROBES:
        out = cc.replay_sheet(css, dict(opts))
        res.coverage['traces_validated_against_impl'] = res.coverage.get('traces_validated_against_impl', 0) + 1
        n = sum(1 for w in out.get('warnings', []) if 'import' in json.dumps(w).lower())
        if (n > 0) != (want > 0):
            res.violation(key, '%s | %r with %r: %d import-position diagnostics, expected %s' % (what, css, opts, n, 'one' if want else 'none'), {'css': css, 'options': opts})
            return True
    return False


def constructor(res, mod, prop):
    lay = sc_env.layout()
    env = Css(lmax=1)
    T = []

    def reg(rx):
        def deco(f):
            T.append((rx, f))
            return f
        return deco

    @reg(r"^ParserInput::<'_>::new$|^Parser::<'_, '_>::new$")
    def opaque_new(exe, path, callee, args, dst_ty):
        return [('ret', path, Opaque(callee.split('::')[0], {'structural': True}))]

    @reg(r"^StepParser::<'_, '_, '_>::wrap$")
    def wrap(exe, path, callee, args, dst_ty):
        return [('ret', path, Agg('StepParser', None, {0: 'r'}))]

    @reg(r'^<str as ToString>::to_string$|^<str as ToOwned>::to_owned$')
    def to_string(exe, path, callee, args, dst_ty):
        return [('ret', path, contracts.strval(exe, path, args[0]))]

    @reg(r'^StyleSheetOutput::new$')
    def out_new(exe, path, callee, args, dst_ty):
        n = path.env.get('nout', 0) + 1
        path.env['nout'] = n
        return [('ret', path, Agg('StyleSheetOutput', None, {0: 'fresh%d' % n, 1: exe.snapshot(path, contracts.strval(exe, path, args[0])), 2: exe.snapshot(path, contracts.strval(exe, path, args[1]))}))]

    @reg(r'^parse_rules$')
    def enter(exe, path, callee, args, dst_ty):
        path.event('enter_rules', exe.snapshot(path, exe.deref_all(path, args[1])))
        return [('ret', path, UNIT)]

    @reg(r'^core::str::<impl str>::contains::<&str>$|^core::str::<impl str>::contains::<&String>$')
    def contains(exe, path, callee, args, dst_ty):
        a, b = contracts.strval(exe, path, args[0]), contracts.strval(exe, path, args[1])
        if isinstance(a, z3.ExprRef) and z3.is_string(a) and isinstance(b, z3.ExprRef) and z3.is_string(b):
            return [('ret', path, z3.Contains(a, b))]
        raise MirUnsupported('contains on %r / %r' % (a, b))

    exe = Executor(mod, T + env.table + contracts.TABLE, enums=sc_env.SC_ENUMS, max_visits=8, timeout_ms=20000)
    exe.merge = False
    p0 = env.new_path(exe)
    opts = p0.store[('heap', 'ss')].fields[lay.S['options']]
    p = Path()
    apath, acss = z3.String('arg_path'), z3.String('arg_css')
    fn = [x for x in mod.index if x.endswith('::from_css') and mod.headers[x].startswith('fn ')]
    if len(fn) != 1:
        res.inconc('constructor: from_css not found')
        return 0
    t = time.time()
    done = exe.run(fn[0], [apath, acss, opts], p)
    res.solver_time += exe.stats['solver_time']
    obs = []
    tgt = 'from_css (constructor)'
    extra_fields = [n for n, _ in lay.ss if n not in KNOWN_FIELDS]
    rets = [q for q in done if q.status == 'returned']
    if not rets:
        res.inconc('constructor: no returning path')
    for q in rets:
        ev = [e for e in q.events if e[0] == 'enter_rules']
        if len(ev) != 1:
            obs.append(cc.Ob([prop], 'entry', 'from_css calls parse_rules %d times' % len(ev), q, z3.BoolVal(True), tgt))
            continue
        this = ev[0][1]
        if not isinstance(this, Agg):
            raise MirUnsupported('transformer value %r' % (this,))
        o2 = this.fields.get(lay.S['options'])
        for i, (fname, fty) in enumerate(lay.opts):
            a, b = opts.fields.get(i), o2.fields.get(i) if isinstance(o2, Agg) else None
            obs.append(cc.Ob([prop], 'options-changed', 'option %s reaches the transformer changed' % fname, q, differs(a, b), tgt, {'option': fname}))
        ulp = this.fields.get(lay.S['using_low_priority'])
        obs.append(cc.Ob([prop], 'entry', 'using_low_priority is not false at entry', q, (ulp != z3.BoolVal(False)) if isinstance(ulp, z3.ExprRef) else z3.BoolVal(ulp is not False), tgt))
        for fname in ('warnings', 'cur_at_rule_stacks'):
            v = this.fields.get(lay.S[fname])
            obs.append(cc.Ob([prop], 'entry', '%s is not empty at entry' % fname, q, z3.BoolVal(not (isinstance(v, Agg) and v.name == 'Vec' and not v.fields)), tgt))
        n1, n2 = this.fields.get(lay.S['normal_output']), this.fields.get(lay.S['low_priority_output'])
        fresh = isinstance(n1, Agg) and isinstance(n2, Agg) and n1.fields.get(0) != n2.fields.get(0)
        obs.append(cc.Ob([prop], 'entry', 'normal and low-priority output are not two fresh objects', q, z3.BoolVal(not fresh), tgt))
    bad, n = cc.decide(exe, obs, res, [prop])
    log('[%s] constructor: paths=%d obligations=%d violated=%d (%.1fs)' % (prop, len(done), n, len(bad), time.time() - t))
    res.functions.append({'routine': 'StyleSheetTransformer::from_css up to parse_rules', 'paths': len(done), 'obligations': n, 'transformer_fields': [f for f, _ in lay.ss]})
    seen = set()
    for ob, model in bad:
        if ob.cls in seen:
            continue
        seen.add(ob.cls)
        key = {'engine': 'M', 'harness': 'constructor', 'class': ob.cls + (':' + ob.info['option'] if ob.info and 'option' in ob.info else '')}
        if not probe_sheets(res, key, 'from_css: ' + ob.desc):
            res.inconc('constructor: %s - not observable on the probe sheets' % ob.desc)
    if extra_fields:
        key = {'engine': 'M', 'harness': 'constructor', 'class': 'extra-state'}
        what = 'the transformer carries state the routine analysis does not model (%s)' % ', '.join(extra_fields)
        if not probe_sheets(res, key, what):
            res.inconc('%s: routine-level results do not cover it; the probe sheets show no deviation' % what)
    return n


def differs(a, b):
    if isinstance(a, SymEnum) and isinstance(b, SymEnum):
        return z3.BoolVal(a.sid != b.sid)
    if isinstance(a, z3.ExprRef) and isinstance(b, z3.ExprRef):
        return a != b
    if isinstance(a, Agg) and isinstance(b, Agg) and a.name == b.name and a.variant == b.variant and set(a.fields) == set(b.fields):
        return z3.Or([differs(a.fields[k], b.fields[k]) for k in a.fields]) if a.fields else z3.BoolVal(False)
    return z3.BoolVal(not (a is b or a == b))


def rule_list(res, mod, prop, lmax=3):
    lay = sc_env.layout()
    env = Css(lmax=lmax)
    T = []
    outlen = z3.Function('output_len', z3.IntSort(), z3.IntSort(), z3.IntSort())      # (output, epoch) -> bytes written so far

    def reg(rx):
        def deco(f):
            T.append((rx, f))
            return f
        return deco

    def epoch(path):
        return len([e for e in path.events if e[0] == 'rule'])

    def consume_rule(exe, path, name, args, need_at=None):
        level = env.level_of(exe, path, args[0])
        pos, pending = env.cpos(path, level)
        k = epoch(path)
        is_at = z3.Bool('rule_%d_is_at' % pos)
        outs = []
        if name == 'parse_at_rule':
            path.event('at_call', k, args[2])
            no = path.clone()
            if exe.feasible(no, [z3.Not(is_at)]):
                no.pc.append(z3.Not(is_at))
                outs.append(('ret', no, z3.BoolVal(False)))
            if not exe.feasible(path, [is_at]):
                return outs
            path.pc.append(is_at)
        if pos >= env.lmax:
            path.pc.append(z3.BoolVal(False))
            return outs
        path.pc.append(sc_env.level_len(level) > pos)
        path.event('rule', name, pos)
        env.set_cpos(path, level, pos + 1, None)
        env.havoc(exe, path, args[1])
        e2 = k + 1
        for w in (0, 1):
            path.pc.append(outlen(w, e2) >= outlen(w, k))
        outs.append(('ret', path, z3.BoolVal(True) if name == 'parse_at_rule' else UNIT))
        return outs

    @reg(r'^parse_at_rule$')
    def at_rule(exe, path, callee, args, dst_ty):
        return consume_rule(exe, path, 'parse_at_rule', args)

    @reg(r'^parse_qualified_rule$')
    def q_rule(exe, path, callee, args, dst_ty):
        return consume_rule(exe, path, 'parse_qualified_rule', args)

    @reg(r'output::<impl .*>::cur_utf8_len$|^StyleSheetOutput::cur_utf8_len$')
    def cur_len(exe, path, callee, args, dst_ty):
        o = exe.deref_all(path, args[0])
        which = 0 if (isinstance(o, Agg) and o.fields.get(0) == 'normal') else 1
        return [('ret', path, outlen(which, epoch(path)))]

    exe = Executor(mod, T + env.table + contracts.TABLE, enums=sc_env.SC_ENUMS, max_visits=lmax + 3, timeout_ms=20000)
    exe.merge = False
    exe.base = [outlen(w, 0) >= 0 for w in (0, 1)]
    p = env.new_path(exe)
    t = time.time()
    done = exe.run('parse_rules', [Ref(('heap', 'input')), Ref(('heap', 'ss'))], p)
    res.solver_time += exe.stats['solver_time']
    obs = []
    tgt = 'parse_rules'
    for f in exe.findings:
        if f.kind == 'unwind':
            obs.append(cc.Ob([prop], 'rule-list', 'parse_rules: an iteration of the rule loop consumes no rule (unwinding bound reached)', f.path, z3.BoolVal(True), tgt))
        else:
            obs.append(cc.Ob([prop], 'exec', 'parse_rules: %s' % f.kind, f.path, z3.BoolVal(True), tgt))
    rets = [q for q in done if q.status == 'returned']
    if not rets:
        res.inconc('rule list: no returning path')
    for q in rets:
        rules = [e for e in q.events if e[0] == 'rule']
        calls = [e for e in q.events if e[0] == 'at_call']
        for (_, k, flag) in calls:
            fl = flag if isinstance(flag, z3.ExprRef) else z3.BoolVal(bool(flag))
            # the property: "imports after other rules are ... flagged" - a rule that follows only `@import` statements may or may not count as
            # "at the start" (CSS allows several imports up front), so for k > 0 the flag is only wrong if some earlier rule is not an import
            only_imports = z3.And([z3.And(z3.Bool('rule_%d_is_at' % j), z3.Bool('rule_%d_is_import' % j)) for j in range(k)]) if k else z3.BoolVal(True)
            obs.append(cc.Ob([prop], 'import-position', 'at_file_start is %s for rule number %d of the list%s' % ('not true' if k == 0 else 'true', k + 1, '' if k == 0 else ' although a rule other than @import precedes it'), q,
                             z3.Not(fl) if k == 0 else z3.And(fl, z3.Not(only_imports)), tgt))
        # every rule of the level was handed to exactly one routine, in order
        poss = [e[2] for e in rules]
        obs.append(cc.Ob([prop], 'rule-list', 'rules are not processed one after the other (%s)' % poss, q, z3.BoolVal(poss != list(range(len(poss)))), tgt))
        n_ = len(poss)
        trailing_ws = z3.And(sc_env.level_len('r') == n_ + 1, sc_env.tok_kind('r', n_) == sc_env.TK['WhiteSpace']) if n_ < lmax else z3.BoolVal(False)
        obs.append(cc.Ob([prop], 'rule-list', 'the rule loop ends before the list is exhausted', q, z3.And(sc_env.level_len('r') > n_, z3.Not(trailing_ws)), tgt))
    bad, n = cc.decide(exe, obs, res, [prop])
    log('[%s] rule list: paths=%d obligations=%d violated=%d (%.1fs)' % (prop, len(done), n, len(bad), time.time() - t))
    res.functions.append({'routine': 'parse_rules (rules as units; parse_at_rule / parse_qualified_rule as events)', 'max_rules': lmax, 'paths': len(done), 'obligations': n})
    seen = set()
    for ob, model in bad:
        if ob.cls in seen:
            continue
        seen.add(ob.cls)
        key = {'engine': 'M', 'harness': 'rule-list', 'class': ob.cls}
        hit = probe_import_position(res, key, 'parse_rules: ' + ob.desc) if ob.cls == 'import-position' else probe_sheets(res, key, 'parse_rules: ' + ob.desc)
        if not hit:
            res.inconc('rule list: %s - not observable on the probe sheets' % ob.desc)
    return n


def run(res, mod, prop, what=('constructor', 'rule_list')):
    n = 0
    for w in what:
        try:
            n += constructor(res, mod, prop) if w == 'constructor' else rule_list(res, mod, prop)
        except MirUnsupported as e:
            # nothing is decided for this part: probe, and report honestly
            key = {'engine': 'replay', 'harness': w, 'class': 'unsupported'}
            what_ = '%s is outside the executor (%s)' % (w, str(e)[:120])
            hit = probe_sheets(res, key, what_) or (w == 'rule_list' and probe_import_position(res, key, what_))
            if not hit:
                res.inconc(what_)
    res.coverage['obligations'] = res.coverage.get('obligations', 0) + n
    return n
