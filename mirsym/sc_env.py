"""Open-environment model for the stylesheet compiler (DESIGN 3.2).

* `cssparser::Parser` is a contract over a *symbolic token forest*: level `r` is the level the routine under analysis
  starts in; the block opened by token i of level L is level `L.i`.  Token (L, i) is a SymEnum `Token` whose kind is
  the z3 Int `k_L_i` and whose payloads are z3 constants named after (L, i, variant, field) - so every path (and both
  sides of a try_parse rollback) sees the same forest.  The length of level L is the z3 Int `len_L` <= LMAX.
* every effect on an output is an *event*; calls to the other routines of the transformer are events with the effect on
  the cursor that their own verification establishes (assume-guarantee per routine).
"""
import glob
import os
import re
import z3

from .core import zstr, Agg, SymEnum, Ref, SeqV, Opaque, UNIT, FnItem, Executor, Path, MirFrame, vkey as _vk
from .mir import MirUnsupported
from . import contracts as C
from .contracts import some, NONE, ok, err, is_variant, payload, fork_variant, str_eq, call_closure


def cssparser_token_variants():
    """Token variants in declaration order, read from the cssparser source the crate is built against."""
    cands = glob.glob(os.path.expanduser('~/.cargo/registry/src/*/cssparser-0.34*/src/tokenizer.rs'))
    if not cands:
        raise MirUnsupported('cssparser source not found')
    src = open(cands[0]).read()
    m = re.search(r'pub enum Token<\'a> \{(.*?)\n\}', src, re.S)
    body = re.sub(r'//[^\n]*', '', m.group(1))
    variants, depth, cur = [], 0, ''
    for ch in body:
        if ch in '({':
            depth += 1
        elif ch in ')}':
            depth -= 1
        if ch == ',' and depth == 0:
            variants.append(cur.strip())
            cur = ''
        else:
            cur += ch
    if cur.strip():
        variants.append(cur.strip())
    table, fields = {}, {}
    for i, v in enumerate(variants):
        name = re.match(r'\w+', v).group(0)
        table[name] = i
        fm = re.search(r'\{(.*)\}', v, re.S)
        if fm:
            fields[name] = [(re.match(r'\s*(\w+):\s*(.*)', f.strip(), re.S).group(1), re.match(r'\s*(\w+):\s*(.*)', f.strip(), re.S).group(2).strip())
                            for f in split_fields(fm.group(1))]
        elif '(' in v:
            fields[name] = [('0', v[v.index('(') + 1:v.rindex(')')].strip())]
        else:
            fields[name] = []
    return table, fields


def split_fields(s):
    out, depth, cur = [], 0, ''
    for ch in s:
        if ch in '(<':
            depth += 1
        elif ch in ')>':
            depth -= 1
        if ch == ',' and depth == 0:
            if cur.strip():
                out.append(cur)
            cur = ''
        else:
            cur += ch
    if cur.strip():
        out.append(cur)
    return out


def struct_fields(src_path, name):
    """field (name, type) list of `struct name { ... }` in declaration order (= MIR field indices)"""
    src = open(src_path).read()
    m = re.search(r'struct %s\b[^{;]*\{(.*?)\n\}' % re.escape(name), src, re.S)
    if not m:
        raise MirUnsupported('struct %s not found in %s' % (name, src_path))
    body = re.sub(r'//[^\n]*', '', m.group(1))
    out = []
    for f in split_fields(body):
        mm = re.match(r'\s*(?:#\[[^\]]*\]\s*)*(?:pub(?:\([^)]*\))?\s+)?(\w+)\s*:\s*(.*)', f.strip(), re.S)
        if mm:
            out.append((mm.group(1), ' '.join(mm.group(2).split())))
    return out


class Layout:
    """field indices of the transformer structs, read from the current source (so inserting a field does not break the harness)"""

    def __init__(self):
        from lib.common import SC
        lib = os.path.join(SC, 'src', 'lib.rs')
        self.ss = struct_fields(lib, 'StyleSheetTransformer')
        self.opts = struct_fields(lib, 'StyleSheetOptions')
        self.S = {n: i for i, (n, _) in enumerate(self.ss)}
        self.O = {n: i for i, (n, _) in enumerate(self.opts)}
        need_s = ('options', 'normal_output', 'low_priority_output', 'using_low_priority', 'warnings', 'cur_at_rule_stacks')
        need_o = ('class_prefix', 'class_prefix_sign', 'rpx_ratio', 'import_sign', 'convert_host', 'host_is')
        for n in need_s:
            if n not in self.S:
                raise MirUnsupported('StyleSheetTransformer has no field %s any more: the harness must be adapted' % n)
        for n in need_o:
            if n not in self.O:
                raise MirUnsupported('StyleSheetOptions has no field %s any more: the harness must be adapted' % n)


_LAYOUT = []


def layout():
    if not _LAYOUT:
        _LAYOUT.append(Layout())
    return _LAYOUT[0]


TOKEN_DISCR, TOKEN_FIELDS = cssparser_token_variants()
TK = TOKEN_DISCR
OPENERS = ('Function', 'ParenthesisBlock', 'SquareBracketBlock', 'CurlyBracketBlock')
NV = len(TOKEN_DISCR)

SC_ENUMS = {
    r'(^|::)Token$': TOKEN_DISCR,
    r'ParseErrorKind$': {'UnexpectedCharacter': 0x10001, 'IllegalImportPosition': 0x10002, 'HostSelectorCombination': 0x10003},
}

loc_line = z3.Function('loc_line', z3.IntSort(), z3.IntSort(), z3.IntSort(), z3.IntSort())
loc_col = z3.Function('loc_col', z3.IntSort(), z3.IntSort(), z3.IntSort(), z3.IntSort())
urlenc = z3.Function('urlencoding_encode', z3.StringSort(), z3.StringSort())
urldec = z3.Function('urlencoding_decode', z3.StringSort(), z3.StringSort())
LEVEL_IDS = {}


def level_code(level):
    if level not in LEVEL_IDS:
        LEVEL_IDS[level] = len(LEVEL_IDS)
    return LEVEL_IDS[level]


def lname(level):
    return level.replace('.', '_')


def level_len(level):
    return z3.Int('len_' + lname(level))


def tok_kind(level, i):
    return z3.Int('k_%s_%d' % (lname(level), i))


def is_kind(level, i, *names):
    k = tok_kind(level, i)
    return z3.Or([k == TK[n] for n in names]) if len(names) > 1 else k == TK[names[0]]


def payload_term(level, i, variant, fidx):
    fields = TOKEN_FIELDS.get(variant)
    if fields is None or fidx >= len(fields):
        raise MirUnsupported('payload %s.%d' % (variant, fidx))
    fname, fty = fields[fidx]
    base = 't_%s_%d_%s_%s' % (lname(level), i, variant, fname)
    if fty in ('char',):
        return z3.Int(base)
    if fty == 'bool':
        return z3.Bool(base)
    if fty == 'f32':
        return z3.Real(base)
    if fty.startswith('Option<i32>'):
        b = z3.Bool(base + '_some')
        v = z3.Int(base + '_v')
        return SymEnum(base, 'Option', z3.If(b, z3.IntVal(1), z3.IntVal(0)), lambda var, j, _v=v: _v)
    if 'CowRcStr' in fty or 'str' in fty:
        return z3.String(base)
    raise MirUnsupported('payload type ' + fty)


def token(level, i):
    return SymEnum('%s#%d' % (level, i), 'Token', tok_kind(level, i),
                   lambda variant, fidx, _l=level, _i=i: payload_term(_l, _i, variant, fidx), meta=(level, i))


def token_constraints(level, i):
    k = tok_kind(level, i)
    cs = [k >= 0, k < NV, k != TK['Comment']]
    if i > 0:
        cs.append(z3.Not(z3.And(k == TK['WhiteSpace'], tok_kind(level, i - 1) == TK['WhiteSpace'])))
    # chars are scalar values
    d = z3.Int('t_%s_%d_Delim_0' % (lname(level), i))
    cs.append(z3.And(d >= 0, d <= 0x10FFFF))
    return cs


class Css:
    """per-run configuration of the environment"""

    def __init__(self, lmax=3):
        self.lmax = lmax
        self.event_routines = {}      # callee regex -> contract
        self.table = []
        self._build()

    # ---------------------------------------------------------------- cursor state helpers
    @staticmethod
    def cpos(path, level):
        return path.env['cpos'][level]

    @staticmethod
    def set_cpos(path, level, pos, pending):
        d = dict(path.env['cpos'])
        d[level] = (pos, pending)
        path.env['cpos'] = d
        path.env['cursor'] = path.env.get('cursor', 0)

    def ensure_level(self, path, level):
        if level not in path.env['cpos']:
            self.set_cpos(path, level, 0, None)
        n = level_len(level)
        key = ('parser', level)
        if key not in path.store:
            path.store[key] = Agg('Parser', None, {0: level})
            path.pc.append(z3.And(n >= 0, n <= self.lmax))
        return Ref(key)

    @staticmethod
    def level_of(exe, path, parser_ref):
        v = exe.deref_all(path, parser_ref)
        if isinstance(v, Agg) and v.name == 'StepParser':
            v = exe.deref_all(path, v.fields[0])
        if not (isinstance(v, Agg) and v.name == 'Parser'):
            raise MirUnsupported('not a parser: %r' % (v,))
        return v.fields[0]

    def materialize(self, path, level, i):
        key = ('tok', level, i)
        if key not in path.store:
            path.store[key] = token(level, i)
            path.pc.extend(token_constraints(level, i))
        return Ref(key)

    def fork_has_token(self, exe, path, level, pos):
        """-> (yes, no): more tokens at `pos` of `level` / end of level"""
        n = level_len(level)
        yes = no = None
        if pos < self.lmax and exe.feasible(path, [n > pos]):
            yes = path.clone()
            yes.pc.append(n > pos)
            self.materialize(yes, level, pos)
        if exe.feasible(path, [n <= pos]):
            no = path.clone()
            no.pc.append(n <= pos)
        return yes, no

    # ---------------------------------------------------------------- contracts
    def _build(self):
        T = self.table
        env = self

        def reg(rx):
            def deco(f):
                T.append((rx, f))
                return f
            return deco
        P = r"^(cssparser::)?Parser::<'_, '_>::"

        @reg(P + r'next_including_whitespace$')
        def next_incl(exe, path, callee, args, dst_ty):
            level = env.level_of(exe, path, args[0])
            pos, pending = env.cpos(path, level)
            yes, no = env.fork_has_token(exe, path, level, pos)
            outs = []
            if yes is not None:
                env.set_cpos(yes, level, pos + 1, pos)       # `pending`: a block is pending iff this token opens one
                yes.env['cursor'] = yes.env.get('cursor', 0) + 1
                yes.event('consume', level, pos)
                outs.append(('ret', yes, ok(Ref(('tok', level, pos)))))
            if no is not None:
                env.set_cpos(no, level, pos, None)
                outs.append(('ret', no, err(Opaque('BasicParseError', {'structural': True, 'kind': 'EndOfInput'}))))
            return outs

        def skip_ws(exe, path, level):
            """-> list of paths after skipping at most one whitespace token (adjacent whitespace cannot occur)"""
            pos, pending = env.cpos(path, level)
            outs = []
            if pos < env.lmax:
                c = z3.And(level_len(level) > pos, tok_kind(level, pos) == TK['WhiteSpace'])
                if exe.feasible(path, [c]):
                    q = path.clone()
                    env.materialize(q, level, pos)
                    q.pc.append(c)
                    env.set_cpos(q, level, pos + 1, None)
                    q.env['cursor'] = q.env.get('cursor', 0) + 1
                    q.event('skip_ws', level, pos)
                    outs.append(q)
                nc = z3.Not(c)
                if exe.feasible(path, [nc]):
                    q = path.clone()
                    q.pc.append(nc)
                    if exe.feasible(q, [level_len(level) > pos]):
                        pass
                    env.set_cpos(q, level, pos, None)
                    outs.append(q)
            else:
                q = path
                q.pc.append(level_len(level) <= pos)
                env.set_cpos(q, level, pos, None)
                outs.append(q)
            return outs

        @reg(P + r'skip_whitespace$')
        def skip_whitespace(exe, path, callee, args, dst_ty):
            level = env.level_of(exe, path, args[0])
            return [('ret', q, UNIT) for q in skip_ws(exe, path, level)]

        @reg(P + r'state$')
        def state(exe, path, callee, args, dst_ty):
            level = env.level_of(exe, path, args[0])
            pos, pending = env.cpos(path, level)
            return [('ret', path, Agg('ParserState', None, {0: level, 1: pos, 2: pending, 3: path.env.get('cursor', 0)}))]

        @reg(P + r'reset$')
        def reset(exe, path, callee, args, dst_ty):
            level = env.level_of(exe, path, args[0])
            st = exe.deref_all(path, args[1])
            env.set_cpos(path, level, st.fields[1], st.fields[2])
            path.env['cursor'] = st.fields[3]
            path.event('reset', level, st.fields[1])
            return [('ret', path, UNIT)]

        @reg(P + r'try_parse::<')
        def try_parse(exe, path, callee, args, dst_ty):
            level = env.level_of(exe, path, args[0])
            pos, pending = env.cpos(path, level)
            saved = (level, pos, pending, path.env.get('cursor', 0))

            def then(exe, p, ret, saved):
                if not isinstance(ret, Agg) or ret.variant not in ('Ok', 'Err'):
                    raise MirUnsupported('try_parse closure result %r' % (ret,))
                if ret.variant == 'Err':
                    env.set_cpos(p, saved[0], saved[1], saved[2])
                    p.env['cursor'] = saved[3]
                    p.event('reset', saved[0], saved[1])
                return [('ret', p, ret)]
            return [call_closure(exe, path, args[1], [args[0]], then, saved)]

        @reg(P + r'parse_nested_block::<')
        def parse_nested_block(exe, path, callee, args, dst_ty):
            level = env.level_of(exe, path, args[0])
            pos, pending = env.cpos(path, level)
            if pending is None:
                exe.obligation(path, 'panic:parse_nested_block without a just-consumed block token', z3.BoolVal(True), {'level': level})
                return [('diverge', path)]
            alive = exe.obligation(path, 'panic:parse_nested_block after a non-block token',
                                   z3.Not(is_kind(level, pending, *OPENERS)), {'level': level, 'token': pending})
            if not alive or not exe.feasible(path):
                return [('diverge', path)]
            child = '%s.%d' % (level, pending)
            env.set_cpos(path, level, pos, None)
            nested = env.ensure_level(path, child)
            env.set_cpos(path, child, 0, None)
            path.event('enter', child)

            def then(exe, p, ret, child):
                p.event('leave', child)
                cpos, _ = env.cpos(p, child)
                d = dict(p.env['cpos'])
                del d[child]
                p.env['cpos'] = d
                for k in [k for k in p.store if k[0] in ('tok', 'parser') and isinstance(k[1], str) and (k[1] == child or k[1].startswith(child + '.'))]:
                    del p.store[k]
                if not isinstance(ret, Agg) or ret.variant not in ('Ok', 'Err'):
                    raise MirUnsupported('parse_nested_block closure result %r' % (ret,))
                if ret.variant == 'Err':
                    return [('ret', p, err(Opaque('ParseError', {'structural': True})))]
                # Ok: cssparser then demands the block to be exhausted
                n = level_len(child)
                rest_ws = z3.Or(n <= cpos, z3.And(n == cpos + 1, tok_kind(child, min(cpos, env.lmax - 1)) == TK['WhiteSpace'])) if cpos < env.lmax else z3.BoolVal(True)
                outs = []
                if exe.feasible(p, [rest_ws]):
                    q = p.clone()
                    q.pc.append(rest_ws)
                    outs.append(('ret', q, ret))
                if exe.feasible(p, [z3.Not(rest_ws)]):
                    q = p.clone()
                    q.pc.append(z3.Not(rest_ws))
                    outs.append(('ret', q, err(Opaque('ParseError', {'structural': True}))))
                return outs
            return [call_closure(exe, path, args[1], [nested], then, child)]

        def exhausted_term(path, level):
            pos, pending = env.cpos(path, level)
            n = level_len(level)
            if pos >= env.lmax:
                return n <= pos
            return z3.Or(n <= pos, z3.And(n == pos + 1, tok_kind(level, pos) == TK['WhiteSpace']))

        @reg(P + r'is_exhausted$')
        def is_exhausted(exe, path, callee, args, dst_ty):
            level = env.level_of(exe, path, args[0])
            pos, pending = env.cpos(path, level)
            if pos < env.lmax:
                # the look-ahead token's well-formedness constraints
                c = token_constraints(level, pos)
                path.pc.append(z3.Implies(level_len(level) > pos, z3.And(c)))
            return [('ret', path, exhausted_term(path, level))]

        def expect_kind(kind, result_fn):
            def f(exe, path, callee, args, dst_ty):
                level = env.level_of(exe, path, args[0])
                outs = []
                for p in skip_ws(exe, path, level):
                    pos, pending = env.cpos(p, level)
                    yes, no = env.fork_has_token(exe, p, level, pos)
                    if yes is not None:
                        env.set_cpos(yes, level, pos + 1, pos)
                        yes.env['cursor'] = yes.env.get('cursor', 0) + 1
                        yes.event('consume', level, pos)
                        c = tok_kind(level, pos) == TK[kind]
                        if exe.feasible(yes, [c]):
                            q = yes.clone()
                            q.pc.append(c)
                            outs.append(('ret', q, ok(result_fn(level, pos))))
                        if exe.feasible(yes, [z3.Not(c)]):
                            q = yes.clone()
                            q.pc.append(z3.Not(c))
                            outs.append(('ret', q, err(Opaque('BasicParseError', {'structural': True, 'kind': 'UnexpectedToken'}))))
                    if no is not None:
                        outs.append(('ret', no, err(Opaque('BasicParseError', {'structural': True, 'kind': 'EndOfInput'}))))
                return outs
            return f
        T.append((P + r'expect_colon$', expect_kind('Colon', lambda l, i: UNIT)))
        T.append((P + r'expect_string_cloned$', expect_kind('QuotedString', lambda l, i: payload_term(l, i, 'QuotedString', 0))))

        @reg(P + r'expect_url_or_string$|' + P + r'expect_url$')
        def expect_url_or_string(exe, path, callee, args, dst_ty):
            # cssparser: <string-token> | <url-token> | url( <string-token> ) -> the unescaped value; anything else is an error.
            # The function form is modelled for a block holding exactly one string token (other contents: Err, which is what
            # cssparser answers unless the rest is whitespace - the whitespace variants are outside the model and demand nothing).
            level = env.level_of(exe, path, args[0])
            with_string = not callee.endswith('expect_url')
            outs = []
            for p in skip_ws(exe, path, level):
                pos, pending = env.cpos(p, level)
                yes, no = env.fork_has_token(exe, p, level, pos)
                if no is not None:
                    outs.append(('ret', no, err(Opaque('BasicParseError', {'structural': True, 'kind': 'EndOfInput'}))))
                if yes is None:
                    continue
                env.set_cpos(yes, level, pos + 1, pos)
                yes.env['cursor'] = yes.env.get('cursor', 0) + 1
                yes.event('consume', level, pos)
                k = tok_kind(level, pos)
                child = '%s.%d' % (level, pos)
                fn_ok = z3.And(k == TK['Function'], payload_term(level, pos, 'Function', 0) == z3.StringVal('url'),
                               level_len(child) == 1, tok_kind(child, 0) == TK['QuotedString'])
                cases = [(k == TK['UnquotedUrl'], payload_term(level, pos, 'UnquotedUrl', 0), False), (fn_ok, payload_term(child, 0, 'QuotedString', 0), True)]
                if with_string:
                    cases.insert(0, (k == TK['QuotedString'], payload_term(level, pos, 'QuotedString', 0), False))
                for c, val, is_fn in cases:
                    if exe.feasible(yes, [c]):
                        q = yes.clone()
                        q.pc.append(c)
                        if is_fn:
                            q.pc.append(z3.And(level_len(child) >= 0, level_len(child) <= env.lmax))
                            q.pc.extend(token_constraints(child, 0))
                            env.set_cpos(q, level, pos + 1, None)
                            q.event('url-function', level, pos)
                        outs.append(('ret', q, ok(val)))
                none = z3.Not(z3.Or([c for c, _, _ in cases]))
                if exe.feasible(yes, [none]):
                    q = yes.clone()
                    q.pc.append(none)
                    outs.append(('ret', q, err(Opaque('BasicParseError', {'structural': True, 'kind': 'UnexpectedToken'}))))
            return outs

        @reg(P + r'current_source_location$')
        def current_source_location(exe, path, callee, args, dst_ty):
            level = env.level_of(exe, path, args[0])
            pos, pending = env.cpos(path, level)
            pe = z3.IntVal(-1) if pending is None else z3.If(is_kind(level, pending, *OPENERS), z3.IntVal(pending), z3.IntVal(-1))
            a = (z3.IntVal(level_code(level)), z3.IntVal(pos), z3.simplify(pe))
            col = loc_col(*a)
            line = loc_line(*a)
            path.pc.append(z3.And(col >= 1, col < 2**31, line >= 0, line < 2**31))
            return [('ret', path, Agg('SourceLocation', None, {0: line, 1: col}))]

        @reg(P + r'new_error_for_next_token::<|' + P + r'new_custom_error::<|' + P + r'new_basic_error|' + P + r'new_error::<')
        def new_error(exe, path, callee, args, dst_ty):
            return [('ret', path, Opaque('ParseError', {'structural': True}))]

        # ------------------------------------------------------------ token helpers
        @reg(r"<(cssparser::)?Token<'_> as PartialEq>::(eq|ne)$")
        def token_eq(exe, path, callee, args, dst_ty):
            a, b = exe.deref_all(path, args[0]), exe.deref_all(path, args[1])
            if isinstance(b, SymEnum) and isinstance(a, Agg):
                a, b = b, a
            if isinstance(a, SymEnum) and isinstance(b, Agg) and not b.fields:
                r = a.discr == exe.discr_of('Token', b.variant)
            elif isinstance(a, Agg) and isinstance(b, Agg) and not a.fields and not b.fields:
                r = z3.BoolVal(a.variant == b.variant)
            else:
                raise MirUnsupported('Token equality with payloads: %r %r' % (a, b))
            return [('ret', path, z3.Not(r) if callee.endswith('ne') else r)]

        @reg(r"<CowRcStr<'_> as Deref>::deref$|<cssparser::CowRcStr<'_> as Deref>::deref$|core::str::<impl str>::as_bytes$|<str as ToString>::to_string$|<String as ToString>::to_string$|<CowRcStr<'_> as ToString>::to_string$|alloc::string::<impl ToString for str>::to_string|<str as ToOwned>::to_owned$")
        def ident(exe, path, callee, args, dst_ty):
            return [('ret', path, args[0])]

        @reg(r'^(std::option::)?Option::<String>::unwrap_or_default$')
        def unwrap_or_default(exe, path, callee, args, dst_ty):
            v = args[0]
            yes, no = fork_variant(exe, path, v, 'Some')
            outs = []
            if yes is not None:
                outs.append(('ret', yes, payload(exe, v, 'Some')))
            if no is not None:
                outs.append(('ret', no, z3.StringVal('')))
            return outs

        @reg(r'^(urlencoding::)?encode$')
        def urlencode(exe, path, callee, args, dst_ty):
            s = C.strval(exe, path, args[0])
            return [('ret', path, urlenc(s))]

        @reg(r'^(urlencoding::)?decode$')
        def urldecode(exe, path, callee, args, dst_ty):
            s = C.strval(exe, path, args[0])
            okp, errp = path.clone(), path
            return [('ret', okp, ok(urldec(s))), ('ret', errp, err(Opaque('FromUtf8Error', {'structural': True})))]

        # ------------------------------------------------------------ format!
        @reg(r"core::fmt::rt::Argument::<'_>::new_display::<")
        def new_display(exe, path, callee, args, dst_ty):
            return [('ret', path, Agg('FmtArg', None, {0: C.strval(exe, path, args[0])}))]

        @reg(r"^Arguments::<'_>::new::<")
        def arguments_new(exe, path, callee, args, dst_ty):
            tmpl = exe.deref_all(path, args[0])
            arr = exe.deref_all(path, args[1])
            if not (isinstance(tmpl, z3.ExprRef) and z3.is_string_value(tmpl)):
                raise MirUnsupported('format template %r' % (tmpl,))
            raw = zstr(tmpl)
            # z3 escapes non-printable chars as \u{..}
            raw = re.sub(r'\\u\{([0-9a-fA-F]+)\}', lambda m: chr(int(m.group(1), 16)), raw)
            pieces, i, argi = [], 0, 0
            while i < len(raw):
                b = ord(raw[i])
                if b == 0:
                    break
                if b == 0xC0:
                    pieces.append(arr.fields[argi].fields[0])
                    argi += 1
                    i += 1
                elif b < 0x80:
                    pieces.append(z3.StringVal(raw[i + 1:i + 1 + b]))
                    i += 1 + b
                else:
                    raise MirUnsupported('format template byte %#x' % b)
            return [('ret', path, Agg('Arguments', None, {0: tuple(pieces)}))]

        @reg(r'^(alloc::fmt::|std::fmt::)?format$')
        def fmt_format(exe, path, callee, args, dst_ty):
            a = args[0]
            pieces = [p for p in a.fields[0]]
            for p in pieces:
                if not (isinstance(p, z3.ExprRef) and z3.is_string(p)):
                    raise MirUnsupported('format argument %r' % (p,))
            r = pieces[0] if len(pieces) == 1 else z3.Concat(*pieces)
            return [('ret', path, r)]

        @reg(r'^must_use::<')
        def must_use(exe, path, callee, args, dst_ty):
            return [('ret', path, args[0])]

        # ------------------------------------------------------------ outputs (events)
        def which(out_ref):
            lay = layout()
            for st in out_ref.proj:
                if st == ('field', lay.S['normal_output']):
                    return 'normal'
                if st == ('field', lay.S['low_priority_output']):
                    return 'low'
            return repr(out_ref)

        @reg(r'^(output::)?StyleSheetOutput::append_token$')
        def out_append_token(exe, path, callee, args, dst_ty):
            path.event('out', which(args[0]), 'token', exe.snapshot(path, args[1]), exe.snapshot(path, args[2]))
            return [('ret', path, UNIT)]

        @reg(r'^(output::)?StyleSheetOutput::append_token_space_preserved$')
        def out_append_token_sp(exe, path, callee, args, dst_ty):
            path.event('out', which(args[0]), 'token_sp', exe.snapshot(path, args[1]), exe.snapshot(path, args[2]))
            return [('ret', path, UNIT)]

        @reg(r'^(output::)?StyleSheetOutput::append_raw$')
        def out_append_raw(exe, path, callee, args, dst_ty):
            path.event('out', which(args[0]), 'raw', exe.snapshot(path, args[1]), None)
            return [('ret', path, UNIT)]

        @reg(r'^(output::)?StyleSheetOutput::cur_utf8_len$')
        def out_len(exe, path, callee, args, dst_ty):
            n = sum(1 for e in path.events if e[0] == 'out')
            return [('ret', path, z3.IntVal(n))]          # "length" = number of output events so far (a mark)

        @reg(r'^(output::)?StyleSheetOutput::get_output_segment$')
        def out_segment(exe, path, callee, args, dst_ty):
            rng = args[1]
            a, b = z3.simplify(rng.fields[0]), z3.simplify(rng.fields[1])
            return [('ret', path, Opaque('segment', {'structural': True, 'which': which(args[0]), 'from': a, 'to': b}))]

        @reg(r'^StyleSheetTransformer::add_warning$')
        def add_warning(exe, path, callee, args, dst_ty):
            path.event('warning', exe.snapshot(path, args[1]), exe.snapshot(path, args[2]))
            return [('ret', path, UNIT)]

    # ---------------------------------------------------------------- sub-routine events
    def routine_events(self, names):
        """contracts that turn calls to other routines into events with their cursor effect"""
        env = self
        T = []

        def consume_block(exe, path, name, args, opts):
            level = env.level_of(exe, path, args[0])
            pos, pending = env.cpos(path, level)
            if pending is None:
                exe.obligation(path, 'panic:%s called without a pending block' % name, z3.BoolVal(True), {})
                return [('diverge', path)]
            alive = exe.obligation(path, 'panic:%s called after a non-block token' % name,
                                   z3.Not(is_kind(level, pending, *OPENERS)), {})
            if not alive or not exe.feasible(path):
                return [('diverge', path)]
            env.set_cpos(path, level, pos, None)
            ss = exe.deref_all(path, args[1])
            lay = layout()
            low = ss.fields.get(lay.S['using_low_priority']) if isinstance(ss, Agg) else None
            path.event('recurse', name, level, pending, opts, low, ss.fields.get(lay.S['cur_at_rule_stacks']) if isinstance(ss, Agg) else None)
            env.havoc(exe, path, args[1])
            return [('ret', path, UNIT)]
        if 'convert_rpx_in_block' in names:
            def c1(exe, path, callee, args, dst_ty):
                o = args[2]
                if isinstance(o, Agg) and o.variant == 'Some':
                    opts = ('in_calc', o.fields[0].fields[0])
                elif isinstance(o, Agg) and o.variant == 'None':
                    opts = None
                else:
                    raise MirUnsupported('convert options %r' % (o,))
                return consume_block(exe, path, 'convert_rpx_in_block', args, opts)
            T.append((r'^convert_rpx_in_block$', c1))
        if 'convert_class_names_and_rpx_in_block' in names:
            T.append((r'^convert_class_names_and_rpx_in_block$',
                      lambda exe, path, callee, args, dst_ty: consume_block(exe, path, 'convert_class_names_and_rpx_in_block', args, None)))
        if 'parse_rules' in names:
            def c3(exe, path, callee, args, dst_ty):
                level = env.level_of(exe, path, args[0])
                pos, pending = env.cpos(path, level)
                # consumes the rest of the level
                ss = exe.deref_all(path, args[1])
                lay = layout()
                path.event('recurse', 'parse_rules', level, pos, None, ss.fields.get(lay.S['using_low_priority']) if isinstance(ss, Agg) else None,
                           ss.fields.get(lay.S['cur_at_rule_stacks']) if isinstance(ss, Agg) else None)
                env.havoc(exe, path, args[1])
                env.set_cpos(path, level, env.lmax + 1, None)
                path.pc.append(level_len(level) <= env.lmax)
                return [('ret', path, UNIT)]
            T.append((r'^parse_rules$', c3))
        if 'write_maybe_class_name' in names:
            def c4(exe, path, callee, args, dst_ty):
                # (input, ss, token, [source spelling,] in_class): the spelling argument is optional (a signature without it is a legal refactoring)
                src = exe.snapshot(path, args[3]) if len(args) >= 5 else None
                path.event('class_name', exe.snapshot(path, args[2]), src, args[-1])
                env.havoc(exe, path, args[1])
                return [('ret', path, UNIT)]
            T.append((r'^write_maybe_class_name$', c4))
        if 'write_maybe_rpx_dimension' in names:
            def c5(exe, path, callee, args, dst_ty):
                path.event('rpx_dimension', exe.snapshot(path, args[2]), args[3], args[4], args[5], exe.snapshot(path, args[6]))
                env.havoc(exe, path, args[1])
                return [('ret', path, UNIT)]
            T.append((r'^write_maybe_rpx_dimension$', c5))
        return T

    # ---------------------------------------------------------------- harness
    def new_path(self, exe, options=None):
        p = Path()
        p.env['cpos'] = {}
        p.env['cursor'] = 0
        root = self.ensure_level(p, 'r')
        p.store[('heap', 'input')] = Agg('StepParser', None, {0: root})
        o = options or {}

        def opt_string(name):
            v = o.get(name, 'sym')
            if v is None:
                return NONE
            if v == 'sym':
                b = z3.Bool('opt_%s_some' % name)
                s = z3.String('opt_' + name)
                return SymEnum('opt_' + name, 'Option', z3.If(b, z3.IntVal(1), z3.IntVal(0)), lambda var, j, _s=s: _s)
            return some(z3.StringVal(v))
        conv = o.get('convert_host', 'sym')
        lay = layout()
        ofields = {}
        for i, (fname, fty) in enumerate(lay.opts):
            if fname in ('class_prefix', 'class_prefix_sign', 'import_sign', 'host_is'):
                ofields[i] = opt_string(fname)
            elif fname == 'rpx_ratio':
                ofields[i] = z3.Real('opt_rpx_ratio')
            elif fname == 'convert_host':
                ofields[i] = z3.Bool('opt_convert_host') if conv == 'sym' else z3.BoolVal(bool(conv))
            else:
                ofields[i] = self.fresh_by_type(exe, p, fty, 'opt_' + fname)
        options_v = Agg('StyleSheetOptions', None, ofields)
        stacks = o.get('at_rule_stack', 0)
        sfields = {}
        for i, (fname, fty) in enumerate(lay.ss):
            if fname == 'options':
                sfields[i] = options_v
            elif fname == 'path':
                sfields[i] = z3.String('ss_path')
            elif fname == 'normal_output':
                sfields[i] = Agg('StyleSheetOutput', None, {0: 'normal'})
            elif fname == 'low_priority_output':
                sfields[i] = Agg('StyleSheetOutput', None, {0: 'low'})
            elif fname == 'using_low_priority':
                sfields[i] = z3.BoolVal(False)
            elif fname == 'warnings':
                sfields[i] = Agg('Vec', None, {})
            elif fname == 'cur_at_rule_stacks':
                sfields[i] = Agg('Vec', None, {j: z3.String('at_rule_%d' % j) for j in range(stacks)})
            else:
                # a field this harness does not know: arbitrary value of its type
                sfields[i] = self.fresh_by_type(exe, p, fty, 'ss_' + fname)
        p.store[('heap', 'ss')] = Agg('StyleSheetTransformer', None, sfields)
        p.env['ss_entry'] = tuple(sorted((k, _vk(v)) for k, v in sfields.items()))
        return p

    def fresh_by_type(self, exe, p, fty, hint):
        fty = fty.strip()
        if fty == 'bool':
            return z3.Bool(hint)
        if fty in ('usize', 'u32', 'u64', 'i32', 'i64', 'u8', 'u16', 'isize'):
            return exe.fresh(p, fty, hint)
        if fty in ('f32', 'f64'):
            return z3.Real(hint)
        if fty == 'String' or fty == '&str':
            return z3.String(hint)
        if fty.startswith('Option<String>'):
            b = z3.Bool(hint + '_some')
            sv = z3.String(hint)
            return SymEnum(hint, 'Option', z3.If(b, z3.IntVal(1), z3.IntVal(0)), lambda var, j, _s=sv: _s)
        if fty.startswith('Option<bool>'):
            b = z3.Bool(hint + '_some')
            bv = z3.Bool(hint + '_v')
            return SymEnum(hint, 'Option', z3.If(b, z3.IntVal(1), z3.IntVal(0)), lambda var, j, _s=bv: _s)
        if fty.startswith('Vec<'):
            return Agg('Vec', None, {})
        return Opaque(fty, {'structural': True, 'hint': hint})

    # ---- modifies sets (assume-guarantee across routines)
    HAVOC = ()       # field indices of StyleSheetTransformer that a callee may leave changed (established by modified_fields)

    def havoc(self, exe, path, ss_ref):
        if not self.HAVOC:
            return
        lay = layout()
        ss = exe.deref_all(path, ss_ref)
        n = path.env.get('havoc_n', 0) + 1
        path.env['havoc_n'] = n
        for i in self.HAVOC:
            fname, fty = lay.ss[i]
            ss = ss.with_field(i, self.fresh_by_type(exe, path, fty, 'havoc%d_%s' % (n, fname)))
        ref = ss_ref
        while isinstance(exe.load(path, ref), Ref):
            ref = exe.load(path, ref)
        exe.store_at(path, ref.key, ref.proj, ss)

    @staticmethod
    def modified_fields(paths):
        """fields of the transformer whose value at return can differ from the value at entry (outputs / warnings excluded)"""
        lay = layout()
        skip = {lay.S['normal_output'], lay.S['low_priority_output'], lay.S['warnings']}
        mod = set()
        for q in paths:
            if q.status != 'returned' or 'ss_entry' not in q.env:
                continue
            entry = dict(q.env['ss_entry'])
            ss = q.store.get(('heap', 'ss'))
            if not isinstance(ss, Agg):
                continue
            for k, v in ss.fields.items():
                if k in skip:
                    continue
                if entry.get(k) != _vk(v):
                    mod.add(k)
        return mod

    def executor(self, mod, event_names=(), lmax=None, max_visits=None, extra=()):
        exe = Executor(mod, list(extra) + self.routine_events(event_names) + self.table + C.TABLE, enums=SC_ENUMS,
                       max_visits=max_visits or (self.lmax * 3 + 6), timeout_ms=20000)
        exe.merge = False
        return exe


def describe_token(model, level, i):
    """concrete rendering of token (level, i) under a model (for counterexample forests)"""
    k = model.eval(tok_kind(level, i), model_completion=True).as_long()
    name = [n for n, v in TK.items() if v == k]
    return name[0] if name else '?%d' % k
