"""MIR text (rustc -Zunpretty=mir) -> small AST.

Only the textual constructs that occur in the functions engine M executes are understood; anything
else raises MirUnsupported, which the driver reports as *inconclusive* (exit 2), never as a pass.
"""
import re


class MirUnsupported(Exception):
    pass


# ------------------------------------------------------------------ low-level scanning helpers
OPEN = {'(': ')', '[': ']', '{': '}', '<': '>'}
CLOSE = {v: k for k, v in OPEN.items()}


def skip_string(s, i):
    """s[i] == '"'; return index just after the closing quote."""
    assert s[i] == '"'
    i += 1
    while s[i] != '"':
        if s[i] == '\\':
            i += 1
        i += 1
    return i + 1


def skip_char_lit(s, i):
    """s[i] == "'" and it *is* a char literal (not a lifetime); return index after closing quote."""
    j = i + 1
    if s[j] == '\\':
        j += 2
        while s[j] != "'":
            j += 1
        return j + 1
    return j + 2


def is_char_lit(s, i):
    # 'x' or '\..' ; lifetimes are 'ident without closing quote right after one char
    if s[i] != "'":
        return False
    if i + 1 < len(s) and s[i + 1] == '\\':
        return True
    return i + 2 < len(s) and s[i + 2] == "'"


def match_close(s, i):
    """s[i] is an opening bracket of ( [ { ; return the index of the matching close.
    '<' '>' are not matched (they also occur as operators / in '->')."""
    depth = 0
    n = len(s)
    while i < n:
        c = s[i]
        if c == '"':
            i = skip_string(s, i)
            continue
        if c == "'" and is_char_lit(s, i):
            i = skip_char_lit(s, i)
            continue
        if c in '([{':
            depth += 1
        elif c in ')]}':
            depth -= 1
            if depth == 0:
                return i
        i += 1
    raise MirUnsupported('unbalanced: ' + s[:80])


def split_top(s, sep=','):
    """split at top-level separators (outside () [] {} <> and literals)."""
    out, depth, i, start, n = [], 0, 0, 0, len(s)
    adepth = 0
    while i < n:
        c = s[i]
        if c == '"':
            i = skip_string(s, i)
            continue
        if c == "'" and is_char_lit(s, i):
            i = skip_char_lit(s, i)
            continue
        if c in '([{':
            depth += 1
        elif c in ')]}':
            depth -= 1
        elif c == '<':
            adepth += 1
        elif c == '>' and adepth > 0 and not (i > 0 and s[i - 1] in '-='):
            adepth -= 1
        elif c == sep and depth == 0 and adepth == 0:
            out.append(s[start:i].strip())
            start = i + 1
        i += 1
    last = s[start:].strip()
    if last:
        out.append(last)
    return out


# ------------------------------------------------------------------ AST
class Place:
    __slots__ = ('local', 'proj', 'ty')

    def __init__(self, local, proj=(), ty=None):
        self.local = local          # '_5'
        self.proj = tuple(proj)     # steps: ('deref',) ('field', i) ('downcast', 'Some') ('index', '_7') ('cindex', i)
        self.ty = ty                # type annotation of the outermost field projection, if any

    def __repr__(self):
        return 'P(%s%s)' % (self.local, ''.join('/' + ':'.join(map(str, p)) for p in self.proj))


class Const:
    __slots__ = ('kind', 'value', 'text')

    def __init__(self, kind, value, text):
        self.kind, self.value, self.text = kind, value, text   # kind: int float bool char str bytes unit named

    def __repr__(self):
        return 'C(%s:%r)' % (self.kind, self.value)


class Operand:
    __slots__ = ('mode', 'place', 'const')

    def __init__(self, mode, place=None, const=None):
        self.mode, self.place, self.const = mode, place, const

    def __repr__(self):
        return repr(self.place if self.place is not None else self.const)


def parse_place(s):
    s = s.strip()
    p, i = _place(s, 0)
    if s[i:].strip():
        raise MirUnsupported('place tail: ' + s)
    return p


def _place(s, i):
    # returns (Place, next index)
    if s[i] == '(':
        if s[i + 1] == '*':
            inner, j = _place(s, i + 2)
            assert s[j] == ')', s
            base, j = Place(inner.local, inner.proj + (('deref',),)), j + 1
        else:
            inner, j = _place(s, i + 1)
            if s.startswith(' as ', j):
                k = s.index(')', j)
                var = s[j + 4:k]
                base, j = Place(inner.local, inner.proj + (('downcast', var),)), k + 1
            elif s[j] == '.':
                m = re.match(r'\.(\d+): ', s[j:])
                if not m:
                    raise MirUnsupported('field proj: ' + s)
                # type runs to the paren matching s[i]
                k = match_close(s, i)
                base, j = Place(inner.local, inner.proj + (('field', int(m.group(1))),), s[j + m.end():k].strip()), k + 1
            else:
                raise MirUnsupported('place: ' + s)
    else:
        m = re.match(r'_\d+', s[i:])
        if not m:
            raise MirUnsupported('place: ' + s[i:i + 60])
        base, j = Place(m.group(0)), i + m.end()
    # postfix index projections
    while j < len(s) and s[j] == '[':
        k = match_close(s, j)
        inner = s[j + 1:k]
        if re.fullmatch(r'_\d+', inner):
            base = Place(base.local, base.proj + (('index', inner),))
        else:
            m = re.fullmatch(r'(-?\d+) of (\d+)', inner)
            if m:
                base = Place(base.local, base.proj + (('cindex', int(m.group(1))),))
            else:
                raise MirUnsupported('index proj: ' + s)
        j = k + 1
    return base, j


_ESC = {'n': '\n', 'r': '\r', 't': '\t', '\\': '\\', '0': '\0', "'": "'", '"': '"'}


def unescape(body):
    out, i = [], 0
    while i < len(body):
        c = body[i]
        if c == '\\':
            d = body[i + 1]
            if d == 'u':
                k = body.index('}', i)
                out.append(chr(int(body[i + 3:k], 16)))
                i = k + 1
                continue
            if d == 'x':
                out.append(chr(int(body[i + 2:i + 4], 16)))
                i += 4
                continue
            out.append(_ESC[d])
            i += 2
            continue
        out.append(c)
        i += 1
    return ''.join(out)


INT_TYS = ('usize', 'isize', 'u8', 'u16', 'u32', 'u64', 'u128', 'i8', 'i16', 'i32', 'i64', 'i128')


def parse_const(t):
    t = t.strip()
    if t in ('true', 'false'):
        return Const('bool', t == 'true', t)
    if t == '()':
        return Const('unit', None, t)
    m = re.fullmatch(r'(-?\d+)_(%s)' % '|'.join(INT_TYS), t)
    if m:
        return Const('int', (int(m.group(1)), m.group(2)), t)
    m = re.fullmatch(r'(-?[0-9.eE+\-]+|-?inf|NaN)(f32|f64)', t)
    if m:
        return Const('float', (m.group(1), m.group(2)), t)
    if t.startswith("'") and t.endswith("'") and len(t) >= 3:
        return Const('char', ord(unescape(t[1:-1])), t)
    if t.startswith('"'):
        return Const('str', unescape(t[1:-1]), t)
    if t.startswith('b"'):
        return Const('bytes', unescape(t[2:-1]), t)
    if t.startswith('ZeroSized: '):
        return Const('zst', t[len('ZeroSized: '):], t)
    return Const('named', t, t)


def parse_operand(t):
    t = t.strip()
    if t.startswith('no_retag '):
        t = t[len('no_retag '):]
    for mode in ('copy', 'move'):
        if t.startswith(mode + ' '):
            return Operand(mode, place=parse_place(t[len(mode) + 1:]))
    if t.startswith('const '):
        return Operand('const', const=parse_const(t[6:]))
    if re.match(r'[A-Za-z_<{]', t):
        return Operand('const', const=Const('named', t, t))     # fn item / closure value printed bare
    raise MirUnsupported('operand: ' + t)


BINOPS = ('Add', 'Sub', 'Mul', 'Div', 'Rem', 'BitXor', 'BitAnd', 'BitOr', 'Shl', 'Shr', 'Eq', 'Lt', 'Le', 'Ne', 'Ge', 'Gt',
          'AddWithOverflow', 'SubWithOverflow', 'MulWithOverflow', 'Cmp', 'Offset', 'AddUnchecked', 'SubUnchecked',
          'MulUnchecked', 'ShlUnchecked', 'ShrUnchecked')
UNOPS = ('Not', 'Neg', 'PtrMetadata')


class Rvalue:
    __slots__ = ('kind', 'a', 'b', 'c')

    def __init__(self, kind, a=None, b=None, c=None):
        self.kind, self.a, self.b, self.c = kind, a, b, c

    def __repr__(self):
        return 'R(%s %r %r %r)' % (self.kind, self.a, self.b, self.c)


def is_operand_start(t):
    return t.startswith(('copy ', 'move ', 'const ', 'no_retag '))


def parse_rvalue(t):
    t = t.strip()
    m = re.match(r'&(raw (const|mut) )?(mut |fake shallow |fake )?', t)
    if t.startswith('&') and not t.startswith('&&'):
        return Rvalue('ref', parse_place(t[m.end():]), 'mut' in (m.group(3) or '') or 'mut' in (m.group(2) or ''))
    m = re.match(r'([A-Za-z]+)\(', t)
    if m and t.endswith(')') and match_close(t, m.end() - 1) == len(t) - 1:
        name, inner = m.group(1), t[m.end():-1]
        if name in BINOPS:
            a, b = split_top(inner)
            return Rvalue('binop', name, parse_operand(a), parse_operand(b))
        if name in UNOPS:
            return Rvalue('unop', name, parse_operand(inner))
        if name == 'discriminant':
            return Rvalue('discriminant', parse_place(inner))
        if name == 'Len':
            return Rvalue('len', parse_place(inner))
        if name == 'deref_copy' or name == 'CopyForDeref':
            return Rvalue('use', Operand('copy', place=parse_place(inner)))
    if t.startswith('deref_copy '):
        return Rvalue('use', Operand('copy', place=parse_place(t[len('deref_copy '):])))
    if is_operand_start(t):
        # operand, or cast "OP as T (Kind)"
        m = re.search(r' as (.*) \(([A-Za-z]+(\(.*\))?)\)$', t)
        if m and not t.startswith('const "'):
            head = t[:m.start()]
            try:
                op = parse_operand(head)
                return Rvalue('cast', op, m.group(1), m.group(2))
            except MirUnsupported:
                pass
        return Rvalue('use', parse_operand(t))
    if t.startswith('('):
        k = match_close(t, 0)
        if k == len(t) - 1:
            return Rvalue('aggregate', ('tuple', None), [parse_operand(x) for x in split_top(t[1:-1])])
    if t.startswith('['):
        k = match_close(t, 0)
        if k == len(t) - 1:
            inner = t[1:-1]
            parts = split_top(inner, ';')
            if len(parts) == 2:
                return Rvalue('repeat', parse_operand(parts[0]), parts[1])
            return Rvalue('aggregate', ('array', None), [parse_operand(x) for x in split_top(inner)])
    if t.startswith('{closure@') or t.startswith('{coroutine@'):
        k = match_close(t, 0)
        name = t[:k + 1]
        rest = t[k + 1:].strip()
        ops = []
        if rest.startswith('{'):
            for f in split_top(rest[1:-1]):
                ops.append(parse_operand(f.split(': ', 1)[1]))
        return Rvalue('aggregate', ('closure', name), ops)
    # ADT aggregate: Path { f: op, .. } | Path(op, ..) | Path   (Path may hold generics with parens)
    if t.endswith('}'):
        # find the top-level ' { '
        depth = adepth = 0
        for i, c in enumerate(t):
            if c in '([':
                depth += 1
            elif c in ')]':
                depth -= 1
            elif c == '<':
                adepth += 1
            elif c == '>' and adepth and t[i - 1] not in '-=':
                adepth -= 1
            elif c == '{' and depth == 0 and adepth == 0 and i > 0 and t[i - 1] == ' ':
                name = t[:i].strip()
                fields = split_top(t[i + 1:-1])
                ops = [parse_operand(f.split(': ', 1)[1]) for f in fields]
                return Rvalue('aggregate', ('adt', name), ops)
    if t.endswith(')'):
        # last balanced paren group
        depth = 0
        for i in range(len(t) - 1, -1, -1):
            if t[i] == ')':
                depth += 1
            elif t[i] == '(':
                depth -= 1
                if depth == 0:
                    name = t[:i]
                    ops = [parse_operand(x) for x in split_top(t[i + 1:-1])]
                    return Rvalue('aggregate', ('adt', name), ops)
    if re.fullmatch(r'[A-Za-z_][\w:<>\', &\[\]\(\)\*\-=;+]*', t):
        return Rvalue('aggregate', ('adt', t), [])
    raise MirUnsupported('rvalue: ' + t)


class Stmt:
    __slots__ = ('kind', 'place', 'rvalue', 'text', 'extra')

    def __init__(self, kind, place=None, rvalue=None, text='', extra=None):
        self.kind, self.place, self.rvalue, self.text, self.extra = kind, place, rvalue, text, extra


class Term:
    __slots__ = ('kind', 'text', 'data')

    def __init__(self, kind, text, **data):
        self.kind, self.text, self.data = kind, text, data


def _targets(t):
    """'[return: bb1, unwind: bb2]' / '[success: bb3, unwind continue]' / 'unwind continue' -> dict"""
    d = {}
    t = t.strip()
    if t.startswith('['):
        t = t[1:-1]
    for part in split_top(t):
        m = re.match(r'(\w+): (bb\d+)', part)
        if m:
            d[m.group(1)] = m.group(2)
    return d


def parse_terminator(t):
    if t.startswith('goto -> '):
        return Term('goto', t, target=t[8:].strip())
    if t == 'return':
        return Term('return', t)
    if t == 'unreachable':
        return Term('unreachable', t)
    if t.startswith('resume') or t.startswith('terminate') or t == 'abort':
        return Term('resume', t)
    if t.startswith('switchInt('):
        k = match_close(t, len('switchInt'))
        op = parse_operand(t[len('switchInt('):k])
        arms = []
        rest = t[k + 1:].strip()
        assert rest.startswith('-> ['), t
        for a in split_top(rest[4:-1]):
            kk, b = a.split(': ')
            arms.append((None if kk == 'otherwise' else int(kk), b))
        return Term('switch', t, op=op, arms=arms)
    if t.startswith('drop('):
        k = match_close(t, 4)
        return Term('drop', t, place=parse_place(t[5:k]), targets=_targets(t[k + 1:].replace('->', '', 1)))
    if t.startswith('assert('):
        k = match_close(t, 6)
        inner = split_top(t[7:k])
        cond = inner[0]
        neg = cond.startswith('!')
        if neg:
            cond = cond[1:]
        return Term('assert', t, neg=neg, cond=parse_operand(cond), msg=inner[1] if len(inner) > 1 else '',
                    args=inner[2:], targets=_targets(t[k + 1:].replace('->', '', 1)))
    if t.startswith(('falseEdge', 'falseUnwind', 'yield', 'inlineasm', 'tailcall')):
        raise MirUnsupported('terminator: ' + t)
    return None


def split_trailing_group(body):
    """'head(args)' -> (head, args) where (args) is the top-level paren group that ends the text; else (body, None)"""
    i, n = 0, len(body)
    while i < n:
        c = body[i]
        if c == '"':
            i = skip_string(body, i)
            continue
        if c in '([{':
            j = match_close(body, i)
            if c == '(' and j == n - 1:
                return body[:i], body[i + 1:-1]
            i = j + 1
            continue
        i += 1
    return body, None


def split_assign(t):
    """split 'LHS = RHS' at the first top-level ' = ' (None if there is none)."""
    depth = 0
    i = 0
    while i < len(t):
        c = t[i]
        if c == '"':
            return None
        if c in '([{':
            depth += 1
        elif c in ')]}':
            depth -= 1
        elif c == ' ' and depth == 0 and t.startswith(' = ', i):
            return t[:i], t[i + 3:]
        i += 1
    return None


def parse_call(t):
    """'_5 = callee(args) -> [return: bb1, unwind continue]'  or  'callee(args) -> unwind continue'"""
    idx = t.rfind(') -> ')
    if idx < 0:
        return None
    head, tail = t[:idx + 1], t[idx + 5:]
    if not (tail.startswith('[') or tail.startswith('unwind') or re.fullmatch(r'bb\d+', tail.strip())):
        return None
    dst = None
    body = head
    sp = split_assign(head)
    if sp is not None:
        try:
            dst = parse_place(sp[0])
            body = sp[1]
        except MirUnsupported:
            dst = None
    # the argument list is the top-level paren group that ends the body
    i, n = 0, len(body)
    while i < n:
        c = body[i]
        if c == '"':
            i = skip_string(body, i)
            continue
        if c in '([{':
            j = match_close(body, i)
            if c == '(' and j == n - 1:
                callee = body[:i].strip()
                args = [parse_operand(x) for x in split_top(body[i + 1:-1])]
                return Term('call', t, dst=dst, callee=callee, args=args, targets=_targets(tail))
            i = j + 1
            continue
        i += 1
    return None


class Function:
    def __init__(self, name, header):
        self.name, self.header = name, header
        self.params = []          # ['_1', ...]
        self.ret_type = None
        self.local_types = {}     # '_5' -> type text
        self.debug = {}           # source name -> local / text
        self.blocks = {}          # 'bb0' -> (stmts, term)
        self.cleanup = set()
        self.text_lines = 0


_ASSIGN_RE = re.compile(r'^((?:\(.*\)|_\d+)(?:\[[^\]]*\])*) = (.*)$')


def parse_statement(t):
    if t.startswith(('StorageLive(', 'StorageDead(', 'nop', 'FakeRead(', 'PlaceMention(', 'AscribeUserType(', 'Coverage',
                     'ConstEvalCounter', 'Retag(', 'BackwardIncompatibleDropHint')):
        return Stmt('nop', text=t)
    m = re.match(r'discriminant\((.*)\) = (\d+)$', t)
    if m:
        return Stmt('setdiscr', place=parse_place(m.group(1)), extra=int(m.group(2)), text=t)
    if t.startswith('Deinit('):
        return Stmt('nop', text=t)
    if t.startswith('assume('):
        return Stmt('nop', text=t)
    sp = split_assign(t)
    if sp is not None:
        return Stmt('assign', place=parse_place(sp[0]), rvalue=parse_rvalue(sp[1]), text=t)
    raise MirUnsupported('statement: ' + t)


class Module:
    """All functions / promoted consts / const items of one MIR dump (parsed lazily per function)."""

    def __init__(self, path):
        self.text = open(path).read()
        self.index = {}     # name -> (start, end)
        self.headers = {}
        for m in re.finditer(r'^(fn|const|static|static mut) (.*?)(\(| =|: )', self.text, re.M):
            pass
        self._scan()
        self.cache = {}

    def _scan(self):
        t = self.text
        for m in re.finditer(r'^(?:fn|const|static) .*\{$', t, re.M):
            start = m.start()
            if t[max(0, start - 16):start].rstrip().endswith('// MIR FOR CTFE'):
                continue        # const-eval copy of a `const fn`; the runtime copy precedes it
            end = t.find('\n}\n', start)
            if end < 0:
                end = len(t)
            header = m.group(0)
            if header.startswith('fn '):
                # name = up to the parameter list "(_1: " or "()"
                mm = re.match(r'fn (.*?)\((_1: |\) -> )', header)
                name = mm.group(1) if mm else header[3:header.index('(')]
            else:
                mm = re.match(r'(?:const|static) (?:mut )?(.*?::promoted\[\d+\]): ', header) or \
                    re.match(r'(?:const|static) (?:mut )?(.*?): ', header)
                name = mm.group(1)
            self.index.setdefault(name, []).append((start, end + 3))
            self.headers[name] = header

    def names(self, pattern):
        rx = re.compile(pattern)
        return [n for n in self.index if rx.search(n)]

    def find(self, pattern):
        ns = self.names(pattern)
        if len(ns) != 1:
            raise MirUnsupported('function lookup %r: %d matches %s' % (pattern, len(ns), ns[:5]))
        return self.get(ns[0])

    def has(self, name):
        return name in self.index

    def get(self, name):
        if name in self.cache:
            return self.cache[name]
        spans = self.index[name]
        if len(spans) != 1:
            raise MirUnsupported('ambiguous item name: ' + name)
        s, e = spans[0]
        f = self._parse_fn(name, self.text[s:e])
        self.cache[name] = f
        return f

    def _parse_fn(self, name, text):
        lines = text.split('\n')
        f = Function(name, lines[0])
        f.text_lines = len(lines)
        hdr = lines[0]
        if hdr.startswith('fn '):
            # params
            i = hdr.index('(', 3 + len(name))
            k = match_close(hdr, i)
            for p in split_top(hdr[i + 1:k]):
                m = re.match(r'(_\d+): (.*)$', p)
                if m:
                    f.params.append(m.group(1))
                    f.local_types[m.group(1)] = m.group(2)
            m = re.search(r'-> (.*) \{$', hdr[k:])
            f.ret_type = m.group(1) if m else '()'
        else:
            m = re.match(r'(?:const|static) .*?: (.*) = \{$', hdr)
            f.ret_type = m.group(1) if m else '?'
        cur = None
        for ln in lines[1:]:
            s = ln.strip()
            if not s:
                continue
            m = re.match(r'(bb\d+)( \(cleanup\))?: \{$', s)
            if m:
                cur = m.group(1)
                f.blocks[cur] = ([], None)
                if m.group(2):
                    f.cleanup.add(cur)
                continue
            if cur is None:
                m = re.match(r'let (mut )?(_\d+): (.*);$', s)
                if m:
                    f.local_types[m.group(2)] = m.group(3)
                    continue
                m = re.match(r'debug (\S+) => (.*);$', s)
                if m:
                    f.debug[m.group(1)] = m.group(2)
                continue
            if s == '}':
                cur = None
                continue
            if cur in f.cleanup:
                continue   # cleanup blocks are never executed (no unwinding is followed past its origin)
            s = s.rstrip(';')
            stmts, term = f.blocks[cur]
            t = parse_terminator(s)
            if t is None:
                t = parse_call(s)
            if t is not None:
                f.blocks[cur] = (stmts, t)
            else:
                stmts.append(parse_statement(s))
        f.local_types.setdefault('_0', f.ret_type)
        return f
