"""C06 - incremental update is sound: marked changes are never missed (per binding site, assume-guarantee).

Engine J: the emitted code is executed symbolically in update mode (C = false, U and all scope trees symbolic).  For
every binding site the solver decides, for ALL update trees U, scope trees, data and dynamic keys:
    (some dependency chain of the site's expression is touched by the tree)  =>  (the site's guard is truthy)
where `touched` walks the tree like the runtime marks it (meets `true`, or ends on a marked node).  Over-approximation
is allowed.  A `sat` is confirmed in node: create with D0, update with D1 and the witness tree, compare with a fresh
creation with D1.
"""
import json
import random
import time
import z3

from lib import common
from lib.common import Result, log
from jssym import model as M, driver, guards
from jssym.model import L
from jssym.jsparse import JsUnsupported
from jssym.protocol import Runtime
from jssym.interp import V, UNDEFINED, NULL, UNDEF, is_v, truthy_t, get, JObj, JArr, CondVal, ObjLit

A, B_, C_, Dd = ('id', 'a'), ('id', 'b'), ('id', 'c'), ('id', 'd')


def exprs(tier, scope_names=()):
    """binding expressions whose dependencies differ in shape"""
    x, y, z = A, B_, C_
    out = [x, ('mem', x, 'k'), ('mem', ('mem', x, 'k'), 'm'), ('idx', x, y), ('idx', ('mem', x, 'k'), ('mem', y, 'j')),
           ('bin', '+', x, y), ('bin', '&&', x, ('mem', y, 'k')), ('bin', '??', ('mem', x, 'k'), y), ('cond', x, ('mem', y, 'k'), z),
           ('un', '!', ('mem', x, 'k')), ('call', ('mem', x, 'f'), [y]), ('call', x, [('mem', y, 'k'), z]),
           ('arr', [x, None, ('mem', y, 'k')]), ('arr', [x, ('spread', y)]), ('obj', [('kv', 'p', x), ('short', 'b')]),
           ('obj', [('spread', x), ('kv', 'q', ('mem', y, 'k'))]), ('bin', '+', ('idx', x, y), ('idx', x, z)),
           ('idx', x, ('idx', y, z)), ('mem', ('call', x, [y]), 'k'), ('bin', '===', ('mem', x, 'k'), L('int', '1', 1)),
           ('bin', '+', ('mem', ('idx', x, y), 'k'), ('mem', ('idx', x, z), 'k')), ('bin', '-', ('idx', ('mem', x, 'k'), y), ('idx', ('mem', x, 'k'), z))]
    if tier == 'thorough':
        more = []
        for op in M.BIN_OPS:
            more.append(('bin', op, ('mem', x, 'k'), ('idx', y, z)))
        for op in M.UN_OPS:
            more.append(('un', op, ('idx', x, ('mem', y, 'k'))))
        out += more
    for s in scope_names:
        sv = ('id', s)
        out += [sv, ('mem', sv, 'k'), ('idx', x, sv), ('idx', sv, y), ('bin', '+', ('mem', sv, 'k'), ('mem', x, 'k')), ('idx', ('mem', sv, 'k'), ('mem', sv, 'j'))]
    return out


def esc(s):
    return s.replace('&', '&amp;').replace('"', '&quot;').replace('<', '&lt;')


SITE_KINDS = ['attr', 'text', 'class', 'style', 'data', 'mark', 'if', 'for', 'slotname', 'tmpldata', 'model']


def site_wxml(kind, e):
    t = esc(M.pr(e))
    if kind == 'attr':
        return '<view a="{{ %s }}"/>' % t
    if kind == 'text':
        return '<view>t{{ %s }}</view>' % t
    if kind == 'class':
        return '<view class="c {{ %s }}"/>' % t
    if kind == 'style':
        return '<view style="s:{{ %s }}"/>' % t
    if kind == 'data':
        return '<view data-x="{{ %s }}"/>' % t
    if kind == 'mark':
        return '<view mark:m="{{ %s }}"/>' % t
    if kind == 'if':
        return '<view wx:if="{{ %s }}">x</view>' % t
    if kind == 'for':
        return '<view wx:for="{{ %s }}" wx:for-item="it9" wx:for-index="ix9" q9="{{ it9 }}">y</view>' % t
    if kind == 'slotname':
        return '<slot name="{{ %s }}"/>' % t
    if kind == 'tmpldata':
        return '<template is="t9" data="{{ {p9: %s} }}"/>' % t
    if kind == 'model':
        return '<input model:value="{{ %s }}"/>' % t
    raise ValueError(kind)


def programs(tier, seed):
    progs = []
    rnd = random.Random(seed)
    # no scope
    for e in exprs(tier):
        kinds = SITE_KINDS if tier == 'thorough' else ['attr', 'text'] + rnd.sample(SITE_KINDS[2:], 3)
        for k in kinds:
            if k == 'model' and guards.chain_of(e) is None:
                continue
            progs.append({'wxml': site_wxml(k, e) + '<template name="t9"><view b="{{p9}}" c="{{p9.k}}"/></template>', 'kind': k, 'expr': e, 'scopes': []})
    # inside one wx:for (item / index visible), and nested
    for e in exprs(tier, ('item', 'index')):
        for k in (['attr', 'text', 'if', 'for', 'tmpldata'] if tier == 'thorough' else ['attr', rnd.choice(['text', 'if', 'for', 'class'])]):
            progs.append({'wxml': '<block wx:for="{{list}}">' + site_wxml(k, e) + '</block><template name="t9"><view b="{{p9}}" c="{{p9.k}}"/></template>',
                          'kind': k, 'expr': e, 'scopes': ['for']})
    for e in exprs('quick', ('item', 'j2'))[:26:2] + exprs('quick', ('item', 'j2'))[20:]:
        progs.append({'wxml': '<block wx:for="{{list}}"><block wx:for="{{item.sub}}" wx:for-item="j2" wx:for-index="k2">' + site_wxml('attr', e) + '</block></block>',
                      'kind': 'attr', 'expr': e, 'scopes': ['for', 'for2']})
    # loops over lists that are not plain data paths (the item still gets its own update tree from the runtime)
    X9, Y9 = ('id', 'x9'), ('id', 'y9')
    for le in [('bin', '||', ('id', 'list'), ('arr', [])), ('bin', '&&', X9, ('id', 'list')), ('arr', [X9, Y9]), ('call', ('id', 'f9'), [X9]), ('cond', X9, ('id', 'list'), ('id', 'l2')),
               ('mem', ('call', ('id', 'f9'), []), 'k'), ('bin', '??', ('id', 'list'), Y9)]:
        for e in [('mem', ('id', 'item'), 'k'), ('id', 'item'), ('bin', '+', ('id', 'index'), ('mem', ('id', 'item'), 'k'))]:
            for k in ('attr', 'text'):
                progs.append({'wxml': '<block wx:for="{{ %s }}">%s</block><template name="t9"><view b="{{p9}}" c="{{p9.k}}"/></template>' % (esc(M.pr(le)), site_wxml(k, e)),
                              'kind': k, 'expr': e, 'scopes': ['for']})
    # placements: every site kind nested among static parents / siblings (depth 2 and 3), in component content, blocks and branches
    placements = ['<view bind:tap="h">%s</view>', '<view><text>static</text>%s<view class="s"/></view>',
                  '<view id="i"><view mark:m="1"><text class="del">t</text>%s</view><text>u</text></view>', '<comp>%s</comp>', '<block>%s</block>',
                  '<view wx:if="{{ w }}"><view>%s</view></view>', '<view>%s</view><view>static</view>']
    for k in SITE_KINDS:
        for e in (A, ('mem', A, 'k')):
            if k == 'model' and guards.chain_of(e) is None:
                continue
            for pl in (placements if tier == 'thorough' or k in ('data', 'attr', 'text') else rnd.sample(placements, 3)):
                progs.append({'wxml': pl % site_wxml(k, e) + '<template name="t9"><view b="{{p9}}" c="{{p9.k}}"/></template>', 'kind': k, 'expr': e, 'scopes': []})
    # slot values as scopes
    for e in [('id', 'sv'), ('mem', ('id', 'sv'), 'k'), ('bin', '+', ('id', 'sv'), A), ('idx', A, ('id', 'sv'))]:
        progs.append({'wxml': '<comp><view slot:sv a="{{ %s }}"/></comp>' % esc(M.pr(e)), 'kind': 'attr', 'expr': e, 'scopes': ['slot']})
    return progs


def main(tier):
    res = Result('C06', 'translation_validation')
    res.engines = ['J (symbolic execution of the emitted JavaScript in update mode + z3)']
    progs = programs(tier, res.seed)
    t0 = time.time()
    comp = driver.compile_batch([p['wxml'] for p in progs], want=('gen_object', 'runtime'))
    log('[C06] %d programs compiled in %.1fs' % (len(progs), time.time() - t0))
    classes = {}
    nsites = 0
    for p, c in zip(progs, comp):
        if 'panic' in c:
            res.violation({'engine': 'J', 'harness': 'compile', 'class': 'panic'}, 'compiler panics on %r: %s' % (p['wxml'], c['panic']), {'wxml': p['wxml']})
            continue
        if any(d['level'] >= 3 for d in c['diagnostics']):
            res.coverage.setdefault('rejected', []).append(p['wxml'])
            continue
        try:
            rt = Runtime('update')
            H = rt.load(c['gen_object'], c['runtime'])
            root = rt.run(H)
            obs = site_obligations(rt, root, p)
            rtc = Runtime('create')
            rootc = rtc.run(rtc.load(c['gen_object'], c['runtime']))
            ncreate = count_sites(rtc, rootc, p)
            if ncreate > count_sites(rt, root, p):
                # a site that creation renders is never reached in update mode (for no update tree at all)
                classes.setdefault((p['kind'], 'unreached'), []).append((p, c, '%s site is not re-evaluated in update mode' % p['kind'], None))
                res.query('sat')
                nsites += 1
                continue
        except JsUnsupported as e:
            res.inconc('%s: outside the translator: %s' % (p['wxml'], e))
            continue
        if not obs:
            res.inconc('%s: binding site not found in the protocol tree' % p['wxml'])
            continue
        for desc, hyp, guard, extra in obs:
            nsites += 1
            s = z3.Solver()
            s.set('timeout', 20000)
            for ax in rt.it.axioms + extra:
                s.add(ax)
            s.add(hyp)
            s.add(z3.Not(guard))
            t = time.time()
            r = s.check()
            res.solver_time += time.time() - t
            if r == z3.unsat:
                res.query('unsat')
                if nsites % 41 == 1:
                    res.sample({'wxml': p['wxml'], 'site': desc, 'verdict': 'unsat'})
            elif r == z3.unknown:
                res.query('unknown')
                res.inconc('%s [%s]: solver unknown' % (p['wxml'], desc))
            else:
                res.query('sat')
                classes.setdefault((p['kind'], classify(p['expr'])), []).append((p, c, desc, s.model()))
    for (kind, cls), items in sorted(classes.items(), key=str):
        p, c, desc, model = items[0]
        ok = confirm(res, p, c)
        res.coverage['disagreements_checked'] = res.coverage.get('disagreements_checked', 0) + 1
        if ok:
            res.violation({'engine': 'J', 'harness': 'guard', 'class': '%s/%s' % (kind, cls)},
                          'stale binding: %s [%s] keeps its old value after an update that marks a dependency (%s); %d programs of this class' % (p['wxml'], desc, ok, len(items)),
                          {'wxml': p['wxml'], 'scenario': ok})
        else:
            res.inconc('%s [%s]: guard obligation violated in the model but no stale value found in node' % (p['wxml'], desc))
    res.coverage.update({'programs': len(progs), 'sites': nsites, 'disagreements_checked': res.coverage.get('disagreements_checked', 0),
                         'explanation': 'per binding site: for all update trees / scope trees / data, touched(some dependency chain) => guard (z3, operators uninterpreted)'})
    res.bounds = {'expressions': '%d dependency shapes (chains, dynamic keys, calls, literals with spreads, conditionals)' % len(exprs(tier)),
                  'sites': SITE_KINDS, 'scopes': 'none / wx:for item+index / nested wx:for / slot value', 'tree_depth': 'unbounded (symbolic tree, get is uninterpreted)'}
    res.assumptions = ['update trees are well formed (node = undefined | true | object with a marked descendant) and cover the diff',
                       'the runtime hands down sound item / index / slot-value trees and re-invokes children (TypeScript, outside)',
                       'U is true or an object in update mode']
    res.outside = ['runtime list diffing and setData path construction', 'calls with side effects', 'sequences of updates (each site obligation is history independent)']
    return res.finish()


def count_sites(rt, root, p):
    kind = p['kind']
    if kind in ('attr', 'class', 'style', 'data', 'mark', 'model'):
        name = {'attr': 'a', 'class': None, 'style': None, 'data': 'x', 'mark': 'm', 'model': 'value'}[kind]
        setter = {'attr': 'r', 'class': 'c', 'style': 'y', 'data': 'd', 'mark': 'm', 'model': 'r'}[kind]
        return sum(1 for n in driver.walk(root) for a in n.attrs if a[0] == setter and (name is None or (a[1] and a[1][0] == name)) and
                   any(mentions_data(rt, x) for x in a[1]))
    if kind == 'text':
        return sum(1 for n in driver.walk(root) if n.kind == 'T' and n.text is not UNDEFINED and mentions_data(rt, n.text))
    if kind == 'if':
        return sum(1 for n in driver.walk(root) if n.kind == 'B' and not isinstance(n.key, str))
    if kind == 'for':
        return sum(1 for n in driver.walk(root) if n.kind == 'F')
    if kind == 'slotname':
        return sum(1 for n in driver.walk(root) if n.kind == 'S')
    if kind == 'tmpldata':
        return len([c for c in rt.template_calls if c[0] == 't9'])
    return 0


def classify(e):
    c = guards.chain_of(e)
    if c is not None:
        return 'chain' + ('-dyn' if any(k[0] == 'd' for k in c[1]) else '')
    return e[0] + (':' + e[1] if e[0] in ('bin', 'un') else '')


TREE_PREFIXES = ('U', 'itemtree_', 'indextree_', 'slottrees_')


def mentions_data(rt, v):
    """does a protocol value depend on the data / scope symbols (i.e. is it a dynamic site)?"""
    try:
        t = rt.it.term(v)
    except Exception:
        return True
    return mentions_tree(t, ('D', 'item_', 'index_', 'slotvalues_'))


def mentions_tree(t, prefixes=None):
    """does a z3 term mention an update-tree symbol (U, item / index / slot-value trees)?"""
    TREE_PREFIXES = prefixes or ('U', 'itemtree_', 'indextree_', 'slottrees_')
    seen = set()
    todo = [t]
    while todo:
        x = todo.pop()
        if not isinstance(x, z3.ExprRef) or x.get_id() in seen:
            continue
        seen.add(x.get_id())
        if z3.is_const(x) and x.decl().kind() == z3.Z3_OP_UNINTERPRETED:
            nm = x.decl().name()
            if nm == TREE_PREFIXES[0] or any(nm.startswith(p) for p in TREE_PREFIXES[1:]):
                return True
        todo.extend(x.children())
    return False


def tree_conds(pc):
    """conditions on the way to a node that depend on the update trees: they gate re-evaluation and belong to the guard
    (conditions on data only - wx:if branches - decide whether the node exists at all)"""
    return [c for c in pc if isinstance(c, z3.ExprRef) and mentions_tree(c)]


def container_pc(n):
    return list(n.parent.pc) if getattr(n, 'parent', None) is not None else []


def scope_env(rt, root, p):
    """names visible at the site -> (value term, tree term)"""
    env = {}
    fs = [n for n in driver.walk(root) if n.kind == 'F']
    if 'for' in p['scopes'] and fs:
        f = fs[0]
        env['item'] = (f.item, f.item_tree)
        env['index'] = (f.index, f.index_tree)
    if 'for2' in p['scopes'] and len(fs) > 1:
        f = fs[1]
        env['j2'] = (f.item, f.item_tree)
        env['k2'] = (f.index, f.index_tree)
    if 'slot' in p['scopes']:
        comp = [n for n in driver.walk(root) if n.kind == 'E' and n.tag == 'comp']
        if comp:
            n = comp[0]
            sv = rt.it.term(n.slot_values)
            from jssym.interp import nullish_t, EMPTY
            env['sv'] = (get(z3.If(nullish_t(sv), EMPTY, sv), V.Str(z3.StringVal('sv'))), get(rt.it.term(n.slot_trees), V.Str(z3.StringVal('sv'))))
    return env


def site_obligations(rt, root, p):
    """-> [(description, hypothesis 'some dependency touched', guard Bool, extra assumptions)]"""
    it = rt.it
    e = p['expr']
    env = scope_env(rt, root, p)
    ref = M.RefEval(it, rt.D, scopes={k: v[0] for k, v in env.items()})
    tr = guards.Trees(it)
    U = it.term(rt.U)
    if not guards.reads(e):
        return [('no dependencies', z3.BoolVal(False), z3.BoolVal(True), [])]
    hyp = tr.touched_expr(e, env, U, ref)
    extra = list(tr.wf) + [z3.Or(U == guards.TRUE_V, z3.And(V.is_Obj(U), V.id(U) >= 0))]
    kind = p['kind']
    out = []
    inner = root
    tb = lambda x: z3.BoolVal(x) if isinstance(x, bool) else x
    if kind in ('attr', 'class', 'style', 'data', 'mark', 'model'):
        name = {'attr': 'a', 'class': None, 'style': None, 'data': 'x', 'mark': 'm', 'model': 'value'}[kind]
        setter = {'attr': 'r', 'class': 'c', 'style': 'y', 'data': 'd', 'mark': 'm', 'model': 'r'}[kind]
        for n in driver.walk(root):
            for a in n.attrs:
                if a[0] == setter and (name is None or (a[1] and a[1][0] == name)):
                    conds = tree_conds(n.pc) + [tb(c) for c in a[2][len(n.pc):]]
                    g = z3.And(conds) if conds else z3.BoolVal(True)
                    out.append(('%s setter R.%s' % (kind, setter), hyp, g, extra))
        return out
    if kind == 'text':
        for n in driver.walk(root):
            if n.kind == 'T' and n.text is not UNDEFINED:
                rel = tree_conds(container_pc(n)) + [tb(c) for c in n.pc[len(container_pc(n)):]]
                g = z3.And(rel) if rel else z3.BoolVal(True)
                out.append(('text node', hyp, g, extra))
        return out
    if kind == 'if':
        for n in driver.walk(root):
            if n.kind == 'B' and not isinstance(n.key, str):
                rel = n.pc[len(container_pc(n)):]
                # the branch key must be recomputed on every update: no guard at all
                out.append(('wx:if branch key is unguarded', hyp, z3.BoolVal(not rel) if not rel else z3.And([tb(c) for c in rel]), extra))
        return out
    if kind == 'for':
        fs = [n for n in driver.walk(root) if n.kind == 'F']
        n = fs[-1] if fs else None
        if n is not None:
            t = n.tree
            K = U == guards.TRUE_V
            out.append(('wx:for list tree', z3.And(hyp, z3.Not(K)), tb(it.truthy(t)), extra))
            if guards.chain_of(e) is None and e[0] not in ('cond', 'arr', 'obj'):
                # (conditionals and array / object literals have trees of their own: per branch, per element, per key)
                # a computed list has no update tree of its own: a sub-tree of one of its dependencies must not be handed on as if it
                # described the items (the runtime looks the item trees up in it) - the whole list counts as changed
                out.append(('wx:for list tree of a computed list (must be `true`, not a dependency\'s sub-tree)', z3.And(hyp, z3.Not(K)),
                            tb(it.truthy(it.binary('===', t, True))), extra))
        return out
    if kind == 'slotname':
        for n in driver.walk(root):
            if n.kind == 'S':
                t = it.term(n.name)
                if z3.is_app_of(t, z3.Z3_OP_ITE) and z3.eq(t.arg(2), UNDEF):
                    out.append(('slot name', hyp, t.arg(0), extra))
                else:
                    out.append(('slot name (unguarded)', hyp, z3.BoolVal(True), extra))
        return out
    if kind == 'tmpldata':
        calls = [c for c in rt.template_calls if c[0] == 't9']
        for (name, dsub, usub, pc) in calls:
            K = U == guards.TRUE_V
            # whole-data change must reach the callee as `true`; otherwise the entry of the field must be marked
            whole = it.truthy(it.binary('===', usub, True))
            entry = it.member(usub, 'p9') if not isinstance(usub, bool) else UNDEFINED
            g = z3.Or(tb(whole), tb(it.truthy(entry)))
            out.append(('template data tree for field p9', hyp, g, extra))
            if guards.chain_of(e) is None and e[0] not in ('cond', 'arr', 'obj') and not isinstance(usub, bool):
                g2 = z3.Or(tb(whole), tb(it.truthy(it.binary('===', entry, True))))
                out.append(('template data tree for a computed field (must be `true`, not a dependency\'s sub-tree)', hyp, g2, extra))
        return out
    return out


def confirm(res, p, c):
    """node: create(D0); update(D1, U) vs create(D1) over a small pool of single-leaf changes; returns a description or None"""
    names = M.free_ids(p['expr'])
    job = {'mode': 'update-search', 'names': names, 'scopes': p['scopes']}
    out = driver.node_eval(c['gen_object'], c['runtime'], [dict(job, envs=[])], timeout=120) if False else None
    from jssym import update_replay
    return update_replay.search(c['gen_object'], c['runtime'], p)


def replay(path):
    d = json.load(open(path))
    print(json.dumps(d, indent=1)[:3000])
    return 1
