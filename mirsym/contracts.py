"""Callee-contract table of engine M: std / core functions by their documented behaviour.
Each contract: f(exe, path, callee, args, dst_ty) -> list of outcomes ('ret', path, value) | ('diverge', path) | ('running', path).
Every entry is part of the claim of the checks that use it; the names are printed in the evidence."""
import re
import z3

from .core import zstr, Agg, SymEnum, Ref, SeqV, Opaque, UNIT, FnItem, NativeFrame
from .mir import MirUnsupported

USED = set()


def contract(rx):
    def deco(f):
        f.rx = rx
        TABLE.append((rx, f))
        return f
    return deco


TABLE = []


def some(v):
    return Agg('Option', 'Some', {0: v})


NONE = Agg('Option', 'None')


def ok(v):
    return Agg('Result', 'Ok', {0: v})


def err(v):
    return Agg('Result', 'Err', {0: v})


def is_variant(exe, path, v, name):
    """-> z3 Bool: value v (Agg or SymEnum of Option/Result/...) is variant `name`"""
    if isinstance(v, Agg):
        return z3.BoolVal(v.variant == name)
    if isinstance(v, SymEnum):
        return v.discr == exe.discr_of(v.enum, name)
    raise MirUnsupported('variant test on %r' % (v,))


def payload(exe, v, variant, i=0):
    if isinstance(v, Agg):
        return v.fields[i]
    if isinstance(v, SymEnum):
        return v.payload_fn(variant, i)
    raise MirUnsupported('payload of %r' % (v,))


def fork_variant(exe, path, v, name):
    """-> [(path_yes|None, path_no|None)] forked on `v is name`"""
    c = z3.simplify(is_variant(exe, path, v, name))
    if z3.is_true(c):
        return path, None
    if z3.is_false(c):
        return None, path
    yes = no = None
    if exe.feasible(path, [c]):
        yes = path.clone()
        yes.pc.append(c)
    if exe.feasible(path, [z3.Not(c)]):
        no = path.clone()
        no.pc.append(z3.Not(c))
    return yes, no


# ------------------------------------------------------------------------------------------------ String / char sequences
@contract(r'^String::new$|^CompactString::new$|^CompactString::default$|<String as Default>::default')
def string_new(exe, path, callee, args, dst_ty):
    return [('ret', path, SeqV(()))]


@contract(r'^String::push$|^CompactString::push$')
def string_push(exe, path, callee, args, dst_ty):
    ref, c = args
    s = exe.load(path, ref)
    if not isinstance(s, SeqV):
        raise MirUnsupported('push on %r' % (s,))
    exe.store_at(path, ref.key, ref.proj, SeqV(s.items + (c,)))
    return [('ret', path, UNIT)]


@contract(r'^String::with_capacity$|^CompactString::with_capacity$')
def string_with_capacity(exe, path, callee, args, dst_ty):
    return [('ret', path, SeqV(()))]


@contract(r'^<(std::ops::)?Range<\w+> as IntoIterator>::into_iter$')
def range_into_iter(exe, path, callee, args, dst_ty):
    return [('ret', path, args[0])]


@contract(r'^<(std::ops::)?Range<\w+> as Iterator>::next$|^core::iter::range::<impl Iterator for (std::ops::)?Range<\w+>>::next$')
def range_next(exe, path, callee, args, dst_ty):
    ref = args[0]
    r = exe.load(path, ref)
    if not (isinstance(r, Agg) and len(r.fields) == 2):
        raise MirUnsupported('Range::next on %r' % (r,))
    start, end = r.fields[0], r.fields[1]
    outs = []
    yes = path.clone()
    if exe.feasible(yes, [start < end]):
        yes.pc.append(start < end)
        exe.store_at(yes, ref.key, ref.proj, r.with_field(0, z3.simplify(start + 1)))
        outs.append(('ret', yes, some(start)))
    if exe.feasible(path, [start >= end]):
        path.pc.append(start >= end)
        outs.append(('ret', path, NONE))
    return outs


@contract(r'char::methods::<impl char>::from_u32$|^char::from_u32$|core::char::from_u32$')
def char_from_u32(exe, path, callee, args, dst_ty):
    v = args[0]
    valid = z3.And(v >= 0, v <= 0x10FFFF, z3.Or(v < 0xD800, v > 0xDFFF))
    outs = []
    yes = path.clone()
    if exe.feasible(yes, [valid]):
        yes.pc.append(valid)
        outs.append(('ret', yes, some(v)))
    if exe.feasible(path, [z3.Not(valid)]):
        path.pc.append(z3.Not(valid))
        outs.append(('ret', path, NONE))
    return outs


@contract(r'^CompactString::new_inline$|^CompactString::const_new$|^CompactString::new::<&str>$')
def compact_from_const(exe, path, callee, args, dst_ty):
    t = strval(exe, path, args[0])
    if isinstance(t, z3.ExprRef) and z3.is_string_value(t):
        return [('ret', path, SeqV(tuple(z3.IntVal(ord(ch)) for ch in zstr(t))))]
    if isinstance(t, SeqV):
        return [('ret', path, t)]
    raise MirUnsupported('CompactString from %r' % (t,))


@contract(r'^String::push_str$|^CompactString::push_str$')
def string_push_str(exe, path, callee, args, dst_ty):
    ref, t = args
    s = exe.load(path, ref)
    t = strval(exe, path, t)
    if isinstance(t, z3.ExprRef) and z3.is_string_value(t):
        t = SeqV(tuple(z3.IntVal(ord(ch)) for ch in zstr(t)))
    if not isinstance(s, SeqV) or not isinstance(t, SeqV):
        raise MirUnsupported('push_str of %r onto %r' % (t, s))
    exe.store_at(path, ref.key, ref.proj, SeqV(s.items + t.items))
    return [('ret', path, UNIT)]


def utf8_width(c):
    return z3.If(c < 0x80, 1, z3.If(c < 0x800, 2, z3.If(c < 0x10000, 3, 4)))


@contract(r'^core::str::<impl str>::len$|^String::len$')
def str_len(exe, path, callee, args, dst_ty):
    s = strval(exe, path, args[0])
    if isinstance(s, SeqV):
        return [('ret', path, z3.Sum([utf8_width(c) for c in s.items]) if s.items else z3.IntVal(0))]
    if isinstance(s, z3.ExprRef) and z3.is_string_value(s):
        return [('ret', path, z3.IntVal(len(zstr(s).encode('utf-8'))))]
    raise MirUnsupported('len of %r' % (s,))


@contract(r'^core::str::<impl str>::chars$')
def str_chars(exe, path, callee, args, dst_ty):
    s = strval(exe, path, args[0])
    if isinstance(s, z3.ExprRef) and z3.is_string_value(s):
        s = SeqV(tuple(z3.IntVal(ord(ch)) for ch in zstr(s)))
    if not isinstance(s, SeqV):
        raise MirUnsupported('chars of %r' % (s,))
    return [('ret', path, Agg('CharsIter', None, {0: s.items, 1: 0}))]


@contract(r"^<Chars<'_> as IntoIterator>::into_iter$")
def chars_into_iter(exe, path, callee, args, dst_ty):
    return [('ret', path, args[0])]


@contract(r"^<Chars<'_> as Iterator>::next$")
def chars_next(exe, path, callee, args, dst_ty):
    ref = args[0]
    it = exe.load(path, ref)
    if not (isinstance(it, Agg) and it.name == 'CharsIter'):
        raise MirUnsupported('Chars::next on %r' % (it,))
    items, i = it.fields[0], it.fields[1]
    if i >= len(items):
        return [('ret', path, NONE)]
    exe.store_at(path, ref.key, ref.proj, it.with_field(1, i + 1))
    return [('ret', path, some(items[i]))]


@contract(r'^String::insert$')
def string_insert(exe, path, callee, args, dst_ty):
    ref, idx, c = args
    s = exe.load(path, ref)
    idx = z3.simplify(idx)
    if not isinstance(s, SeqV) or not z3.is_int_value(idx):
        raise MirUnsupported('insert on %r at %r' % (s, idx))
    i = idx.as_long()
    # byte index == char index only for ASCII content before i; position 0 is always fine
    if i != 0:
        raise MirUnsupported('String::insert at non-zero index')
    exe.store_at(path, ref.key, ref.proj, SeqV(s.items[:i] + (c,) + s.items[i:]))
    return [('ret', path, UNIT)]


@contract(r'<String as Deref>::deref$|^String::as_str$|<CompactString as Deref>::deref$|^CompactString::as_str$|<String as AsRef<str>>::as_ref')
def string_deref(exe, path, callee, args, dst_ty):
    return [('ret', path, args[0])]       # &String -> &str: same referent


def seq_eq_const(exe, seq, text):
    if len(seq.items) != len(text):
        return z3.BoolVal(False)
    return z3.And([c == ord(ch) for c, ch in zip(seq.items, text)]) if text else z3.BoolVal(True)


def strval(exe, path, v):
    """string-like value behind references / Cow wrappers"""
    v = exe.deref_all(path, v)
    while isinstance(v, Agg) and v.name == 'Cow' and 0 in v.fields:
        v = exe.deref_all(path, v.fields[0])
    return v


def str_eq(exe, path, a, b):
    a, b = strval(exe, path, a), strval(exe, path, b)
    if isinstance(a, SeqV) and isinstance(b, SeqV):
        if len(a.items) != len(b.items):
            return z3.BoolVal(False)
        return z3.And([x == y for x, y in zip(a.items, b.items)]) if a.items else z3.BoolVal(True)
    if isinstance(a, SeqV) and z3.is_string_value(b):
        return seq_eq_const(exe, a, zstr(b))
    if isinstance(b, SeqV) and z3.is_string_value(a):
        return seq_eq_const(exe, b, zstr(a))
    if isinstance(a, z3.ExprRef) and isinstance(b, z3.ExprRef) and z3.is_string(a) and z3.is_string(b):
        return a == b
    raise MirUnsupported('str eq of %r and %r' % (a, b))


@contract(r"<Cow<'_, str> as PartialEq<.*>>::eq$|<&?str as PartialEq<Cow<'_, str>>>::eq$|<&?str as PartialEq>::eq$|<str as PartialEq>::eq$|<&str as PartialEq<&str>>::eq|<String as PartialEq<&?str>>::eq|<String as PartialEq<str>>::eq|<\[u8\] as PartialEq>::eq|<&\[u8\] as PartialEq>::eq|<&?\[u8\] as PartialEq<&?\[u8; \d+\]>>::eq|<&\[u8\] as PartialEq<&\[u8; \d+\]>>::eq")
def c_str_eq(exe, path, callee, args, dst_ty):
    return [('ret', path, str_eq(exe, path, args[0], args[1]))]


@contract(r'<&?str as PartialEq>::ne$|<str as PartialEq>::ne$')
def c_str_ne(exe, path, callee, args, dst_ty):
    return [('ret', path, z3.Not(str_eq(exe, path, args[0], args[1])))]


# ------------------------------------------------------------------------------------------------ Option / Result / Try
@contract(r'^Option::<.*>::unwrap$|^std::option::Option::<.*>::unwrap$')
def option_unwrap(exe, path, callee, args, dst_ty):
    v = args[0]
    yes, no = fork_variant(exe, path, v, 'Some')
    outs = []
    if no is not None:
        exe.obligation(no, 'panic:unwrap on None', z3.BoolVal(True), {'callee': callee})
        outs.append(('diverge', no))
    if yes is not None:
        outs.append(('ret', yes, payload(exe, v, 'Some')))
    return outs


@contract(r'^(std::option::)?Option::<.*>::is_some$')
def option_is_some(exe, path, callee, args, dst_ty):
    v = exe.deref_all(path, args[0])
    return [('ret', path, is_variant(exe, path, v, 'Some'))]


@contract(r'^(std::option::)?Option::<.*>::is_none$')
def option_is_none(exe, path, callee, args, dst_ty):
    v = exe.deref_all(path, args[0])
    return [('ret', path, z3.Not(is_variant(exe, path, v, 'Some')))]


@contract(r'^(std::result::)?Result::<.*>::is_ok$')
def result_is_ok(exe, path, callee, args, dst_ty):
    v = exe.deref_all(path, args[0])
    return [('ret', path, is_variant(exe, path, v, 'Ok'))]


@contract(r'^(std::result::)?Result::<.*>::is_err$')
def result_is_err(exe, path, callee, args, dst_ty):
    v = exe.deref_all(path, args[0])
    return [('ret', path, z3.Not(is_variant(exe, path, v, 'Ok')))]


@contract(r'^(std::result::)?Result::<.*>::ok$')
def result_ok(exe, path, callee, args, dst_ty):
    v = args[0]
    yes, no = fork_variant(exe, path, v, 'Ok')
    outs = []
    if yes is not None:
        outs.append(('ret', yes, some(payload(exe, v, 'Ok'))))
    if no is not None:
        outs.append(('ret', no, NONE))
    return outs


@contract(r'^(std::option::)?Option::<.*>::as_ref$|^(std::option::)?Option::<.*>::as_mut$')
def option_as_ref(exe, path, callee, args, dst_ty):
    ref = args[0]
    v = exe.load(path, ref)
    yes, no = fork_variant(exe, path, v, 'Some')
    outs = []
    if yes is not None:
        if isinstance(v, Agg):
            outs.append(('ret', yes, some(Ref(ref.key, ref.proj + (('downcast', 'Some'), ('field', 0))))))
        else:
            outs.append(('ret', yes, some(payload(exe, v, 'Some'))))
    if no is not None:
        outs.append(('ret', no, NONE))
    return outs


@contract(r'^(std::option::)?Option::<.*>::take$')
def option_take(exe, path, callee, args, dst_ty):
    ref = args[0]
    v = exe.load(path, ref)
    exe.store_at(path, ref.key, ref.proj, NONE)
    return [('ret', path, v)]


@contract(r'^(std::option::)?Option::<.*>::replace$')
def option_replace(exe, path, callee, args, dst_ty):
    ref, new = args
    v = exe.load(path, ref)
    exe.store_at(path, ref.key, ref.proj, some(new))
    return [('ret', path, v)]


@contract(r'<(std::option::)?Option<.*> as Try>::branch$')
def option_branch(exe, path, callee, args, dst_ty):
    v = args[0]
    yes, no = fork_variant(exe, path, v, 'Some')
    outs = []
    if yes is not None:
        outs.append(('ret', yes, Agg('ControlFlow', 'Continue', {0: payload(exe, v, 'Some')})))
    if no is not None:
        outs.append(('ret', no, Agg('ControlFlow', 'Break', {0: NONE})))
    return outs


@contract(r'<(std::option::)?Option<.*> as FromResidual<.*>>::from_residual$')
def option_from_residual(exe, path, callee, args, dst_ty):
    return [('ret', path, NONE)]


@contract(r'<(std::result::)?Result<.*> as Try>::branch$')
def result_branch(exe, path, callee, args, dst_ty):
    v = args[0]
    yes, no = fork_variant(exe, path, v, 'Ok')
    outs = []
    if yes is not None:
        outs.append(('ret', yes, Agg('ControlFlow', 'Continue', {0: payload(exe, v, 'Ok')})))
    if no is not None:
        outs.append(('ret', no, Agg('ControlFlow', 'Break', {0: err(payload(exe, v, 'Err'))})))
    return outs


@contract(r'<(std::result::)?Result<.*> as FromResidual<.*>>::from_residual$')
def result_from_residual(exe, path, callee, args, dst_ty):
    v = args[0]
    if isinstance(v, Agg) and v.variant == 'Err':
        # From<E> conversion is the identity for the error types that occur here (or opaque)
        return [('ret', path, v)]
    raise MirUnsupported('from_residual of %r' % (v,))


@contract(r'^Box::<.*>::new$')
def box_new(exe, path, callee, args, dst_ty):
    if getattr(exe, 'boxes_on_heap', False):
        # a box is a pointer to its own heap cell (needed when a box pointer is copied and then written through)
        key = ('box', path.new_fid())
        path.store[key] = args[0]
        return [('ret', path, Ref(key))]
    return [('ret', path, args[0])]


@contract(r'<.* as Clone>::clone$')
def clone(exe, path, callee, args, dst_ty):
    v = args[0]
    return [('ret', path, exe.load(path, v) if isinstance(v, Ref) else v)]


@contract(r'<.* as Into<.*>>::into$|<.* as From<.*>>::from$')
def into(exe, path, callee, args, dst_ty):
    m = re.match(r'<(f32|f64) as From<(\w+)>>::from$', callee)
    if m and m.group(2) not in ('f32', 'f64') and isinstance(args[0], z3.ExprRef) and z3.is_int(args[0]) and exe.float_mode == 'real':
        return [('ret', path, z3.ToReal(args[0]))]      # lossless conversions only (From is not implemented for lossy ones)
    return [('ret', path, args[0])]


@contract(r'^<&?(u8|u16|u32|u64|usize|i8|i16|i32|i64|isize) as (BitAnd|BitOr|BitXor|Add|Sub|Mul|Div|Rem|Shl|Shr)<&?\w+>>::\w+$')
def int_operator_trait(exe, path, callee, args, dst_ty):
    m = re.match(r'^<&?(\w+) as (\w+)<', callee)
    ty, op = m.group(1), m.group(2)
    a, b = exe.deref_all(path, args[0]), exe.deref_all(path, args[1])
    if op in ('Add', 'Sub', 'Mul'):
        r = exe.binop(path, None, op + 'WithOverflow', a, b, ty, ty)
        exe.obligation(path, 'panic:arithmetic overflow', r.fields[1], {'callee': callee})
        return [('ret', path, r.fields[0])]
    if op in ('Div', 'Rem'):
        exe.obligation(path, 'panic:division by zero', b == 0, {'callee': callee})
    return [('ret', path, exe.binop(path, None, op, a, b, ty, ty))]


@contract(r'core::str::<impl str>::(r?split_once)::<char>$')
def str_split_once(exe, path, callee, args, dst_ty):
    s = strval(exe, path, args[0])
    ch = z3.simplify(args[1]) if isinstance(args[1], z3.ExprRef) else args[1]
    if not (isinstance(s, z3.ExprRef) and z3.is_string(s)) or not z3.is_int_value(ch):
        raise MirUnsupported('split_once on %r / %r' % (s, ch))
    sep = z3.StringVal(chr(ch.as_long()))
    n = path.new_fid()
    a, b = z3.String('split_a_%d' % n), z3.String('split_b_%d' % n)
    # x = a ++ sep ++ b with the separator absent from b (rsplit) / from a (split): concat + contains is what string solvers handle well
    cond = z3.And(s == z3.Concat(a, sep, b), z3.Not(z3.Contains(b if 'rsplit' in callee else a, sep)))
    outs = []
    yes = path.clone()
    if exe.feasible(yes, [cond]):
        yes.pc.append(cond)
        outs.append(('ret', yes, some(Agg('tuple', None, {0: a, 1: b}))))
    if exe.feasible(path, [z3.Not(z3.Contains(s, sep))]):
        path.pc.append(z3.Not(z3.Contains(s, sep)))
        outs.append(('ret', path, NONE))
    return outs


@contract(r'^(std::option::)?Option::<.*>::copied$|^(std::option::)?Option::<.*>::cloned$')
def option_copied(exe, path, callee, args, dst_ty):
    v = args[0]
    yes, no = fork_variant(exe, path, v, 'Some')
    outs = []
    if yes is not None:
        x = payload(exe, v, 'Some')
        outs.append(('ret', yes, some(exe.load(yes, x) if isinstance(x, Ref) else x)))
    if no is not None:
        outs.append(('ret', no, NONE))
    return outs


@contract(r'^core::str::<impl str>::(ends_with|starts_with)::<char>$')
def str_ends_with_char(exe, path, callee, args, dst_ty):
    s = strval(exe, path, args[0])
    ch = z3.simplify(args[1])
    if not z3.is_int_value(ch):
        raise MirUnsupported('ends_with symbolic char')
    ends = 'ends_with' in callee
    if isinstance(s, SeqV):
        if not s.items:
            return [('ret', path, z3.BoolVal(False))]
        return [('ret', path, (s.items[-1] if ends else s.items[0]) == ch)]
    if isinstance(s, z3.ExprRef) and z3.is_string(s):
        t = z3.StringVal(chr(ch.as_long()))
        return [('ret', path, z3.SuffixOf(t, s) if ends else z3.PrefixOf(t, s))]
    raise MirUnsupported('ends_with on %r' % (s,))


@contract(r'^(std::option::)?Option::<.*>::map_or::<')
def option_map_or(exe, path, callee, args, dst_ty):
    v, default, f = args
    yes, no = fork_variant(exe, path, v, 'Some')
    outs = []
    if yes is not None:
        x = payload(exe, v, 'Some')
        if isinstance(f, FnItem):
            yes.frames.append(NativeFrame(lambda exe, p, r, d: [('ret', p, r)], None))
            outs.extend(('running', q) if q.status == 'running' else ('diverge', q) for q in exe.invoke(yes, f.name, [x]))
        else:
            outs.append(call_closure(exe, yes, f, [x]))
    if no is not None:
        outs.append(('ret', no, default))
    return outs


@contract(r'(f32|f64)::<impl (f32|f64)>::fract$')
def float_fract(exe, path, callee, args, dst_ty):
    x = args[0]
    if exe.float_mode != 'real':
        raise MirUnsupported('fract in fp mode')
    tr = z3.If(x >= 0, z3.ToReal(z3.ToInt(x)), -z3.ToReal(z3.ToInt(-x)))
    return [('ret', path, x - tr)]        # exact in binary floating point


@contract(r'RangeInclusive::<char>::contains$|RangeInclusive::<char>::contains::<char>$')
def range_contains(exe, path, callee, args, dst_ty):
    rng = exe.deref_all(path, args[0])
    c = exe.deref_all(path, args[1])
    lo, hi = rng.fields[0], rng.fields[1]
    return [('ret', path, z3.And(c >= lo, c <= hi))]


@contract(r'RangeInclusive::<.*>::new$')
def range_new(exe, path, callee, args, dst_ty):
    return [('ret', path, Agg('RangeInclusive', None, {0: args[0], 1: args[1]}))]


# ------------------------------------------------------------------------------------------------ floats
@contract(r'f32::<impl f32>::round$')
def f32_round(exe, path, callee, args, dst_ty):
    x = args[0]
    if exe.float_mode == 'real':
        # round half away from zero, exact in f32 for the magnitudes in range
        r = z3.If(x >= 0, z3.ToReal(z3.ToInt(x + z3.RealVal('1/2'))), -z3.ToReal(z3.ToInt(-x + z3.RealVal('1/2'))))
        return [('ret', path, r)]
    return [('ret', path, z3.fpRoundToIntegral(z3.RNA(), x))]


@contract(r'f32::<impl f32>::abs$')
def f32_abs(exe, path, callee, args, dst_ty):
    x = args[0]
    if exe.float_mode == 'real':
        return [('ret', path, z3.If(x >= 0, x, -x))]
    return [('ret', path, z3.fpAbs(x))]


@contract(r'core::slice::<impl \[&str\]>::contains$')
def slice_str_contains(exe, path, callee, args, dst_ty):
    arr = exe.deref_all(path, args[0])
    x = args[1]
    if not (isinstance(arr, Agg) and arr.name == 'array'):
        raise MirUnsupported('contains on %r' % (arr,))
    return [('ret', path, z3.Or([str_eq(exe, path, arr.fields[i], x) for i in sorted(arr.fields)]))]


parsed_f64 = z3.Function('parsed_f64', z3.IntSort(), z3.IntSort(), z3.RealSort())


@contract(r'core::str::<impl str>::parse::<f64>$')
def str_parse_f64(exe, path, callee, args, dst_ty):
    """dec2flt is trusted: any f64 or Err (sound for panic freedom; the value is tied to the slice by an event)."""
    okp, errp = path.clone(), path
    sl = args[0]
    if isinstance(sl, Opaque) and isinstance(sl.info, dict) and 'start' in sl.info:
        v = parsed_f64(sl.info['start'], sl.info['end'])        # a function of the slice: same slice, same value
    else:
        v = z3.Real(exe.fresh_name('f64'))
    okp.event('parse_f64', args[0], v)
    errp.event('parse_f64', args[0], None)
    return [('ret', okp, ok(v)), ('ret', errp, err(Opaque('ParseFloatError')))]


def _checked(op):
    def f(exe, path, callee, args, dst_ty):
        ty = re.search(r'<impl (\w+)>', callee).group(1)
        from .core import INT_RANGE
        lo, hi = INT_RANGE[ty]
        a, b = args
        r = {'add': a + b, 'sub': a - b, 'mul': a * b}[op]
        inr = z3.And(r >= lo, r <= hi)
        outs = []
        if exe.feasible(path, [inr]):
            q = path.clone()
            q.pc.append(inr)
            outs.append(('ret', q, some(r)))
        if exe.feasible(path, [z3.Not(inr)]):
            q = path.clone()
            q.pc.append(z3.Not(inr))
            outs.append(('ret', q, NONE))
        return outs
    return f


for _op in ('add', 'sub', 'mul'):
    TABLE.append((r'core::num::<impl \w+>::checked_%s$' % _op, _checked(_op)))


# ------------------------------------------------------------------------------------------------ closures
def closure_fn(exe, clo):
    if isinstance(clo, Ref):
        raise MirUnsupported('closure by reference')
    if not isinstance(clo, Agg) or not clo.name.startswith('{closure@'):
        raise MirUnsupported('not a closure value: %r' % (clo,))
    hits = [n for n, h in exe.m.headers.items() if h.startswith('fn ') and
            re.search(r'\(_1: &?(mut )?' + re.escape(clo.name), h)]
    if len(hits) != 1:
        raise MirUnsupported('closure function lookup %s: %d hits' % (clo.name, len(hits)))
    by_ref = bool(re.search(r'\(_1: &', exe.m.headers[hits[0]]))
    return hits[0], by_ref


def call_closure(exe, path, clo, extra_args, then=None, data=None):
    """-> outcome ('running', path): the closure's MIR is executed; `then(exe, path, ret, data)` post-processes"""
    if isinstance(clo, FnItem):
        # a plain function used as the callback (`.map(decoded)`, `.and_then(char::from_u32)`)
        if then is not None:
            path.frames.append(NativeFrame(then, data))
        return ('multi', exe.invoke(path, clo.name, list(extra_args)))
    name, by_ref = closure_fn(exe, clo)
    first = clo
    if by_ref:
        key = ('clo', path.new_fid())
        path.store[key] = clo
        first = Ref(key)
    return exe.call_local(path, name, [first] + list(extra_args), then, data)


@contract(r'^(std::option::)?Option::<.*>::and_then::<')
def option_and_then(exe, path, callee, args, dst_ty):
    v, clo = args
    yes, no = fork_variant(exe, path, v, 'Some')
    outs = []
    if yes is not None:
        outs.append(call_closure(exe, yes, clo, [payload(exe, v, 'Some')]))
    if no is not None:
        outs.append(('ret', no, NONE))
    return outs


@contract(r'^(std::option::)?Option::<.*>::map::<')
def option_map(exe, path, callee, args, dst_ty):
    v, clo = args
    yes, no = fork_variant(exe, path, v, 'Some')
    outs = []
    if yes is not None:
        outs.append(call_closure(exe, yes, clo, [payload(exe, v, 'Some')], lambda exe, p, r, d: [('ret', p, some(r))]))
    if no is not None:
        outs.append(('ret', no, NONE))
    return outs


@contract(r'^(std::option::)?Option::<.*>::filter::<')
def option_filter(exe, path, callee, args, dst_ty):
    v, clo = args
    yes, no = fork_variant(exe, path, v, 'Some')
    outs = []
    if yes is not None:
        key = ('tmp', yes.new_fid())
        yes.store[key] = payload(exe, v, 'Some')

        def then(exe, p, keep, val):
            keep = z3.simplify(keep)
            res = []
            if not z3.is_false(keep) and exe.feasible(p, [keep]):
                q = p.clone()
                q.pc.append(keep)
                res.append(('ret', q, val))
            if not z3.is_true(keep) and exe.feasible(p, [z3.Not(keep)]):
                q = p.clone()
                q.pc.append(z3.Not(keep))
                res.append(('ret', q, NONE))
            return res
        outs.append(call_closure(exe, yes, clo, [Ref(key)], then, v))
    if no is not None:
        outs.append(('ret', no, NONE))
    return outs


# ------------------------------------------------------------------------------------------------ char classes / Vec
WHITE_SPACE = [(9, 13), (32, 32), (0x85, 0x85), (0xA0, 0xA0), (0x1680, 0x1680), (0x2000, 0x200A), (0x2028, 0x2029),
               (0x202F, 0x202F), (0x205F, 0x205F), (0x3000, 0x3000)]


@contract(r'char::methods::<impl char>::is_whitespace$|^char::is_whitespace$')
def char_is_whitespace(exe, path, callee, args, dst_ty):
    c = args[0]
    return [('ret', path, z3.Or([z3.And(c >= a, c <= b) for a, b in WHITE_SPACE]))]


@contract(r'^Vec::<.*>::new$')
def vec_new(exe, path, callee, args, dst_ty):
    return [('ret', path, Agg('Vec', None, {}))]


@contract(r'^Vec::<.*>::push$')
def vec_push(exe, path, callee, args, dst_ty):
    ref, x = args
    v = exe.load(path, ref)
    if not (isinstance(v, Agg) and v.name == 'Vec'):
        raise MirUnsupported('Vec::push on %r' % (v,))
    exe.store_at(path, ref.key, ref.proj, v.with_field(len(v.fields), x))
    return [('ret', path, UNIT)]


@contract(r'^core::slice::<impl \[.*\]>::(first|last)$')
def slice_first_last(exe, path, callee, args, dst_ty):
    src = args[0]
    v = exe.deref_all(path, src)
    if not (isinstance(v, Agg) and v.name in ('Vec', 'array')):
        raise MirUnsupported('slice first/last on %r' % (v,))
    n = len(v.fields)
    if n == 0:
        return [('ret', path, NONE)]
    i = 0 if callee.endswith('first') else n - 1
    elem = Ref(src.key, src.proj + (('index', i),)) if isinstance(src, Ref) else v.fields[i]
    return [('ret', path, some(elem))]


@contract(r'^std::mem::replace::<.*>$|^core::mem::replace::<.*>$')
def mem_replace(exe, path, callee, args, dst_ty):
    ref, new = args
    old = exe.load(path, ref)
    exe.store_at(path, ref.key, ref.proj, new)
    return [('ret', path, old)]


@contract(r'^core::str::<impl str>::strip_prefix::<char>$|^core::str::<impl str>::strip_prefix::<&str>$')
def str_strip_prefix(exe, path, callee, args, dst_ty):
    s = strval(exe, path, args[0])
    pat = args[1]
    pat = z3.simplify(pat) if isinstance(pat, z3.ExprRef) else strval(exe, path, pat)
    if isinstance(s, z3.ExprRef) and z3.is_string(s):
        p = z3.StringVal(chr(pat.as_long())) if z3.is_int_value(pat) else pat
        outs = []
        yes = path.clone()
        if exe.feasible(yes, [z3.PrefixOf(p, s)]):
            yes.pc.append(z3.PrefixOf(p, s))
            outs.append(('ret', yes, some(z3.SubString(s, z3.Length(p), z3.Length(s) - z3.Length(p)))))
        if exe.feasible(path, [z3.Not(z3.PrefixOf(p, s))]):
            path.pc.append(z3.Not(z3.PrefixOf(p, s)))
            outs.append(('ret', path, NONE))
        return outs
    raise MirUnsupported('strip_prefix on %r' % (s,))


@contract(r'^Vec::<.*>::len$|^Vec::<.*>::is_empty$')
def vec_len(exe, path, callee, args, dst_ty):
    v = exe.deref_all(path, args[0])
    if not (isinstance(v, Agg) and v.name == 'Vec'):
        raise MirUnsupported('Vec::len on %r' % (v,))
    n = len(v.fields)
    return [('ret', path, z3.IntVal(n) if callee.endswith('len') else z3.BoolVal(n == 0))]


@contract(r'^Vec::<.*>::pop$')
def vec_pop(exe, path, callee, args, dst_ty):
    ref = args[0]
    v = exe.load(path, ref)
    if not (isinstance(v, Agg) and v.name == 'Vec'):
        raise MirUnsupported('Vec::pop on %r' % (v,))
    n = len(v.fields)
    if n == 0:
        return [('ret', path, NONE)]
    f = dict(v.fields)
    x = f.pop(n - 1)
    exe.store_at(path, ref.key, ref.proj, Agg('Vec', None, f))
    return [('ret', path, some(x))]


@contract(r'^(std::result::)?Result::<.*>::map::<')
def result_map(exe, path, callee, args, dst_ty):
    v, clo = args
    yes, no = fork_variant(exe, path, v, 'Ok')
    outs = []
    if yes is not None:
        outs.append(call_closure(exe, yes, clo, [payload(exe, v, 'Ok')], lambda exe, p, r, d: [('ret', p, ok(r))]))
    if no is not None:
        outs.append(('ret', no, v))
    return outs


@contract(r'^(std::result::)?Result::<.*>::map_err::<')
def result_map_err(exe, path, callee, args, dst_ty):
    v, clo = args
    yes, no = fork_variant(exe, path, v, 'Ok')
    outs = []
    if yes is not None:
        outs.append(('ret', yes, v))
    if no is not None:
        outs.append(call_closure(exe, no, clo, [payload(exe, v, 'Err')], lambda exe, p, r, d: [('ret', p, err(r))]))
    return outs


@contract(r'^(std::result::)?Result::<.*>::unwrap$')
def result_unwrap(exe, path, callee, args, dst_ty):
    v = args[0]
    yes, no = fork_variant(exe, path, v, 'Ok')
    outs = []
    if no is not None:
        exe.obligation(no, 'panic:unwrap on Err', z3.BoolVal(True), {'callee': callee})
        outs.append(('diverge', no))
    if yes is not None:
        outs.append(('ret', yes, payload(exe, v, 'Ok')))
    return outs


@contract(r'<.* as FnOnce<.*>>::call_once$|<.* as FnMut<.*>>::call_mut$|<.* as Fn<.*>>::call$')
def fn_call_once(exe, path, callee, args, dst_ty):
    clo, tup = args
    if isinstance(clo, Ref):
        clo = exe.load(path, clo)
    extra = [tup.fields[i] for i in sorted(tup.fields)] if isinstance(tup, Agg) and tup.name == 'tuple' else []
    return [call_closure(exe, path, clo, extra)]


@contract(r'<Vec<.*> as Deref>::deref$|<Vec<.*> as DerefMut>::deref_mut$|^Vec::<.*>::as_slice$')
def vec_deref(exe, path, callee, args, dst_ty):
    return [('ret', path, args[0])]


@contract(r'core::slice::<impl \[.*\]>::iter$')
def slice_iter(exe, path, callee, args, dst_ty):
    return [('ret', path, Agg('SliceIter', None, {0: args[0], 1: 0}))]


@contract(r"<std::slice::Iter<'_, .*> as Iterator>::next$")
def slice_iter_next(exe, path, callee, args, dst_ty):
    ref = args[0]
    it = exe.load(path, ref)
    src, i = it.fields[0], it.fields[1]
    v = exe.deref_all(path, src)
    if not (isinstance(v, Agg) and v.name in ('Vec', 'array')):
        raise MirUnsupported('slice iter over %r' % (v,))
    if i >= len(v.fields):
        return [('ret', path, NONE)]
    exe.store_at(path, ref.key, ref.proj, it.with_field(1, i + 1))
    if isinstance(src, Ref):
        elem = Ref(src.key, src.proj + (('index', i),))
    else:
        elem = v.fields[i]
    return [('ret', path, some(elem))]


@contract(r"<&?(mut )?Vec<.*> as IntoIterator>::into_iter$|<std::slice::Iter<'_, .*> as IntoIterator>::into_iter$")
def into_iter_ident(exe, path, callee, args, dst_ty):
    a = args[0]
    if isinstance(a, Agg) and a.name == 'SliceIter':
        return [('ret', path, a)]
    return [('ret', path, Agg('SliceIter', None, {0: a, 1: 0}))]


@contract(r'core::bool::<impl bool>::then::<')
def bool_then(exe, path, callee, args, dst_ty):
    b, clo = args
    b = z3.simplify(b)
    outs = []
    if not z3.is_false(b) and exe.feasible(path, [b]):
        q = path.clone()
        q.pc.append(b)
        outs.append(call_closure(exe, q, clo, [], lambda exe, p, r, d: [('ret', p, some(r))]))
    if not z3.is_true(b) and exe.feasible(path, [z3.Not(b)]):
        q = path.clone()
        q.pc.append(z3.Not(b))
        outs.append(('ret', q, NONE))
    return outs


@contract(r'core::bool::<impl bool>::then_some::<')
def bool_then_some(exe, path, callee, args, dst_ty):
    b, v = args
    b = z3.simplify(b)
    outs = []
    if not z3.is_false(b) and exe.feasible(path, [b]):
        q = path.clone()
        q.pc.append(b)
        outs.append(('ret', q, some(v)))
    if not z3.is_true(b) and exe.feasible(path, [z3.Not(b)]):
        q = path.clone()
        q.pc.append(z3.Not(b))
        outs.append(('ret', q, NONE))
    return outs


@contract(r'^(std::option::)?Option::<.*>::unwrap_or$')
def option_unwrap_or(exe, path, callee, args, dst_ty):
    v, d = args
    yes, no = fork_variant(exe, path, v, 'Some')
    outs = []
    if yes is not None:
        outs.append(('ret', yes, payload(exe, v, 'Some')))
    if no is not None:
        outs.append(('ret', no, d))
    return outs


@contract(r'^std::mem::take::<String>$|^std::mem::take::<Vec<.*>>$')
def mem_take(exe, path, callee, args, dst_ty):
    ref = args[0]
    v = exe.load(path, ref)
    empty = Agg('Vec', None, {}) if 'Vec' in callee else z3.StringVal('')
    exe.store_at(path, ref.key, ref.proj, empty)
    return [('ret', path, v)]


@contract(r"<Cow<'_, str> as Deref>::deref$|<Cow<'_, str> as AsRef<str>>::as_ref$|^Cow::<'_, str>::into_owned$|<Cow<'_, str> as ToString>::to_string$")
def cow_deref(exe, path, callee, args, dst_ty):
    return [('ret', path, strval(exe, path, args[0]))]
