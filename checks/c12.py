"""C12 - static strings reach the runtime character for character.

Engine M on the two string kernels of the template compiler (MIR regenerated from the working tree):
 M12a  `escape::gen_lit_str` (the writer of every string literal of the generated JavaScript): input = L symbolic Unicode
       scalar values (L <= 3: every code point with every successor and predecessor); the emitted character sequence is
       decoded by a reference decoder of ECMAScript double-quoted StringLiteral (forking on the solver where the class of
       a character is not determined by the path); z3 decides that the literal is well formed in sloppy AND strict mode
       (no raw quote / backslash / line terminator, no legacy octal escape, only escapes every engine knows) and that its
       value is the input, for all inputs.
 M12b  `Expression::parse_lit_str` (escape processing of string literals inside `{{ }}`): quote + <= 6 symbolic characters
       + quote against the documented escape table (\\n \\r \\t \\b \\f \\v \\0 \\xHH \\uHHHH, identity otherwise); an invalid
       \\x / \\u escape must be diagnosed.
Counterexamples are replayed end to end: a template carrying the string is compiled by the real compiler, the generated
program is executed by node with the recording runtime, and the string the runtime receives is compared.
Outside: entity decoding (entities.rs + a 2231-entry table), composition over whole templates, names that are emitted
through other writers than gen_lit_str.
"""
import json
import re
import time
import z3

from lib import common
from lib.common import Result, log
from mirsym.mir import Module, MirUnsupported
from mirsym.core import Executor, Path, Agg, Ref, SeqV, Inconclusive
from mirsym import contracts, targets, ps_env
from jssym import driver

LINE_TERMINATORS = (10, 13, 0x2028, 0x2029)


def scalar(c):
    return z3.And(c >= 0, c <= 0x10FFFF, z3.Or(c < 0xD800, c > 0xDFFF))


class Decoder:
    """reference decoder of the body of a double-quoted ECMAScript string literal over symbolic characters"""

    def __init__(self, exe, base):
        self.exe, self.base = exe, base
        self.nq = 0

    def sat(self, conds):
        self.nq += 1
        ok, _ = self.exe.check(self.base + conds)
        return ok

    def cases(self, guards, options):
        """options: [(cond, tag)] mutually exclusive and exhaustive -> the feasible ones"""
        out = []
        for cond, tag in options:
            c = z3.simplify(cond)
            if z3.is_false(c):
                continue
            if z3.is_true(c) or self.sat(guards + [c]):
                out.append((guards + ([] if z3.is_true(c) else [c]), tag))
        return out

    def hexval(self, d):
        return z3.If(z3.And(d >= 48, d <= 57), d - 48, z3.If(z3.And(d >= 97, d <= 102), d - 87, z3.If(z3.And(d >= 65, d <= 70), d - 55, z3.IntVal(-1))))

    def decode(self, items):
        """-> [(guards, ('ok', [terms]) | ('error', why))]"""
        results = []
        todo = [(0, [], [])]
        while todo:
            i, guards, out = todo.pop()
            if i >= len(items):
                results.append((guards, ('ok', out)))
                continue
            c = items[i]
            is_lt = z3.Or([c == x for x in LINE_TERMINATORS])
            opts = [(c == 34, 'quote'), (c == 92, 'esc'), (is_lt, 'lt'), (z3.Not(z3.Or(c == 34, c == 92, is_lt)), 'lit')]
            for g, tag in self.cases(guards, opts):
                if tag == 'quote':
                    results.append((g, ('error', 'unescaped quote inside the literal')))
                elif tag == 'lt':
                    results.append((g, ('error', 'raw line terminator inside the literal')))
                elif tag == 'lit':
                    todo.append((i + 1, g, out + [c]))
                else:
                    if i + 1 >= len(items):
                        results.append((g, ('error', 'backslash at the end of the literal')))
                        continue
                    e = items[i + 1]
                    simple = {34: 34, 92: 92, 39: 39, 110: 10, 114: 13, 116: 9, 98: 8, 102: 12, 118: 11}
                    eopts = [(e == k, ('simple', v)) for k, v in simple.items()]
                    eopts += [(e == 48, ('zero', None)), (z3.And(e >= 49, e <= 57), ('octal', None)), (e == 120, ('x', None)), (e == 117, ('u', None)),
                              (z3.Or([e == x for x in LINE_TERMINATORS]), ('cont', None))]
                    other = z3.Not(z3.Or([o[0] for o in eopts]))
                    eopts.append((other, ('identity', None)))
                    for g2, (kind, val) in self.cases(g, eopts):
                        if kind == 'simple':
                            todo.append((i + 2, g2, out + [z3.IntVal(val)]))
                        elif kind == 'identity':
                            todo.append((i + 2, g2, out + [e]))
                        elif kind == 'octal':
                            results.append((g2, ('error', 'legacy octal / \\8 \\9 escape (SyntaxError in strict mode, different value)')))
                        elif kind == 'cont':
                            results.append((g2, ('error', 'line continuation')))
                        elif kind == 'zero':
                            if i + 2 < len(items):
                                nx = items[i + 2]
                                for g3, t3 in self.cases(g2, [(z3.And(nx >= 48, nx <= 57), 'digit'), (z3.Not(z3.And(nx >= 48, nx <= 57)), 'fine')]):
                                    if t3 == 'digit':
                                        results.append((g3, ('error', '\\0 followed by a digit is a legacy octal escape')))
                                    else:
                                        todo.append((i + 2, g3, out + [z3.IntVal(0)]))
                            else:
                                todo.append((i + 2, g2, out + [z3.IntVal(0)]))
                        else:
                            n = 2 if kind == 'x' else 4
                            if i + 2 + n > len(items):
                                results.append((g2, ('error', 'truncated \\%s escape' % kind)))
                                continue
                            ds = items[i + 2:i + 2 + n]
                            hv = [self.hexval(d) for d in ds]
                            valid = z3.And([h >= 0 for h in hv])
                            for g3, t3 in self.cases(g2, [(valid, 'hex'), (z3.Not(valid), 'bad')]):
                                if t3 == 'bad':
                                    results.append((g3, ('error', '\\%s escape without %d hex digits (\\u{...} is not accepted by every engine / the template parser)' % (kind, n))))
                                else:
                                    v = hv[0]
                                    for h in hv[1:]:
                                        v = v * 16 + h
                                    todo.append((i + 2 + n, g3, out + [v]))
        return results


def utf16_units(chars):
    """JavaScript strings are UTF-16: \\uXXXX denotes one unit; a scalar above the BMP is two units"""
    return chars


def m12a(res, mod, tier):
    total = 0
    pending = []
    for L in ((1, 2, 3) if tier == 'thorough' else (1, 2)):
        t0 = time.time()
        exe = Executor(mod, contracts.TABLE, max_visits=L + 3)
        chars = [z3.Int('s%d' % i) for i in range(L)]
        exe.base = [scalar(c) for c in chars]
        p = Path()
        p.store[('heap', 'in')] = SeqV(tuple(chars))
        done = exe.run('gen_lit_str', [Ref(('heap', 'in'))], p)
        res.solver_time += exe.stats['solver_time']
        for f in exe.findings:
            s = ''.join(chr(f.model.eval(c, model_completion=True).as_long()) for c in chars) if f.model is not None else None
            pending.append(('exec:' + f.kind, 'gen_lit_str: %s' % f.kind, s))
        nret = 0
        nq = 0
        for q in done:
            if q.status != 'returned':
                continue
            nret += 1
            r = q.result
            if not isinstance(r, SeqV) or len(r.items) < 2:
                pending.append(('shape', 'gen_lit_str returns %r' % (r,), None))
                continue
            dec = Decoder(exe, exe.base + q.pc)
            first, last, body = r.items[0], r.items[-1], list(r.items[1:-1])
            ok, model = exe.check(exe.base + q.pc + [z3.Or(first != 34, last != 34)], want_model=True)
            res.query('sat' if ok else 'unsat')
            nq += 1
            if ok:
                pending.append(('quotes', 'the literal is not delimited by double quotes', witness(model, chars)))
                continue
            for guards, (kind, val) in dec.decode(body):
                nq += 1
                if kind == 'error':
                    ok, model = exe.check(exe.base + q.pc + guards, want_model=True)
                    res.query('sat' if ok else 'unsat')
                    if ok:
                        pending.append(('malformed:' + val.split(' ')[0], 'the emitted literal is not valid for every engine: ' + val, witness(model, chars)))
                    continue
                # value: the decoded UTF-16/code point sequence is the input
                if len(val) != L:
                    ok, model = exe.check(exe.base + q.pc + guards, want_model=True)
                    res.query('sat' if ok else 'unsat')
                    if ok:
                        pending.append(('value', 'the literal denotes %d characters for an input of %d' % (len(val), L), witness(model, chars)))
                    continue
                diff = z3.Or([a != b for a, b in zip(val, chars)])
                ok, model = exe.check(exe.base + q.pc + guards + [diff], want_model=True)
                res.query('sat' if ok else 'unsat')
                if not ok and tier == 'thorough' and len(res.coverage.get('cross_solver', {})) < 6 and len(val) > 1:
                    from lib import smt
                    try:
                        res.coverage.setdefault('cross_solver', {})['M12a value L=%d #%d' % (L, nq)] = smt.cross_check(exe.base + q.pc + guards + [diff], 'unsat', timeout=60)
                    except smt.SolverDisagreement as e:
                        res.inconc('cross-solver: %s' % e)
                if ok:
                    pending.append(('value', 'the literal denotes a different string', witness(model, chars)))
            nq += dec.nq
        total += nq
        if nret == 0:
            res.inconc('M12a L=%d: no returning path' % L)
        res.functions.append({'fn': 'escape::gen_lit_str(&str) -> String', 'input_chars': L, 'paths': len(done), 'returned': nret, 'queries': nq,
                              'contracts': sorted(exe.stats.get('contracts_used', {}))})
        log('[C12] M12a L=%d: %d paths, %d queries, %d candidate deviations (%.1fs)' % (L, len(done), nq, len(pending), time.time() - t0))
    return total, pending


def witness(model, chars):
    return ''.join(chr(model.eval(c, model_completion=True).as_long()) for c in chars)


CRITICAL = ['0', '7', '9', 'a', 'F', '"', "'", '\\', '{', '}', '\n', ' ', '\0', 'u', 'x']


def e2e(strings):
    """compile templates that carry each string as static text, static attribute and expression literal; run the generated
    code in node; -> list of (string, context, received) that differ"""
    def ent(s):
        return ''.join('&#%d;' % ord(ch) for ch in s)

    def wxlit(s):
        return ''.join('\\u%04x' % ord(ch) if ord(ch) < 0x10000 else ch for ch in s)
    bad = []
    progs = []
    for s in strings:
        progs.append('<v p="%s" q="{{ \'%s\' }}">%s</v>' % (ent(s), wxlit(s), ent(s)))
    comp = driver.compile_batch(progs, want=('gen_object', 'runtime'))
    for s, c in zip(strings, comp):
        if 'panic' in c:
            bad.append((s, 'compile', 'panic: ' + c['panic']))
            continue
        if any(d['level'] >= 3 for d in c.get('diagnostics', [])):
            continue      # not a well-formed carrier for this string (e.g. lone surrogate escapes)
        jobs = [{'mode': 'attr', 'attr': a, 'ref': json.dumps(s), 'envs': [{}]} for a in ('p', 'q')] + [{'mode': 'tree', 'ref': 'null', 'envs': [{}]}]
        try:
            out = driver.node_eval(c['gen_object'], c['runtime'], jobs)
        except common.Inconclusive as e:
            bad.append((s, 'node', str(e)[:200]))
            continue
        if 'load_error' in out:
            bad.append((s, 'load', out['load_error']))
            continue
        for (got, want), ctx in zip([r[0] for r in out['results'][:2]], ('static attribute', 'expression literal')):
            if got != want:
                bad.append((s, ctx, got))
        tree = out['results'][2][0][0]
        if json.dumps(s, ensure_ascii=False) not in tree and s.strip() == s and s:
            bad.append((s, 'static text', tree[:200]))
    return bad


def m12b(res, mod, tier, L=8):
    """parse_lit_str against the escape table"""
    pending = []
    total = 0
    fams = [('"', None), ("'", None)]
    for quote, _ in fams[:1 if tier != 'thorough' else 2]:
        t0 = time.time()
        exe, inp, fn, done = targets.run_ps_client(mod, r'::parse_lit_str$', L, family=(quote, None), ascii_only=False, max_visits=L + 4, merge=False)
        res.solver_time += exe.stats['solver_time']
        for f in exe.findings:
            s = inp.string_of(f.model) if f.model is not None else None
            pending.append(('exec:' + f.kind.split(',')[0], 'parse_lit_str: %s' % f.kind, s, 'lit'))
        nret = nq = 0
        lemmas = digit_lemmas(exe, inp, done)
        res.coverage['digit_table_lemmas'] = len(lemmas)
        for q in done:
            if q.status != 'returned':
                continue
            r = q.result
            if not (isinstance(r, Agg) and r.variant == 'Some'):
                continue
            nret += 1
            idx, warns, _ = q.env['ps']
            e = exe.deref_all(q, r.fields[0])
            if not (isinstance(e, Agg) and (e.variant or e.name) == 'LitStr'):
                pending.append(('shape', 'parse_lit_str returns %r' % (e,), None, 'lit'))
                continue
            val = e.fields[0]
            if not isinstance(val, SeqV):
                raise MirUnsupported('LitStr value %r' % (val,))
            # reference: decode chars[1 .. idx-1) with the documented table
            body = inp.chars[1:idx - 1]
            base = exe.base + q.pc + [inp.n >= idx] + lemmas
            ref_cases = ref_decode(exe, base, body, quote)
            nq += 1
            for guards, (kind, out) in ref_cases:
                nq += 1
                if kind == 'invalid':
                    # an invalid escape must be diagnosed
                    if warns == 0:
                        ok, model = exe.check(base + guards, want_model=True)
                        res.query('sat' if ok else 'unsat')
                        if ok:
                            pending.append(('undiagnosed', 'invalid escape sequence accepted without a diagnostic (%s)' % out, inp.string_of(model), 'lit'))
                    continue
                if warns:
                    ok, model = exe.check(base + guards, want_model=True)
                    res.query('sat' if ok else 'unsat')
                    if ok:
                        pending.append(('spurious-diagnostic', 'a valid string literal is diagnosed', inp.string_of(model), 'lit'))
                    continue
                if len(out) != len(val.items):
                    ok, model = exe.check(base + guards, want_model=True)
                    res.query('sat' if ok else 'unsat')
                    if ok:
                        pending.append(('value', 'literal decodes to %d characters, the escape table gives %d' % (len(val.items), len(out)), inp.string_of(model), 'lit'))
                    continue
                diff = z3.Or([a != b for a, b in zip(out, val.items)]) if out else z3.BoolVal(False)
                ok, model = exe.check(base + guards + [diff], want_model=True)
                res.query('sat' if ok else 'unsat')
                if ok:
                    pending.append(('value', 'literal decodes to a different string than the escape table gives', inp.string_of(model), 'lit'))
        total += nq
        if nret == 0:
            res.inconc('M12b: no path returns a literal')
        res.functions.append({'fn': 'Expression::parse_lit_str + closures (parse/expr.rs)', 'max_chars': L, 'quote': quote, 'paths': len(done), 'literals': nret,
                              'queries': nq, 'contracts': sorted(exe.stats.get('contracts_used', {}))})
        log('[C12] M12b quote %s L=%d: %d paths, %d literal paths, %d queries (%.1fs)' % (quote, L, len(done), nret, nq, time.time() - t0))
    return total, pending


def digit_lemmas(exe, inp, done):
    """The parser's per-character digit table T(c) (an if-then-else term over one input character, found inside the value of a
    decoded escape) equals the reference hex value for every hex digit: proved once for an arbitrary character, then instantiated
    for every input position.  Sound by construction: only proved equalities are returned."""
    d = Decoder(exe, [])
    cand = {}
    for q in done:
        if q.status != 'returned' or not (isinstance(q.result, Agg) and q.result.variant == 'Some'):
            continue
        e = exe.deref_all(q, q.result.fields[0])
        if not (isinstance(e, Agg) and isinstance(e.fields.get(0), SeqV)):
            continue
        for item in e.fields[0].items:
            todo = [item]
            while todo:
                t = todo.pop()
                if not isinstance(t, z3.ExprRef) or z3.is_int_value(t):
                    continue
                if z3.is_app_of(t, z3.Z3_OP_ITE):
                    vs = free_consts(t)
                    if len(vs) == 1:
                        cand[t.get_id()] = (t, vs[0])
                        continue
                todo.extend(t.children())
        if len(cand) >= 8:
            break
    lemmas = []
    proved = []
    for t, c in cand.values():
        if any(z3.eq(z3.substitute(t, (c, pc_)), pt) for pt, pc_ in proved):
            continue
        h = d.hexval(c)
        ok, _ = exe.check([h >= 0, t != h])
        if not ok:
            proved.append((t, c))
    for t, c in proved:
        for ci in inp.chars:
            lemmas.append(z3.Implies(d.hexval(ci) >= 0, z3.substitute(t, (c, ci)) == d.hexval(ci)))
    return lemmas


def free_consts(t):
    seen, out, todo = set(), [], [t]
    while todo:
        x = todo.pop()
        if x.get_id() in seen:
            continue
        seen.add(x.get_id())
        if z3.is_const(x) and x.decl().kind() == z3.Z3_OP_UNINTERPRETED:
            out.append(x)
        todo.extend(x.children())
    return out


def ref_decode(exe, base, body, quote):
    """the escape table of template string literals over symbolic characters -> [(guards, ('ok', [terms]) | ('invalid', why))]"""
    d = Decoder(exe, base)
    results = []
    todo = [(0, [], [])]
    simple = {ord('r'): 13, ord('n'): 10, ord('t'): 9, ord('b'): 8, ord('f'): 12, ord('v'): 11, ord('0'): 0}
    while todo:
        i, guards, out = todo.pop()
        if i >= len(body):
            results.append((guards, ('ok', out)))
            continue
        c = body[i]
        for g, tag in d.cases(guards, [(c == 92, 'esc'), (c != 92, 'lit')]):
            if tag == 'lit':
                todo.append((i + 1, g, out + [c]))
                continue
            if i + 1 >= len(body):
                results.append((g, ('invalid', 'backslash before the closing quote')))
                continue
            e = body[i + 1]
            opts = [(e == k, ('simple', v)) for k, v in simple.items()] + [(e == 120, ('x', 2)), (e == 117, ('u', 4))]
            opts.append((z3.Not(z3.Or([o[0] for o in opts])), ('identity', None)))
            for g2, (kind, v) in d.cases(g, opts):
                if kind == 'simple':
                    todo.append((i + 2, g2, out + [z3.IntVal(v)]))
                elif kind == 'identity':
                    todo.append((i + 2, g2, out + [e]))
                else:
                    n = v
                    if i + 2 + n > len(body):
                        results.append((g2, ('invalid', 'truncated \\%s escape' % kind)))
                        continue
                    hv = [d.hexval(x) for x in body[i + 2:i + 2 + n]]
                    val = hv[0]
                    for h in hv[1:]:
                        val = val * 16 + h
                    valid = z3.And([h >= 0 for h in hv] + [z3.Or(val < 0xD800, val > 0xDFFF)])
                    for g3, t3 in d.cases(g2, [(valid, 'ok'), (z3.Not(valid), 'bad')]):
                        if t3 == 'bad':
                            results.append((g3, ('invalid', '\\%s escape without %d hex digits / surrogate value' % (kind, n))))
                        else:
                            todo.append((i + 2 + n, g3, out + [val]))
    return results


def replay_lit(strings):
    """expression literals given verbatim (the witness is the literal's source text incl. quotes): the runtime must receive the table's value"""
    bad = []
    progs = ['<v>{{ %s }}</v>' % s for s in strings]
    comp = driver.compile_batch(progs, want=('gen_object', 'runtime'))
    for s, c in zip(strings, comp):
        if 'panic' in c:
            bad.append((s, 'panic: ' + c['panic']))
            continue
        diag = [d for d in c.get('diagnostics', []) if d['level'] >= 3]
        want = py_ref(s)
        if want is None:
            if not diag:
                bad.append((s, 'invalid escape accepted without a diagnostic'))
            continue
        if diag:
            bad.append((s, 'valid literal diagnosed: %s' % diag[0].get('kind', diag[0])))
            continue
        out = driver.node_eval(c['gen_object'], c['runtime'], [{'mode': 'tree', 'ref': 'null', 'envs': [{}]}])
        if 'load_error' in out:
            bad.append((s, 'generated code does not load: ' + out['load_error']))
            continue
        tree = out['results'][0][0][0]
        if '"text":' + json.dumps(want, ensure_ascii=False) not in tree:
            bad.append((s, 'the literal denotes %s, the runtime receives %s' % (json.dumps(want), tree[:200])))
    return bad


def py_ref(src):
    """concrete escape table (None = invalid)"""
    q, body = src[0], src[1:-1]
    out = []
    i = 0
    simple = {'r': '\r', 'n': '\n', 't': '\t', 'b': '\b', 'f': '\f', 'v': '\v', '0': '\0'}
    while i < len(body):
        c = body[i]
        if c != '\\':
            out.append(c)
            i += 1
            continue
        if i + 1 >= len(body):
            return None
        e = body[i + 1]
        if e in simple:
            out.append(simple[e])
            i += 2
        elif e in 'xu':
            n = 2 if e == 'x' else 4
            h = body[i + 2:i + 2 + n]
            if len(h) != n or any(ch not in '0123456789abcdefABCDEF' for ch in h):
                return None
            v = int(h, 16)
            if 0xD800 <= v <= 0xDFFF:
                return None
            out.append(chr(v))
            i += 2 + n
        else:
            out.append(e)
            i += 2
    return ''.join(out)


# ------------------------------------------------------------------------------------------------ M12c: entities
def entity_layout():
    import glob
    import os
    from mirsym import sc_env
    hits = glob.glob(os.path.expanduser('~/.cargo/registry/src/*/entities-*/src/lib.rs'))
    if not hits:
        raise MirUnsupported('source of the entities crate not found')
    f = sc_env.struct_fields(sorted(hits)[-1], 'Entity')
    return {n: i for i, (n, _) in enumerate(f)}


def entity_contracts(state):
    T = []

    def reg(rx):
        def deco(f):
            T.append((rx, f))
            return f
        return deco

    @reg(r'^core::slice::<impl \[(entities::)?Entity\]>::iter$')
    def ent_iter(exe, path, callee, args, dst_ty):
        return [('ret', path, Agg('EntIter', None, {0: 0}))]

    @reg(r"^<std::slice::Iter<'_, (entities::)?Entity> as IntoIterator>::into_iter$")
    def ent_into(exe, path, callee, args, dst_ty):
        return [('ret', path, args[0])]

    @reg(r"^<std::slice::Iter<'_, (entities::)?Entity> as Iterator>::next$")
    def ent_next(exe, path, callee, args, dst_ty):
        ref = args[0]
        it = exe.load(path, ref)
        if it.fields[0] >= 1:
            return [('ret', path, contracts.NONE)]
        exe.store_at(path, ref.key, ref.proj, it.with_field(0, 1))
        return [('ret', path, contracts.some(Ref(('heap', 'entity'))))]

    @reg(r'^HashMap::<.*>::new$|^HashMap::<.*>::with_capacity$')
    def hm_new(exe, path, callee, args, dst_ty):
        return [('ret', path, Agg('HashMap', None, {}))]

    @reg(r'^HashMap::<.*>::insert$')
    def hm_insert(exe, path, callee, args, dst_ty):
        path.event('insert', exe.snapshot(path, exe.deref_all(path, args[1])), exe.snapshot(path, exe.deref_all(path, args[2])))
        return [('ret', path, contracts.NONE)]

    @reg(r'^<ENTITIES_MAPPING as Deref>::deref$')
    def lazy_deref(exe, path, callee, args, dst_ty):
        return [('ret', path, Ref(('heap', 'mapping')))]

    @reg(r'^HashMap::<.*>::get::<str>$')
    def hm_get(exe, path, callee, args, dst_ty):
        path.event('get', exe.snapshot(path, contracts.strval(exe, path, args[1])))
        no = path.clone()
        no.event('miss')
        return [('ret', path, contracts.some(Ref(('heap', 'table_value')))), ('ret', no, contracts.NONE)]

    @reg(r'^<str as (std::ops::)?Index<(std::ops::)?(RangeFrom|RangeInclusive|Range)<usize>>>::index$')
    def str_index(exe, path, callee, args, dst_ty):
        s = contracts.strval(exe, path, args[0])
        r = args[1]
        if not isinstance(s, SeqV):
            raise MirUnsupported('index of %r' % (s,))
        exe.obligation(path, 'non-ascii', z3.Or([c >= 128 for c in s.items]) if s.items else z3.BoolVal(False))
        vals = []
        for k in sorted(r.fields):
            v = r.fields[k]
            v = z3.simplify(v) if isinstance(v, z3.ExprRef) else v
            if isinstance(v, z3.ExprRef) and z3.is_int_value(v):
                vals.append(v.as_long())
            elif isinstance(v, bool) or (isinstance(v, z3.ExprRef) and z3.is_bool(v)):
                continue
            else:
                raise MirUnsupported('symbolic slice bound %r' % (v,))
        kind = re.search(r'(RangeFrom|RangeInclusive|Range)<usize>', callee).group(1)
        n = len(s.items)
        if kind == 'RangeFrom':
            lo, hi = vals[0], n
        elif kind == 'RangeInclusive':
            lo, hi = vals[0], vals[1] + 1
        else:
            lo, hi = vals[0], vals[1]
        if not (0 <= lo <= hi <= n):
            exe.obligation(path, 'panic:slice index out of range', z3.BoolVal(True))
            return [('diverge', path)]
        return [('ret', path, SeqV(s.items[lo:hi]))]

    @reg(r'^core::str::<impl str>::len$')
    def ascii_len(exe, path, callee, args, dst_ty):
        s = contracts.strval(exe, path, args[0])
        if not isinstance(s, SeqV):
            raise MirUnsupported('len of %r' % (s,))
        exe.obligation(path, 'non-ascii', z3.Or([c >= 128 for c in s.items]) if s.items else z3.BoolVal(False))
        return [('ret', path, z3.IntVal(len(s.items)))]

    @reg(r'^core::num::<impl u32>::from_str_radix$')
    def from_str_radix(exe, path, callee, args, dst_ty):
        s = contracts.strval(exe, path, args[0])
        radix = z3.simplify(args[1]).as_long()
        if not isinstance(s, SeqV):
            raise MirUnsupported('from_str_radix of %r' % (s,))
        if not s.items:
            return [('ret', path, contracts.err(Agg('ParseIntError')))]
        d = Decoder(exe, [])
        digs = [d.hexval(c) for c in s.items]
        valid = z3.And([z3.And(h >= 0, h < radix) for h in digs])
        val = digs[0]
        for h in digs[1:]:
            val = val * radix + h
        okc = z3.And(valid, val <= 0xFFFFFFFF)
        outs = []
        yes = path.clone()
        if exe.feasible(yes, [okc]):
            yes.pc.append(okc)
            outs.append(('ret', yes, contracts.ok(val)))
        # (a leading '+' is accepted by std as well; the entity grammar never produces one: outside)
        if exe.feasible(path, [z3.Not(okc)]):
            path.pc.append(z3.Not(okc))
            outs.append(('ret', path, contracts.err(Agg('ParseIntError'))))
        return outs

    @reg(r'^<String as From<char>>::from$')
    def string_from_char(exe, path, callee, args, dst_ty):
        return [('ret', path, SeqV((args[0],)))]
    return T


def m12c(res, mod, tier):
    pending = []
    nq = 0
    idx = entity_layout()
    # (a) the table: one arbitrary entry (entity name, 1..2 replacement code points) -> exactly one insert(name, characters)
    for nchars in (1, 2):
        exe = Executor(mod, entity_contracts({}) + contracts.TABLE, max_visits=6)
        name = z3.String('entity_name')
        chars = tuple(z3.Int('repl%d' % i) for i in range(nchars))
        exe.base = [scalar(c) for c in chars]
        p = Path()
        p.store[('heap', 'entity')] = Agg('Entity', None, {idx['entity']: name, idx['codepoints']: Agg('Codepoints'), idx['characters']: SeqV(chars)})
        fn = [x for x in mod.index if x.split('::')[-1] == 'make_mapping' and mod.headers[x].startswith('fn ')]
        if len(fn) != 1:
            raise MirUnsupported('make_mapping not found')
        done = exe.run(fn[0], [], p)
        res.solver_time += exe.stats['solver_time']
        rets = [q for q in done if q.status == 'returned']
        if not rets:
            res.inconc('M12c: make_mapping has no returning path')
        for q in rets:
            ins = [e for e in q.events if e[0] == 'insert']
            nq += 1
            good = len(ins) == 1 and isinstance(ins[0][1], z3.ExprRef) and z3.eq(ins[0][1], name) and isinstance(ins[0][2], SeqV) and \
                len(ins[0][2].items) == nchars and all(z3.eq(a, b) for a, b in zip(ins[0][2].items, chars))
            res.query('unsat' if good else 'sat')
            if not good:
                pending.append(('table', 'the entity table does not map a name to its replacement text (%d code points): inserts %r' % (nchars, [e[1:] for e in ins]), None, 'named'))
        res.functions.append({'fn': 'entities::make_mapping (one arbitrary table entry)', 'replacement_code_points': nchars, 'paths': len(done)})
    # (b) decode on every ASCII string of the entity grammar's shape
    fn = [x for x in mod.index if x.endswith('entities::decode') and mod.headers[x].startswith('fn ')]
    if len(fn) != 1:
        raise MirUnsupported('entities::decode not found')
    d = None
    for L in range(2, 11 if tier != 'thorough' else 13):
        exe = Executor(mod, entity_contracts({}) + contracts.TABLE, max_visits=6)
        cs = [z3.Int('e%d' % i) for i in range(L)]
        exe.base = [z3.And(c >= 33, c < 127) for c in cs] + [cs[0] == 38]
        d = Decoder(exe, [])
        p = Path()
        tv = z3.String('table_value')
        p.store[('heap', 'table_value')] = tv
        p.store[('heap', 'mapping')] = Agg('HashMap', None, {})
        p.store[('heap', 'in')] = SeqV(tuple(cs))
        done = exe.run(fn[0], [Ref(('heap', 'in'))], p)
        res.solver_time += exe.stats['solver_time']
        for f in exe.findings:
            s = ''.join(chr(f.model.eval(c, model_completion=True).as_long()) for c in cs) if f.model is not None else None
            pending.append(('exec:' + f.kind.split(',')[0], 'entities::decode: %s' % f.kind, s, 'numeric'))
        # reference
        is_hex = z3.And(cs[-1] == 59, z3.BoolVal(L > 4), cs[1] == 35, cs[2] == 120) if L > 4 else z3.BoolVal(False)
        is_dec = z3.And(cs[-1] == 59, z3.BoolVal(L > 3), cs[1] == 35, z3.Not(is_hex)) if L > 3 else z3.BoolVal(False)

        def value(digs, radix):
            hv = [d.hexval(c) for c in digs]
            v = hv[0]
            for h in hv[1:]:
                v = v * radix + h
            return z3.And([z3.And(h >= 0, h < radix) for h in hv]), v
        for q in done:
            if q.status != 'returned':
                continue
            r = q.result
            base = exe.base + q.pc
            got_none = isinstance(r, Agg) and r.variant == 'None'
            got_owned = got_borrowed = None
            if isinstance(r, Agg) and r.variant == 'Some':
                cow = r.fields[0]
                if isinstance(cow, Agg) and cow.variant == 'Owned' and isinstance(cow.fields[0], SeqV):
                    got_owned = cow.fields[0].items
                elif isinstance(cow, Agg) and cow.variant == 'Borrowed':
                    got_borrowed = cow.fields[0]
            cases = []
            if L > 4:
                okd, v = value(cs[3:L - 1], 16)
                valid = z3.And(okd, v <= 0x10FFFF, z3.Or(v < 0xD800, v > 0xDFFF))
                cases.append((z3.And(is_hex, valid), ('char', v)))
                cases.append((z3.And(is_hex, z3.Not(valid)), ('none', None)))
            if L > 3:
                okd, v = value(cs[2:L - 1], 10)
                valid = z3.And(okd, v <= 0x10FFFF, z3.Or(v < 0xD800, v > 0xDFFF))
                cases.append((z3.And(is_dec, valid), ('char', v)))
                cases.append((z3.And(is_dec, z3.Not(valid)), ('none', None)))
            cases.append((cs[-1] != 59, ('none', None)))
            cases.append((z3.And(cs[-1] == 59, z3.Not(is_hex), z3.Not(is_dec)), ('table', None)))
            for cond, (kind, v) in cases:
                nq += 1
                if kind == 'char':
                    bad = z3.BoolVal(True) if got_owned is None or len(got_owned) != 1 or not (isinstance(got_owned[0], z3.ExprRef) and z3.is_int(got_owned[0])) else got_owned[0] != v
                elif kind == 'none':
                    bad = z3.BoolVal(not got_none)
                else:
                    missed = any(e[0] == 'miss' for e in q.events)
                    looked = [e for e in q.events if e[0] == 'get']
                    okk = len(looked) == 1 and isinstance(looked[0][1], SeqV) and len(looked[0][1].items) == L and all(z3.eq(a, b) for a, b in zip(looked[0][1].items, cs))
                    bad = z3.BoolVal(not (okk and (got_none if missed else (got_borrowed is not None and z3.eq(got_borrowed, tv)))))
                ok, model = exe.check(base + [cond, bad], want_model=True)
                res.query('sat' if ok else 'unsat')
                if ok:
                    s = ''.join(chr(model.eval(c, model_completion=True).as_long()) for c in cs)
                    pending.append(('decode-' + kind, 'entities::decode(%r) returns %r' % (s, r), s, 'numeric' if kind != 'table' else 'named'))
        res.functions.append({'fn': 'entities::decode + {closure#0}', 'chars': L, 'paths': len(done)})
    log('[C12] M12c: %d queries, %d candidate deviations' % (nq, len(pending)))
    return nq, pending


def m12d(res, mod, tier):
    """`StrName::parse_next_entity` (the scanner in front of entities::decode) with the ParseState contracts: for every input of <= L
    characters (all of Unicode): the cursor advances; `decode` is called exactly on the stretch `&` ... `;` of the entity grammar
    (`&#x` hex+ `;`, `&#` digit+ `;`, `&` letter+ `;`); if decode accepts, its text is returned and the whole reference is consumed; otherwise
    exactly the `&` is consumed and returned verbatim (with one IllegalEntity diagnostic when the reference was well formed or a numeric
    form was broken)."""
    from mirsym.core import Opaque
    pending = []
    L = 7 if tier == 'thorough' else 6
    byte_at = ps_env.byte_at
    extra = []

    def reg(rx):
        def deco(f):
            extra.append((rx, f))
            return f
        return deco

    @reg(r'entities::decode$')
    def decode(exe, path, callee, args, dst_ty):
        sl = args[0]
        if not (isinstance(sl, Opaque) and sl.tag == 'slice'):
            raise MirUnsupported('decode of %r' % (sl,))
        path.event('decode', sl.info['start'], sl.info['end'], ps_env.ps_state(path)[0])
        no = path.clone()
        no.event('decode-none')
        dec = SeqV((z3.Int('decoded_%d' % path.new_fid()),))
        return [('ret', path, contracts.some(Agg('Cow', 'Owned', {0: dec}))), ('ret', no, contracts.NONE)]

    @reg(r"ParseState::<'_>::next_char_as_str$")
    def next_char_as_str(exe, path, callee, args, dst_ty):
        idx, w, a = ps_env.ps_state(path)
        if idx >= L:
            path.pc.append(z3.BoolVal(False))
            return []
        path.pc.append(inp_holder[0].n > idx)
        ps_env.set_ps(path, idx=idx + 1)
        path.event('verbatim', idx)
        return [('ret', path, SeqV((inp_holder[0].chars[idx],)))]
    inp_holder = [None]
    # run_ps_client creates the Input: patch the holder through a tiny wrapper
    orig_make = ps_env.make_table

    def make_table(inp):
        inp_holder[0] = inp
        return orig_make(inp)
    ps_env.make_table = make_table
    try:
        exe, inp, fn, done = targets.run_ps_client(mod, r'::parse_next_entity$', L, ascii_only=False, max_visits=L + 4, merge=False, extra_contracts=extra)
    finally:
        ps_env.make_table = orig_make
    res.solver_time += exe.stats['solver_time']
    for f in exe.findings:
        pending.append(('exec:' + f.kind.split(',')[0], 'parse_next_entity: %s' % f.kind, inp.string_of(f.model) if f.model is not None else None, 'numeric'))
    nq = 0
    d = Decoder(exe, [])
    cs = inp.chars
    for q in done:
        if q.status != 'returned':
            continue
        idx, warns, _ = q.env['ps']
        base = exe.base + q.pc
        decs = [e for e in q.events if e[0] == 'decode']
        accepted = bool(decs) and not any(e[0] == 'decode-none' for e in q.events)
        verb = [e for e in q.events if e[0] == 'verbatim']
        nq += 1

        def report(cls, what):
            ok, model = exe.check(base, want_model=True)
            res.query('sat' if ok else 'unsat')
            if ok:
                pending.append((cls, 'parse_next_entity(%r): %s' % (inp.string_of(model), what), inp.string_of(model), 'numeric'))
        if idx < 1:
            report('progress', 'the cursor does not advance')
            continue
        if len(decs) > 1:
            report('decode', 'decode is called %d times' % len(decs))
            continue
        if decs:
            # the stretch handed to decode: from the `&` at 0 to the cursor at the time of the call, which must sit right after a `;`
            _, st, en, at = decs[0]
            wf_slice = z3.And(st == byte_at(z3.IntVal(0)), en == byte_at(z3.IntVal(at)))
            k = at
            body = cs[1:k - 1]
            hexd = lambda c: d.hexval(c) >= 0
            dig = lambda c: z3.And(c >= 48, c <= 57)
            let = lambda c: z3.Or(z3.And(c >= 65, c <= 90), z3.And(c >= 97, c <= 122))
            forms = []
            if k >= 4:
                forms.append(z3.And([cs[1] == 35, cs[2] == 120] + [hexd(c) for c in cs[3:k - 1]]))      # `&#x` hex* `;` (an empty number is rejected by decode)
            if k >= 4:
                forms.append(z3.And([cs[1] == 35] + [dig(c) for c in cs[2:k - 1]]))
            if k >= 3:
                forms.append(z3.And([let(c) for c in body]))
            grammar = z3.And(cs[0] == 38, cs[k - 1] == 59, z3.Or(forms) if forms else z3.BoolVal(False)) if k >= 3 else z3.BoolVal(False)
            ok, model = exe.check(base + [z3.Not(z3.And(wf_slice, grammar))], want_model=True)
            res.query('sat' if ok else 'unsat')
            if ok:
                pending.append(('grammar', 'decode is called on a stretch that is not `&` + reference + `;`', inp.string_of(model), 'numeric'))
                continue
        if accepted:
            r = q.result
            good = isinstance(r, Agg) and r.name == 'Cow' and idx == decs[0][3] and not verb and warns == 0
            if not good:
                report('accepted', 'decode accepted the reference but the result / cursor / diagnostics are %r / %d / %d' % (r, idx, warns))
            else:
                res.query('unsat')
        else:
            # verbatim: exactly the first character is consumed and returned
            r = contracts.strval(exe, q, q.result)
            good = idx == 1 and len(verb) == 1 and isinstance(r, SeqV) and len(r.items) == 1 and z3.eq(r.items[0], cs[0])
            if not good:
                report('verbatim', 'the reference is rejected but the result / cursor are %r / %d' % (q.result, idx))
            else:
                res.query('unsat')
            # a rejected well-formed reference (decode said no) must be diagnosed
            if decs and warns != 1:
                report('undiagnosed', 'decode rejected the reference but %d diagnostics are produced' % warns)
    res.functions.append({'fn': 'StrName::parse_next_entity + {closure#0} (parse/tag.rs)', 'max_chars': L, 'paths': len(done), 'queries': nq,
                          'contracts': sorted(exe.stats.get('contracts_used', {}))})
    log('[C12] M12d parse_next_entity L=%d: %d paths, %d candidate deviations' % (L, len(done), len(pending)))
    return nq, pending


def replay_entities(kinds):
    """static text made of entity references through the real pipeline; reference: numeric = the scalar value (kept verbatim and
    diagnosed when invalid), named = the HTML5 table of Python's standard library"""
    import html.entities
    cases = []
    if 'named' in kinds:
        names = sorted(k for k in html.entities.html5 if k.endswith(';'))
        multi = [k for k in names if len(html.entities.html5[k]) > 1]
        pick = multi[:40] + names[::45]
        cases += [('&' + k, html.entities.html5[k]) for k in pick]
    if 'case-siblings' in kinds or 'named' in kinds:
        # names that differ from another name only by letter case but denote something else (&Dagger; / &dagger;, &Gt; / &gt; ...)
        by_lower = {}
        for k, v in html.entities.html5.items():
            if k.endswith(';'):
                by_lower.setdefault(k.lower(), set()).add((k, v))
        sib = sorted(k for grp in by_lower.values() if len({v for _, v in grp}) > 1 for k, _ in grp)
        cases += [('&' + k, html.entities.html5[k]) for k in sib[:: (1 if 'case-siblings' in kinds else 6)]]
    if 'numeric' in kinds:
        for v in (0x41, 0x0, 0x7f, 0xe9, 0x2028, 0xffff, 0x10000, 0x10ffff, 9, 10, 0x1F600):
            cases += [('&#x%x;' % v, chr(v)), ('&#%d;' % v, chr(v)), ('&#X%x;' % v, None)]
        cases += [('&#xd800;', None), ('&#x110000;', None), ('&#55296;', None), ('&#xffffffffff;', None), ('&#99999999999;', None)]
    progs = ['<v>[%s]</v>' % src for src, _ in cases]
    comp = driver.compile_batch(progs, want=('gen_object', 'runtime'))
    bad = []
    for (src, want), c in zip(cases, comp):
        if 'panic' in c:
            bad.append((src, 'panic: ' + c['panic']))
            continue
        expect = '[' + (want if want is not None else src) + ']'
        if want is None and not c.get('diagnostics'):
            bad.append((src, 'invalid reference accepted without a diagnostic'))
            continue
        out = driver.node_eval(c['gen_object'], c['runtime'], [{'mode': 'tree', 'ref': 'null', 'envs': [{}]}])
        if 'load_error' in out:
            bad.append((src, 'generated code does not load: ' + out['load_error']))
            continue
        tree = out['results'][0][0][0]
        if '"text":' + json.dumps(expect, ensure_ascii=False) not in tree:
            bad.append((src, 'denotes %s, the runtime receives %s' % (json.dumps(expect), tree[tree.find('"text"'):][:80])))
    return bad


def run_m12a(res, mod, tier):
    """M12a with its replay; shared by C12 (value) and C02 (the literal is valid JavaScript)"""
    try:
        na, pend_a = m12a(res, mod, tier)
    except MirUnsupported as e:
        # the writer cannot be executed by M (e.g. it delegates to core's formatting machinery): nothing is proved; the
        # critical strings are still pushed through the real pipeline so that a known-bad writer is reported, not just "unknown"
        na, pend_a = 0, []
        res.inconc('M12a: gen_lit_str is outside the executor (%s)' % str(e)[:160])
        probe = ['\0' + x for x in '0179'] + [c + x for c in ('\0', '\x01', '\x7f', '\u2028', '\\', '"', 'é', '\U0001F600') for x in CRITICAL[:8]]
        bad = e2e(probe)
        res.coverage['traces_validated_against_impl'] = res.coverage.get('traces_validated_against_impl', 0) + len(probe)
        if bad:
            s0, ctx, got = bad[0]
            res.violation({'engine': 'replay', 'harness': 'M12a-fallback', 'class': 'e2e'},
                          'the string %r as %s reaches the runtime as %s (%d of %d probe strings differ)' % (s0, ctx, got[:120], len(bad), len(probe)), {'string': s0, 'context': ctx})
    seen = set()
    for cls, what, s in pend_a:
        if cls in seen:
            continue
        seen.add(cls)
        cands = ([s] if s is not None else []) + [s[:1] + x for x in CRITICAL if s] + ['\0' + x for x in '0179'] + ['\\0', 'a\\', ' ', '\x7f', '\x01']
        bad = e2e(cands)
        res.coverage['traces_validated_against_impl'] = res.coverage.get('traces_validated_against_impl', 0) + len(cands)
        if bad:
            s0, ctx, got = bad[0]
            res.violation({'engine': 'M', 'harness': 'M12a', 'class': cls},
                          'gen_lit_str: %s; end to end: the string %r as %s reaches the runtime as %s' % (what, s0, ctx, got), {'string': s0, 'context': ctx})
        else:
            res.inconc('M12a: %s (witness %r) - not observable end to end' % (what, s))
    return na


def main(tier):
    res = Result('C12', 'other')
    res.engines = ['M (MIR symbolic execution + z3; reference decoders over symbolic characters)']
    mod = Module(common.mir_dump('tc'))
    na = run_m12a(res, mod, tier)
    nb, pend_b = m12b(res, mod, tier)
    nc, pend_c, nd, pend_d = 0, [], 0, []
    for fn_, name_ in ((m12c, 'M12c (entity table / entities::decode)'), (m12d, 'M12d (parse_next_entity)')):
        try:
            n_, pend_ = fn_(res, mod, tier)
            nc += n_
            pend_c = pend_c + pend_
        except MirUnsupported as e:
            # probe fallback (DESIGN 10.2): nothing is proved for this kernel; the reference pool goes through the real pipeline so that a
            # decoder that is known to be wrong is reported (replayed, concrete), otherwise the run is inconclusive
            res.inconc('%s is outside the executor (%s)' % (name_, str(e)[:140]))
            bad = replay_entities(['named', 'numeric', 'case-siblings'])
            res.coverage['traces_validated_against_impl'] = res.coverage.get('traces_validated_against_impl', 0) + 1
            if bad:
                res.violation({'engine': 'replay', 'harness': 'M12c-fallback', 'class': 'e2e'},
                              'static text %s %s (%d references of the probe pool differ)' % (bad[0][0], bad[0][1], len(bad)), {'entity': bad[0][0]})
    seen = set()
    for cls, what, s0, kind in pend_c:
        if cls in seen:
            continue
        seen.add(cls)
        bad = replay_entities([kind])
        res.coverage['traces_validated_against_impl'] = res.coverage.get('traces_validated_against_impl', 0) + 1
        if bad:
            res.violation({'engine': 'M', 'harness': 'M12c', 'class': cls}, '%s; end to end: static text %s %s (%d references differ)' % (what, bad[0][0], bad[0][1], len(bad)),
                          {'entity': bad[0][0]})
        else:
            res.inconc('M12c: %s - not observable end to end' % what)
    seen = set()
    for cls, what, s, _ in pend_b:
        if cls in seen:
            continue
        seen.add(cls)
        cands = [s] if s else []
        if s and len(s) >= 2 and s[-1] != s[0]:
            cands.append(s + s[0])
        bad = replay_lit([c for c in cands if len(c) >= 2 and c[0] == c[-1] and c[0] in '"\''])
        res.coverage['traces_validated_against_impl'] = res.coverage.get('traces_validated_against_impl', 0) + len(cands)
        if bad:
            res.violation({'engine': 'M', 'harness': 'M12b', 'class': cls}, 'parse_lit_str: %s; end to end: {{ %s }}: %s' % (what, bad[0][0], bad[0][1]), {'literal': bad[0][0]})
        else:
            res.inconc('M12b: %s (witness %r) - not observable end to end' % (what, s))
    # translator validation (Serval-style): fixed strings through the encoding's claim and the real pipeline
    fixed = ['a', '\0' + '1', '"\\', '\n\r\t', '\x7f ', '\U0001F600', 'é', '\x1f0', '{{', "'"]
    bad = e2e(fixed)
    res.coverage['traces_validated_against_impl'] = res.coverage.get('traces_validated_against_impl', 0) + len(fixed)
    for s0, ctx, got in bad[:3]:
        if not len(res.violations):
            res.inconc('translator validation: %r as %s reaches the runtime as %s although the model proves the writer right' % (s0, ctx, got))
    for s0, why in replay_entities(['named', 'numeric'])[:3]:
        if not res.violations:
            res.inconc('translator validation: static text %s %s although the model proves the decoder right' % (s0, why))
    lits = ['"a\\n\\x41\\u00e9\\q"', "'\\0\\b\\f\\v'", '"\\x4"', '"\\ud800"', '"\\u12"']
    for s0, why in replay_lit(lits):
        if not len(res.violations):
            res.inconc('translator validation: {{ %s }}: %s although the model proves the parser right' % (s0, why))
    res.bounds = {'gen_lit_str': 'every string of <= %d Unicode scalar values (all code points x all neighbours)' % (3 if tier == 'thorough' else 2),
                  'parse_lit_str': 'every literal of <= %d characters incl. quotes, all code points' % 8}
    res.assumptions = ['String / Chars / push_str contracts (character sequences)', 'ParseState cursor contracts (ps_env; established for the compiled code by K16a)',
                       'reference: ECMAScript 2023 12.9.4 double-quoted StringLiteral, restricted to the forms every engine and strict mode accept',
                       'reference: the escape table of template string literals (documented in the parser source)']
    res.outside = ['entity decoding (entities.rs, 2231-entry table)', 'strings longer than the bound (the writer is a per-character map: no state across characters except \\0+digit, covered by L=2)',
                   'names emitted through other writers than gen_lit_str', 'composition over whole templates']
    res.coverage.update({'explanation': 'gen_lit_str and parse_lit_str executed from MIR over symbolic characters; reference decoders fork with the solver; every case decided by z3',
                         'obligations': na + nb + nc, 'discharged': res.queries.get('unsat', 0), 'evaluations': na + nb + nc, 'distinct_nontrivial': na + nb + nc})
    return res.finish()


def replay(path):
    d = json.load(open(path))['replay']
    if 'entity' in d:
        bad = replay_entities(['named', 'numeric', 'case-siblings'])
    elif 'string' in d:
        bad = e2e([d['string']])
    else:
        bad = replay_lit([d['literal']])
    print(bad)
    return 1 if bad else 0
