// C11 replay: get-put on concrete data.  For every `model:` site with a path: writing a sentinel at the emitted path and
// re-rendering must deliver the sentinel at the same site; a site without path must not be an assignable chain.
'use strict'
const input = JSON.parse(require('fs').readFileSync(0, 'utf8'))
const G = new Function(input.runtime + ';return (' + input.gen_object + ')')()
function item(i) { return { x: { y: 'v' + i, 0: 'z' }, y: 'w' + i, sub: [{ y: 'p' + i, x: 1, 0: 'q' }, { y: 'r' + i, x: 2, 0: 's' }], 0: { y: 'n' + i }, s: 1, 't': 2 } }
function mkData(cv) {
  const it = [item(0), item(1)]
  return { a: Object.assign(item(7), { 'x': { y: 'ay', k: 'kk', 0: 'a0' }, 's t': 'st', f: () => [item(3)] }), b: 'x', c: cv, d: 'y', l: Object.assign([item(4), item(5)], { m: it, x: it, y: it }),
    m: [item(8)], q: { r: [item(9)] }, f: () => [item(6)] }
}
function render(data) {
  const sites = []
  const setters = {}
  for (const n of ['c', 'm', 'r', 'd', 'v', 'p', 'l', 'i', 'y', 's', 'a', 'wl']) setters[n] = function () { sites.push([n].concat(Array.prototype.slice.call(arguments, 1))) }
  setters.setFnFilter = () => {}; setters.setEventListenerWrapper = () => {}
  const res = G('')(setters, true, data, undefined)
  const lists = []
  function ch(cb) {
    const T = (t, init) => { if (init) init({}) }
    const E = (tag, g, init, c) => { init({}, true); ch(c) }
    const B = (k, f) => ch(f)
    const itemsOf = (list) => (Array.isArray(list) ? list.map((x, i) => [x, i]) : list && typeof list === 'object' ? Object.keys(list).map((k) => [list[k], k]) : [])
    const F = (list, key, tree, lpath, cb2) => { lists.push([list, lpath]); for (const [it, ix] of itemsOf(list)) ch((isC, T_, E_, B_, F_, S_, J_) => cb2(true, it, ix, undefined, undefined, lpath ? [...lpath, ix] : null, T_, E_, B_, F_, S_, J_)) }
    const S = (n, init) => { if (init) init({}) }
    const J = (c) => ch(c)
    cb(true, T, E, B, F, S, J, undefined, undefined)
  }
  ch(res.C)
  return { sites, lists }
}
function setPath(data, path, v) { let cur = data; for (let i = 0; i < path.length - 1; i++) { cur = cur[path[i]]; if (cur === null || cur === undefined) return false } cur[path[path.length - 1]] = v; return true }
let found = null
for (const cv of [true, false, { k: 1 }, { k: 0 }]) {
  const r0 = render(mkData(cv))
  const models = r0.sites.filter((s) => s[0] === 'r' && s[1] === 'value')
  models.forEach((s, idx) => {
    if (found) return
    const path = s[3]
    if (path === undefined || path === null) return
    const d1 = mkData(cv)
    if (!Array.isArray(path)) { found = 'model path is not an array: ' + JSON.stringify(path); return }
    if (!setPath(d1, path, 'SENTINEL')) { found = 'emitted path ' + JSON.stringify(path) + ' does not exist in the data'; return }
    const r1 = render(d1)
    const m1 = r1.sites.filter((x) => x[0] === 'r' && x[1] === 'value')
    if (!m1[idx] || m1[idx][2] !== 'SENTINEL') found = 'get-put fails: wrote SENTINEL at ' + JSON.stringify(path) + ', the binding then reads ' + JSON.stringify(m1[idx] && m1[idx][2]) + ' (condition data c=' + JSON.stringify(cv) + ')'
  })
  r0.lists.forEach((l, idx) => {
    if (found) return
    const lpath = l[1]
    if (lpath === null || lpath === undefined) return
    if (lpath[0] !== 0) { found = 'list path without the data prefix 0: ' + JSON.stringify(lpath); return }
    const d1 = mkData(cv)
    const sentinel = [{ x: 'S', y: 'S', sub: [] }]
    if (!setPath(d1, lpath.slice(1), sentinel)) { found = 'list path ' + JSON.stringify(lpath) + ' does not exist in the data'; return }
    const r1 = render(d1)
    if (!r1.lists[idx] || r1.lists[idx][0] !== sentinel) found = 'get-put fails for the wx:for list path ' + JSON.stringify(lpath)
  })
  // script references: R.v / R.p paths must be [2, <template path>, <module>, member...]
  r0.sites.filter((s) => s[0] === 'v' || s[0] === 'p').forEach((s) => {
    if (found) return
    const path = s[0] === 'v' ? s[7] : s[3]
    if (path !== undefined && path !== null && !(Array.isArray(path) && path[0] === 2 && path[1] === 'a' && path[2] === 'm')) found = 'script reference path ' + JSON.stringify(path)
  })
  if (found) break
}
console.log(JSON.stringify({ found }))
