"""Symbolic interpreter for the emitted JavaScript subset + the SMT value model (DESIGN 3.3).

Data values are terms of the z3 datatype V; operators that belong to JavaScript (arithmetic, comparison, property read,
call, String()) are uninterpreted functions shared by the generated side and the reference side; what the *compiler* is
responsible for (which operands, which order, null-safety, truthiness tests, ?: && || ??) is interpreted."""
import itertools
import z3

from .jsparse import JsUnsupported, parse_program

# ------------------------------------------------------------------------------------------------ value sort
V = z3.Datatype('V')
V.declare('Undef')
V.declare('Null')
V.declare('NaN')
V.declare('Bool', ('b', z3.BoolSort()))
V.declare('Num', ('n', z3.RealSort()))
V.declare('Str', ('s', z3.StringSort()))
V.declare('Obj', ('id', z3.IntSort()))
V = V.create()
UNDEF, NULLV, NANV = V.Undef, V.Null, V.NaN
EMPTY = V.Obj(z3.IntVal(-1))        # what X() returns for null/undefined: Object.create(null)
NOOP = V.Obj(z3.IntVal(-2))         # what P() returns for a non-function: ()=>{}
HOLE = V.Obj(z3.IntVal(-3))         # marker for an array hole inside array terms
ARR_EMPTY = V.Obj(z3.IntVal(-4))
OBJ_EMPTY = V.Obj(z3.IntVal(-5))

get = z3.Function('get', V, V, V)
tostr = z3.Function('String', V, V)
typeof_ = z3.Function('typeof', V, V)
arr_push = z3.Function('arr_push', V, V, V)
arr_spread = z3.Function('arr_spread', V, V, V)
obj_set = z3.Function('obj_set', V, V, V, V)
obj_spread = z3.Function('obj_spread', V, V, V)
any_truthy = z3.Function('any_value_truthy', V, z3.BoolSort())
any_value = z3.Function('any_value_of', V, V)
call_fns = {}
bin_fns = {}
un_fns = {}


def callf(k):
    if k not in call_fns:
        call_fns[k] = z3.Function('call%d' % k, *([V] * (k + 3)))      # callee, this, k args -> V
    return call_fns[k]


def binf(op):
    if op not in bin_fns:
        bin_fns[op] = z3.Function('op_' + {'+': 'add', '-': 'sub', '*': 'mul', '/': 'div', '%': 'rem', '**': 'pow', '<': 'lt', '>': 'gt',
                                           '<=': 'le', '>=': 'ge', '==': 'looseeq', '!=': 'loosene', '&': 'band', '|': 'bor', '^': 'bxor',
                                           '<<': 'shl', '>>': 'shr', '>>>': 'ushr', 'instanceof': 'instanceof', 'in': 'in'}[op], V, V, V)
    return bin_fns[op]


def unf(op):
    if op not in un_fns:
        un_fns[op] = z3.Function('un_' + {'-': 'neg', '+': 'pos', '~': 'bnot'}[op], V, V)
    return un_fns[op]


def is_v(x):
    return isinstance(x, z3.ExprRef) and x.sort() == V


def truthy_t(t):
    return z3.And(t != UNDEF, t != NULLV, t != NANV,
                  z3.Not(z3.And(V.is_Bool(t), z3.Not(V.b(t)))),
                  z3.Not(z3.And(V.is_Num(t), V.n(t) == 0)),
                  z3.Not(z3.And(V.is_Str(t), V.s(t) == z3.StringVal(''))))


def nullish_t(t):
    return z3.Or(t == UNDEF, t == NULLV)


def strict_eq_t(a, b):
    return z3.And(a == b, a != NANV)


# ------------------------------------------------------------------------------------------------ concrete / structured values
class _Undef:
    def __repr__(self):
        return 'undefined'


class _Null:
    def __repr__(self):
        return 'null'


UNDEFINED, NULL = _Undef(), _Null()


class Closure:
    __slots__ = ('params', 'body', 'env', 'name')

    def __init__(self, params, body, env, name=None):
        self.params, self.body, self.env, self.name = params, body, env, name


class Native:
    __slots__ = ('name', 'fn')

    def __init__(self, name, fn):
        self.name, self.fn = name, fn

    def __repr__(self):
        return 'native:' + self.name


class JObj:
    """object created by the generated code itself (identity semantics)"""
    _n = itertools.count(1)

    def __init__(self, props=None, tag=None):
        self.props = dict(props or {})
        self.order = list(self.props)
        self.tag = tag
        self.uid = next(JObj._n)
        self.null_proto = False

    def set(self, k, v):
        if k not in self.props:
            self.order.append(k)
        self.props[k] = v

    def __repr__(self):
        return 'JObj(%s)' % ', '.join('%s: %r' % (k, self.props[k]) for k in self.order)


class JArr:
    def __init__(self, items=None):
        self.items = list(items or [])      # HOLE_PY for holes

    def __repr__(self):
        return 'JArr%r' % (self.items,)


class _Hole:
    def __repr__(self):
        return '<hole>'


HOLE_PY = _Hole()


class ArrLit:
    """data-level array value in canonical form: segments ('elems', [values/HOLE_PY]) | ('spread', value)"""

    def __init__(self, segs):
        out = []
        for kind, x in segs:
            if kind == 'elems':
                if not x:
                    continue
                if out and out[-1][0] == 'elems':
                    out[-1] = ('elems', out[-1][1] + list(x))
                else:
                    out.append(('elems', list(x)))
            else:
                out.append((kind, x))
        self.segs = out

    def __repr__(self):
        return 'ArrLit%r' % (self.segs,)


class ObjLit:
    """data-level object value in canonical form: segments ('props', [(key, value)]) | ('spread', value)"""

    def __init__(self, segs):
        out = []
        for kind, x in segs:
            if kind == 'props':
                if not x:
                    continue
                if out and out[-1][0] == 'props':
                    out[-1] = ('props', out[-1][1] + list(x))
                else:
                    out.append(('props', list(x)))
            else:
                out.append((kind, x))
        self.segs = out

    def __repr__(self):
        return 'ObjLit%r' % (self.segs,)


class StrCat:
    """string concatenation in normal form: list of parts (python str | string-typed terms); association does not matter"""

    def __init__(self, parts):
        out = []
        for p in parts:
            if isinstance(p, StrCat):
                ps = p.parts
            else:
                ps = [p]
            for q in ps:
                if isinstance(q, str) and out and isinstance(out[-1], str):
                    out[-1] = out[-1] + q
                elif isinstance(q, str) and q == '':
                    continue
                else:
                    out.append(q)
        self.parts = out

    def __repr__(self):
        return 'StrCat%r' % (self.parts,)


def stringy(v):
    if isinstance(v, (str, StrCat)):
        return True
    if is_v(v):
        if z3.is_app(v) and v.decl().name() == 'String':
            return True
        if z3.is_app(v) and v.decl().kind() == z3.Z3_OP_ITE:
            return stringy(v.arg(1)) and stringy(v.arg(2))
        if z3.is_app(v) and v.decl().name() == 'Str':
            return True
    return False


class Interp:
    def __init__(self):
        self.pc = []                 # stack of z3 Bools (symbolic branch conditions)
        self.axioms = []
        self.records = []            # protocol records appended by natives
        self.fresh = itertools.count()
        self.steps = 0
        self.closure_ids = {}
        self.ret_stack = []

    # ---------------------------------------------------------------- conversions
    def term(self, v):
        """JS value -> z3 V term"""
        if is_v(v):
            return v
        if v is UNDEFINED or v is None:
            return UNDEF
        if v is NULL:
            return NULLV
        if isinstance(v, bool):
            return V.Bool(z3.BoolVal(v))
        if isinstance(v, (int, float)):
            if v != v:
                return NANV
            if v in (float('inf'), float('-inf')):
                return V.Num(z3.RealVal(10 ** 400 if v > 0 else -10 ** 400))
            from fractions import Fraction
            if isinstance(v, int) and abs(v) > 2 ** 53:
                v = float(v)          # a JavaScript number literal denotes the nearest double
            fr = Fraction(v)
            return V.Num(z3.RealVal(fr.numerator) / z3.RealVal(fr.denominator) if fr.denominator != 1 else z3.RealVal(fr.numerator))
        if isinstance(v, str):
            return V.Str(z3.StringVal(v))
        if isinstance(v, StrCat):
            if not v.parts:
                return V.Str(z3.StringVal(''))
            acc = self.term(v.parts[0])
            for p in v.parts[1:]:
                acc = binf('+')(acc, self.term(p))
            return acc
        if isinstance(v, ArrLit):
            acc = ARR_EMPTY
            for kind, x in v.segs:
                if kind == 'elems':
                    for e in x:
                        acc = arr_push(acc, HOLE if e is HOLE_PY else self.term(e))
                else:
                    acc = arr_spread(acc, self.term(x))
            return acc
        if isinstance(v, ObjLit):
            acc = OBJ_EMPTY
            for kind, x in v.segs:
                if kind == 'props':
                    for k, e in x:
                        acc = obj_set(acc, self.term(k), self.term(e))
                else:
                    acc = obj_spread(acc, self.term(x))
            return acc
        if isinstance(v, JArr):
            return self.term(ArrLit([('elems', v.items)]))
        if isinstance(v, JObj):
            if v.null_proto and not v.props:
                return EMPTY
            return self.term(ObjLit([('props', [(k, v.props[k]) for k in v.order])]))
        if isinstance(v, tuple) and v and v[0] == 'anyvalue':
            return any_value(self.term(v[1]))
        if isinstance(v, CondVal):
            return z3.If(v.c, self.term(v.a), self.term(v.b))
        if isinstance(v, (Closure, Native)):
            key = id(v)
            if key not in self.closure_ids:
                self.closure_ids[key] = 1000 + len(self.closure_ids)
            return V.Obj(z3.IntVal(self.closure_ids[key]))
        raise JsUnsupported('cannot convert %r to a data value' % (v,))

    def truthy(self, v):
        """-> python bool or z3 Bool"""
        if is_v(v):
            t = z3.simplify(truthy_t(v))
            if z3.is_true(t):
                return True
            if z3.is_false(t):
                return False
            return t
        if isinstance(v, z3.BoolRef):
            return v
        if isinstance(v, tuple) and v and v[0] == 'anyvalue':
            return any_truthy(self.term(v[1]))
        if isinstance(v, CondVal):
            a, b = self.truthy(v.a), self.truthy(v.b)
            if a is b and isinstance(a, bool):
                return a
            tb = lambda x: z3.BoolVal(x) if isinstance(x, bool) else x
            return z3.simplify(z3.If(v.c, tb(a), tb(b)))
        if v is UNDEFINED or v is NULL or v is None:
            return False
        if isinstance(v, bool):
            return v
        if isinstance(v, (int, float)):
            return v == v and v != 0
        if isinstance(v, str):
            return v != ''
        if isinstance(v, StrCat):
            return z3.Or([self.truthy(p) if not isinstance(self.truthy(p), bool) else z3.BoolVal(self.truthy(p)) for p in v.parts])
        return True

    def typeof_term(self, t):
        r = typeof_(t)
        S = lambda s: V.Str(z3.StringVal(s))
        self.axioms += [z3.Implies(t == UNDEF, r == S('undefined')), z3.Implies(t == NULLV, r == S('object')), z3.Implies(V.is_Bool(t), r == S('boolean')),
                        z3.Implies(z3.Or(V.is_Num(t), t == NANV), r == S('number')), z3.Implies(V.is_Str(t), r == S('string')),
                        z3.Implies(t == EMPTY, r == S('object')), z3.Implies(t == NOOP, r == S('function'))]
        return r

    def get_axioms(self, g, base, key):
        self.axioms.append(g != EMPTY)
        self.axioms.append(get(EMPTY, key) == UNDEF)

    def member(self, obj, key):
        """property read obj[key]; key is a JS value"""
        if isinstance(obj, JObj) and obj.null_proto and not obj.props:
            return UNDEFINED          # Object.create(null) has no properties at all
        if isinstance(obj, JObj):
            if isinstance(key, str):
                if key in obj.props:
                    return obj.props[key]
                return UNDEFINED
            if is_v(key):
                # dynamic key on a generated object (template lookup `S[P]`): decided by the caller
                raise JsUnsupported('symbolic key on generated object')
            return obj.props.get(str(key), UNDEFINED)
        if isinstance(obj, JArr):
            if isinstance(key, str) and key == 'length':
                return len(obj.items)
            if isinstance(key, int):
                if 0 <= key < len(obj.items):
                    x = obj.items[key]
                    return UNDEFINED if x is HOLE_PY else x
                return UNDEFINED
            if isinstance(key, str) and key in ('concat', 'slice'):
                return Native('Array.' + key, lambda it, this, args, _k=key, _o=obj: it.array_method(_o, _k, args))
            if is_v(key):
                return get(self.term(obj), key)
            kt = self.term(key)
            g = get(self.term(obj), kt)
            self.get_axioms(g, None, kt)
            return g
        if isinstance(obj, ArrLit):
            if isinstance(key, str) and key in ('concat', 'slice'):
                return Native('Array.' + key, lambda it, this, args, _k=key, _o=obj: it.array_method(_o, _k, args))
        if isinstance(obj, CondVal) and isinstance(key, str) and key in ('concat', 'slice'):
            return Native('Array.' + key, lambda it, this, args, _k=key, _o=obj: it.array_method(_o, _k, args))
        if isinstance(obj, (Closure, Native)):
            if key == 'call':
                return Native('Function.call', lambda it, this, args, _f=obj: it.call(_f, args[1:], args[0] if args else UNDEFINED))
            if key == 'apply':
                return Native('Function.apply', lambda it, this, args, _f=obj: it.call(_f, list(args[1].items) if len(args) > 1 else [], args[0] if args else UNDEFINED))
            raise JsUnsupported('member %r of function' % (key,))
        if isinstance(obj, CondVal):
            self.pc.append(obj.c)
            a = self.member(obj.a, key)
            self.pc.pop()
            self.pc.append(z3.Not(obj.c))
            b = self.member(obj.b, key)
            self.pc.pop()
            return self.ite(obj.c, a, b)
        if obj is UNDEFINED or obj is NULL:
            if self.pc:
                # on a path that JavaScript never takes if the condition is false; recorded so that a reachable throw is seen
                self.records.append(('throw-member', key, list(self.pc)))
                return UNDEFINED
            raise JsUnsupported('member %r of %r (would throw)' % (key, obj))
        if isinstance(obj, bool) or (isinstance(obj, (int, float)) and not isinstance(obj, bool)):
            return UNDEFINED
        if isinstance(obj, str) and key == 'length':
            return len(obj)
        base = self.term(obj)
        kt = self.term(key)
        g = get(base, kt)
        self.get_axioms(g, base, kt)
        return g

    def array_method(self, obj, name, args):
        if name == 'concat' and isinstance(obj, CondVal):
            # (c ? p : q).concat(x): both alternatives are arrays here (the generator parenthesises a conditional path before the tail)
            return CondVal(obj.c, self.array_method(obj.a, name, args), self.array_method(obj.b, name, args))
        if name == 'concat':
            segs = self.segs_of(obj)
            for a in args:
                segs += self.segs_of(a, as_concat_arg=True)
            if all(k == 'elems' for k, _ in segs):
                flat = []
                for _, x in segs:
                    flat += x
                return JArr(flat)
            return ArrLit(segs)
        if name == 'slice' and isinstance(obj, CondVal):
            return CondVal(obj.c, self.array_method(obj.a, name, args), self.array_method(obj.b, name, args))
        if name == 'slice':
            if isinstance(obj, (JArr, ArrLit)):
                segs = self.segs_of(obj)
                if len(segs) <= 1 and all(k == 'elems' for k, _ in segs) and args and isinstance(args[0], int):
                    items = segs[0][1] if segs else []
                    return JArr(items[args[0]:])
                return SlicedArr(obj, args[0] if args else 0)
        raise JsUnsupported('array method ' + name)

    def segs_of(self, v, as_concat_arg=False):
        if isinstance(v, JArr):
            return [('elems', list(v.items))]
        if isinstance(v, ArrLit):
            return list(v.segs)
        if as_concat_arg:
            # [].concat(x): x is spread if it is an array, appended as one element otherwise; the generator only uses it
            # for spreads, and the reference treats `...x` the same way (non-array iterables are outside the claim)
            return [('spread', v)]
        raise JsUnsupported('not an array: %r' % (v,))

    # ---------------------------------------------------------------- statements
    def run_program(self, src, globals_):
        ast = parse_program(src)
        env = Env(None)
        for k, v in globals_.items():
            env.declare(k, v)
        self.hoist(ast, env)
        last = UNDEFINED
        for st in ast:
            r = self.exec(st, env)
            if st[0] == 'expr':
                last = self.last_value
        return last, env

    def hoist(self, stmts, env):
        for st in stmts:
            if st[0] == 'var':
                for name, _ in st[1]:
                    if not env.has_local(name):
                        env.declare(name, UNDEFINED)
            elif st[0] == 'block':
                self.hoist(st[1], env)
            elif st[0] == 'if':
                self.hoist([st[2]], env)
                if st[3] is not None:
                    self.hoist([st[3]], env)
            elif st[0] == 'for':
                if st[1] is not None:
                    self.hoist([st[1]], env)
                self.hoist([st[4]], env)

    last_value = UNDEFINED

    def exec(self, st, env):
        """executes a statement; returns True if a (concrete) return was executed on the current path"""
        self.steps += 1
        if self.steps > 400000:
            raise JsUnsupported('step bound exceeded')
        k = st[0]
        if k == 'empty':
            return False
        if k == 'expr':
            self.last_value = self.eval(st[1], env)
            return False
        if k == 'var':
            for name, init in st[1]:
                if init is not None:
                    v = self.eval(init, env)
                    if isinstance(v, Closure) and v.name is None:
                        v.name = name
                    env.assign_local(name, v)
            return False
        if k == 'block':
            for s in st[1]:
                if self.exec(s, env):
                    return True
            return False
        if k == 'return':
            v = self.eval(st[1], env) if st[1] is not None else UNDEFINED
            base = self.ret_base[-1]
            cond = [c for c in self.pc[base:] if not z3.is_true(c)]
            self.ret_stack[-1].append((cond, v))
            # "not yet returned" slot of this function: paths that reach here are gone afterwards
            rel = [c for c in self.pc[base + 1:] if not z3.is_true(c)]
            if rel:
                self.pc[base] = z3.And(self.pc[base], z3.Not(z3.And(rel)))
            return True
        if k == 'if':
            c = self.truthy(self.eval(st[1], env))
            if c is True:
                return self.exec(st[2], env)
            if c is False:
                return self.exec(st[3], env) if st[3] is not None else False
            # symbolic condition: both branches, each under its path condition
            self.pc.append(c)
            r1 = self.exec(st[2], env)
            self.pc.pop()
            self.pc.append(z3.Not(c))
            r2 = self.exec(st[3], env) if st[3] is not None else False
            self.pc.pop()
            return bool(r1 and r2)
        if k == 'for':
            if st[1] is not None:
                self.exec(st[1], env)
            n = 0
            while True:
                if st[2] is not None:
                    c = self.truthy(self.eval(st[2], env))
                    if c is False:
                        break
                    if c is not True:
                        raise JsUnsupported('for loop with symbolic condition')
                r = self.exec(st[4], env)
                if r is True:
                    return True
                if st[3] is not None:
                    self.eval(st[3], env)
                n += 1
                if n > 64:
                    raise JsUnsupported('loop bound exceeded')
            return False
        if k == 'throw':
            self.records.append(('throw', self.eval(st[1], env), list(self.pc)))
            return True
        raise JsUnsupported('statement ' + k)

    ret_base = [0]

    def exec_body(self, body, env):
        """run a function body; returns the merged return value"""
        self.ret_stack.append([])
        self.ret_base.append(len(self.pc))
        self.pc.append(z3.BoolVal(True))          # the "not yet returned" slot
        for st in body:
            if self.exec(st, env) is True:
                break
        del self.pc[self.ret_base[-1]:]
        rets = self.ret_stack.pop()
        self.ret_base.pop()
        if not rets:
            return UNDEFINED
        if len(rets) == 1 and not rets[0][0]:
            return rets[0][1]
        if any(isinstance(v, (Closure, Native, JObj, JArr, ArrLit, ObjLit, CondVal)) for _, v in rets):
            out = UNDEFINED
            for cond, v in reversed(rets):
                out = CondVal(z3.And(cond) if cond else z3.BoolVal(True), v, out)
            return out
        out = UNDEF
        for cond, v in reversed(rets):
            c = z3.And(cond) if cond else z3.BoolVal(True)
            out = z3.If(c, self.term(v), out)
        return z3.simplify(out)

    # ---------------------------------------------------------------- expressions
    def eval(self, e, env):
        k = e[0]
        if k == 'num':
            return e[1]
        if k == 'str':
            return e[1]
        if k == 'bool':
            return e[1]
        if k == 'null':
            return NULL
        if k == 'id':
            if e[1] == 'undefined':
                return UNDEFINED
            return env.lookup(e[1])
        if k == 'fn':
            return Closure(e[1], e[2], env)
        if k == 'seq':
            v = UNDEFINED
            for x in e[1]:
                v = self.eval(x, env)
            return v
        if k == 'arr':
            vals = []
            for it in e[1]:
                if it is None:
                    vals.append(('hole',))
                elif it[0] == 'spread':
                    vals.append(('spread', self.eval(it[1], env)))
                else:
                    vals.append(('elem', self.eval(it, env)))
            return self.build_array(vals)
        if k == 'obj':
            if any(p[0] == 'spread' for p in e[1]):
                segs, cur = [], []
                for p in e[1]:
                    if p[0] == 'spread':
                        segs.append(('props', cur))
                        cur = []
                        segs.append(('spread', self.eval(p[1], env)))
                    else:
                        cur.append((p[0], self.eval(p[1], env)))
                segs.append(('props', cur))
                return ObjLit(segs)
            o = JObj()
            for key, ve in e[1]:
                o.set(key, self.eval(ve, env))
            return o
        if k == 'member':
            return self.member(self.eval(e[1], env), e[2])
        if k == 'index':
            o = self.eval(e[1], env)
            key = self.eval(e[2], env)
            return self.member(o, key)
        if k == 'call':
            return self.eval_call(e, env)
        if k == 'new':
            callee = e[1]
            args = [self.eval(a, env) for a in e[2]]
            if callee == ('id', 'Array') and len(args) == 1 and isinstance(args[0], int):
                return JArr([HOLE_PY] * args[0])
            if callee == ('id', 'Error'):
                return JObj({'message': args[0] if args else ''}, 'Error')
            raise JsUnsupported('new %r' % (callee,))
        if k == 'assign':
            v = self.eval(e[2], env)
            self.assign(e[1], v, env)
            return v
        if k == 'update':
            cur = self.eval(e[2], env)
            if not isinstance(cur, int):
                raise JsUnsupported('++ on non-concrete value')
            new = cur + (1 if e[1] == '++' else -1)
            self.assign(e[2], new, env)
            return new if e[3] else cur
        if k == 'cond':
            c = self.truthy(self.eval(e[1], env))
            if c is True:
                return self.eval(e[2], env)
            if c is False:
                return self.eval(e[3], env)
            self.pc.append(c)
            a = self.eval(e[2], env)
            self.pc.pop()
            self.pc.append(z3.Not(c))
            b = self.eval(e[3], env)
            self.pc.pop()
            return self.ite(c, a, b)
        if k == 'logical':
            op = e[1]
            a = self.eval(e[2], env)
            if op == '??':
                if is_v(a):
                    c = z3.simplify(nullish_t(a))
                    if z3.is_true(c):
                        return self.eval(e[3], env)
                    if z3.is_false(c):
                        return a
                    self.pc.append(c)
                    b = self.eval(e[3], env)
                    self.pc.pop()
                    return self.ite(c, b, a)
                return self.eval(e[3], env) if (a is UNDEFINED or a is NULL) else a
            c = self.truthy(a)
            if op == '&&':
                if c is True:
                    return self.eval(e[3], env)
                if c is False:
                    return a
                self.pc.append(c)
                b = self.eval(e[3], env)
                self.pc.pop()
                return self.ite(c, b, a)
            if op == '||':
                if c is True:
                    return a
                if c is False:
                    return self.eval(e[3], env)
                self.pc.append(z3.Not(c))
                b = self.eval(e[3], env)
                self.pc.pop()
                return self.ite(c, a, b)
        if k == 'unary':
            op = e[1]
            if op == 'typeof' and e[2][0] == 'member':
                pass
            v = self.eval(e[2], env)
            if op == '!':
                c = self.truthy(v)
                if isinstance(c, bool):
                    return not c
                return V.Bool(z3.Not(c))
            if op == 'void':
                return UNDEFINED
            if op == 'typeof':
                if isinstance(v, (Closure, Native)):
                    return 'function'
                if v is UNDEFINED:
                    return 'undefined'
                if isinstance(v, (JObj, JArr, ArrLit, ObjLit)) or v is NULL:
                    return 'object'
                if isinstance(v, (str, StrCat)):
                    return 'string'
                if isinstance(v, bool):
                    return 'boolean'
                if isinstance(v, (int, float)):
                    return 'number'
                return self.typeof_term(self.term(v))
            if op == '-' and isinstance(v, (int, float)) and not isinstance(v, bool):
                return -v
            if op == '+' and isinstance(v, (int, float)) and not isinstance(v, bool):
                return v
            return unf(op)(self.term(v))
        if k == 'binary':
            return self.binary(e[1], self.eval(e[2], env), self.eval(e[3], env))
        raise JsUnsupported('expression ' + k)

    def build_array(self, vals):
        for n, v in enumerate(vals):
            if v[0] == 'spread' and isinstance(v[1], CondVal):
                cv = v[1]
                a = self.build_array(vals[:n] + [('spread', cv.a)] + vals[n + 1:])
                b = self.build_array(vals[:n] + [('spread', cv.b)] + vals[n + 1:])
                return CondVal(cv.c, a, b)
        segs, cur, symbolic = [], [], False
        for v in vals:
            if v[0] == 'hole':
                cur.append(HOLE_PY)
            elif v[0] == 'elem':
                cur.append(v[1])
            else:
                sv = v[1]
                if isinstance(sv, JArr):
                    cur += list(sv.items)
                elif isinstance(sv, ArrLit):
                    segs.append(('elems', cur))
                    cur = []
                    segs += sv.segs
                    symbolic = symbolic or any(k != 'elems' for k, _ in sv.segs)
                else:
                    segs.append(('elems', cur))
                    cur = []
                    segs.append(('spread', sv))
                    symbolic = True
        segs.append(('elems', cur))
        if not symbolic:
            flat = []
            for k, x in segs:
                flat += x
            return JArr(flat)
        return ArrLit(segs)

    def data_like(self, v):
        if isinstance(v, JObj) and v.null_proto and not v.props:
            return EMPTY
        if isinstance(v, Closure) and not v.params and not v.body:
            return NOOP
        return v

    def ite(self, c, a, b):
        a, b = self.data_like(a), self.data_like(b)
        if a is b:
            return a
        if isinstance(a, (Closure, Native, JObj)) or isinstance(b, (Closure, Native, JObj)):
            return CondVal(c, a, b)
        if isinstance(a, (JArr, ArrLit, ObjLit, CondVal)) or isinstance(b, (JArr, ArrLit, ObjLit, CondVal)):
            return CondVal(c, a, b)
        return z3.If(c, self.term(a), self.term(b))

    def binary(self, op, a, b):
        if isinstance(a, CondVal):
            return self.ite(a.c, self.binary(op, a.a, b), self.binary(op, a.b, b))
        if isinstance(b, CondVal):
            return self.ite(b.c, self.binary(op, a, b.a), self.binary(op, a, b.b))
        conc = lambda x: isinstance(x, (int, float, str, bool)) or x is UNDEFINED or x is NULL
        if op in ('===', '!=='):
            if conc(a) and conc(b):
                r = (type(a) == type(b) or (isinstance(a, (int, float)) and isinstance(b, (int, float)) and not isinstance(a, bool) and not isinstance(b, bool))) and a == b if not (a is UNDEFINED or a is NULL or b is UNDEFINED or b is NULL) else a is b
                return r if op == '===' else not r
            if isinstance(a, (Closure, Native, JObj, JArr, ArrLit, ObjLit)) or isinstance(b, (Closure, Native, JObj, JArr, ArrLit, ObjLit)):
                r = a is b           # a freshly built object is identical only to itself
                return r if op == '===' else not r
            t = strict_eq_t(self.term(a), self.term(b))
            return V.Bool(t if op == '===' else z3.Not(t))
        if op in ('==', '!=') and (b is NULL or b is UNDEFINED or a is NULL or a is UNDEFINED):
            x = a if (b is NULL or b is UNDEFINED) else b
            if conc(x):
                r = x is NULL or x is UNDEFINED
                return r if op == '==' else not r
            if isinstance(x, (Closure, Native, JObj, JArr, ArrLit, ObjLit, StrCat)):
                return op != '=='
            t = nullish_t(self.term(x))
            return V.Bool(t if op == '==' else z3.Not(t))
        if op == '+' and stringy(a) and stringy(b):
            r = StrCat([a, b])      # concatenation of two strings: kept in a normal form that ignores association
            if len(r.parts) == 1 and isinstance(r.parts[0], str):
                return r.parts[0]
            if not r.parts:
                return ''
            return r
        if isinstance(a, (int, float)) and isinstance(b, (int, float)) and not isinstance(a, bool) and not isinstance(b, bool):
            if op == '+':
                return a + b
            if op == '-':
                return a - b
            if op == '<':
                return a < b
            if op == '>':
                return a > b
            if op == '<=':
                return a <= b
            if op == '>=':
                return a >= b
            if op == '*':
                return a * b
        return binf(op)(self.term(a), self.term(b))

    def assign(self, target, v, env):
        if target[0] == 'id':
            env.assign(target[1], v)
            return
        if target[0] in ('member', 'index'):
            o = self.eval(target[1], env)
            key = target[2] if target[0] == 'member' else self.eval(target[2], env)
            if isinstance(o, JObj):
                if not isinstance(key, (str, int)):
                    raise JsUnsupported('assignment with symbolic key')
                o.set(str(key) if not isinstance(key, str) else key, v)
                return
            if isinstance(o, JArr):
                if isinstance(key, int):
                    while len(o.items) <= key:
                        o.items.append(HOLE_PY)
                    o.items[key] = v
                    return
            raise JsUnsupported('assignment to member of %r' % (o,))
        raise JsUnsupported('assignment target')

    def eval_call(self, e, env):
        callee = e[1]
        this = UNDEFINED
        if callee[0] == 'member':
            this = self.eval(callee[1], env)
            f = self.member(this, callee[2])
        elif callee[0] == 'index':
            this = self.eval(callee[1], env)
            f = self.member(this, self.eval(callee[2], env))
        else:
            f = self.eval(callee, env)
        args = []
        for a in e[2]:
            if a[0] == 'spread':
                sv = self.eval(a[1], env)
                if isinstance(sv, JArr):
                    args += [UNDEFINED if x is HOLE_PY else x for x in sv.items]
                else:
                    raise JsUnsupported('spread argument of %r' % (sv,))
            else:
                args.append(self.eval(a, env))
        return self.call(f, args, this)

    def call(self, f, args, this=UNDEFINED):
        if isinstance(f, Closure):
            env = Env(f.env)
            for i, p in enumerate(f.params):
                env.declare(p, args[i] if i < len(args) else UNDEFINED)
            env.declare('this', this)
            self.hoist(f.body, env)
            return self.exec_body(f.body, env)
        if isinstance(f, Native):
            return f.fn(self, this, args)
        if isinstance(f, JObj) and '__call__' in f.props:
            return self.call(f.props['__call__'], args, this)
        if isinstance(f, CondVal):
            # calling a conditionally chosen function: run both under their conditions
            self.pc.append(f.c)
            a = self.call(f.a, args, this) if not (f.a is UNDEFINED) else UNDEFINED
            self.pc.pop()
            self.pc.append(z3.Not(f.c))
            b = self.call(f.b, args, this) if not (f.b is UNDEFINED) else UNDEFINED
            self.pc.pop()
            return self.ite(f.c, a, b)
        if is_v(f):
            t = callf(len(args))(f, self.term(this) if is_v(this) else UNDEF, *[self.term(a) for a in args])
            # calling NOOP (what P() substitutes for non-functions) yields undefined
            self.axioms.append(callf(len(args))(NOOP, self.term(this) if is_v(this) else UNDEF, *[self.term(a) for a in args]) == UNDEF)
            return t
        raise JsUnsupported('call of %r' % (f,))


class CondVal:
    __slots__ = ('c', 'a', 'b')

    def __init__(self, c, a, b):
        self.c, self.a, self.b = c, a, b


class SlicedArr:
    def __init__(self, base, start):
        self.base, self.start = base, start


class Env:
    __slots__ = ('vars', 'parent')

    def __init__(self, parent):
        self.vars = {}
        self.parent = parent

    def declare(self, name, v):
        self.vars[name] = v

    def has_local(self, name):
        return name in self.vars

    def assign_local(self, name, v):
        self.vars[name] = v

    def lookup(self, name):
        e = self
        while e is not None:
            if name in e.vars:
                return e.vars[name]
            e = e.parent
        raise JsUnsupported('unbound identifier ' + name)

    def assign(self, name, v):
        e = self
        while e is not None:
            if name in e.vars:
                e.vars[name] = v
                return
            e = e.parent
        raise JsUnsupported('assignment to undeclared identifier ' + name)
