// hooks for sc_root (included into the repo crate under cfg(any(kani, glass_easel_verif)))
