#!/bin/bash
# bin/verify_seed_in.sh <worktree> <seed dir inside or outside it>  ->  VERIFIED / REJECTED
# Like verify_seed.sh, but in a given scratch worktree of /repo (e.g. the author's, with a warm target dir).  Never /repo itself.
set -u
WT=$(realpath "$1"); SRC=$(realpath "$2")
case "$WT" in /repo|/repo/*|/verif|/verif/*) echo "refusing to work in $WT"; exit 3;; esac
export CARGO_NET_OFFLINE=true
cd $WT || exit 3
git checkout -q -- . 
rm -rf $WT/seed_out; cp -r "$SRC" $WT/seed_out; chmod +x $WT/seed_out/run.sh
git apply seed_out/patch.diff || { echo "REJECTED patch does not apply"; exit 1; }
T=$(CARGO_TARGET_DIR=$WT/target cargo test -j 6 --workspace --offline 2>&1 | grep -E "^test result" | awk '{p+=$4; f+=$6} END {print p" passed "f" failed"}')
seed_out/run.sh > seed_out/with.log 2>&1; W=$?
git apply -R seed_out/patch.diff
seed_out/run.sh > seed_out/without.log 2>&1; O=$?
git checkout -q -- .
echo "tests_with_patch: $T ; demo_with_patch exit=$W ; demo_without_patch exit=$O"
if [ "$T" = "84 passed 0 failed" ] && [ $W -ne 0 ] && [ $O -eq 0 ]; then echo VERIFIED; else echo REJECTED; fi
