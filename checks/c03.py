"""C03 - binding expressions evaluate with JavaScript semantics.

Engine J (translation validation): every expression form as root x every form as child in every operand position
(depth 2, exhaustively; minimal and full parenthesisation) is compiled by the real compiler; the emitted JavaScript is
executed symbolically (data D symbolic) and z3 decides  value_generated(D) = value_reference(D)  for all D, where the
reference term is built from the model AST with the conventions of the property.  A `sat` is confirmed by running the
real generated code and the reference semantics in node over an edge-value pool before it is reported.
Engine M: literal values of parse_number (M03b) - for every digit string up to the bound the LitInt value is the
mathematical value in its radix.
"""
import json
import random
import time
import z3

from lib import common
from lib.common import Result, log
from jssym import model as M
from jssym.model import L
from jssym.jsparse import JsUnsupported
from jssym.protocol import Runtime
from jssym import driver
from jssym.interp import V

LEAVES = [('id', 'a'), ('id', 'b'), ('id', 'c'), ('id', 'd')]


def atoms():
    return [L('undefined', 'undefined'), L('null', 'null'), L('bool', 'true', True), L('str', "'s'", 's'), L('str', '"q\\n"', 'q\n'),
            L('int', '0', 0), L('int', '7', 7), L('int', '0x1f', 31), L('int', '017', 15), L('int', '089', 89),
            L('int', '9007199254740993', 9007199254740993), L('float', '1.5', 1.5), L('float', '.5', 0.5), L('float', '5.', 5.0),
            L('float', '1e21', 1e21), L('int', '9223372036854775807', 9223372036854775807),
            L('float', '9223372036854775808', 9223372036854775808.0)]


def forms(x, y, z):
    """every expression form over operands x, y, z"""
    out = []
    for op in M.UN_OPS:
        out.append(('un', op, x))
    for op in M.BIN_OPS:
        out.append(('bin', op, x, y))
    out.append(('cond', x, y, z))
    out.append(('mem', x, 'k'))
    out.append(('idx', x, y))
    out.append(('call', x, [y, z]))
    out.append(('call', ('mem', x, 'f'), [y]))
    out.append(('arr', [x, None, y]))
    out.append(('arr', [x, ('spread', y), None, z]))
    out.append(('arr', [None, ('spread', x)]))
    out.append(('obj', [('kv', 'p', x), ('short', 'b'), ('spread', y)]))
    out.append(('obj', [('spread', x), ('kv', 'q', y)]))
    return out


def programs(tier, seed):
    a, b, c, d = LEAVES
    roots = forms(a, b, c)
    progs = []
    # depth 1: every form over leaves and over literals
    for f in roots:
        progs.append(f)
    for lit in atoms():
        progs.append(lit)
        progs.append(('bin', '+', lit, a))
        progs.append(('un', '-', lit))
        progs.append(('mem', lit, 'k') if lit[1] in ('str',) else ('bin', '*', a, lit))
    # depth 2: every form as child in every operand position of every form
    children = forms(b, c, d)
    for ch in children:
        for f in forms(ch, a, a) + forms(a, ch, a) + forms(a, a, ch):
            if contains(f, ch):
                progs.append(f)
    # dedupe by printed text
    seen, out = set(), []
    for p in progs:
        t = M.pr(p)
        if t not in seen:
            seen.add(t)
            out.append(p)
    # depth 3 (operator chains only: unary / binary / conditional), a seeded sample; the quick tier takes fewer
    rnd = random.Random(seed)
    ops = [lambda x, y, z, op=op: ('un', op, x) for op in M.UN_OPS] + [lambda x, y, z, op=op: ('bin', op, x, y) for op in M.BIN_OPS] + \
          [lambda x, y, z, op=op: ('bin', op, y, x) for op in M.BIN_OPS] + [lambda x, y, z: ('cond', x, y, z), lambda x, y, z: ('cond', y, x, z), lambda x, y, z: ('cond', y, z, x)]
    for _ in range(1500 if tier == 'thorough' else 200):
        f1, f2, f3 = rnd.choice(ops), rnd.choice(ops), rnd.choice(ops)
        e = f1(f2(f3(a, b, c), d, a), b, c)
        t = M.pr(e)
        if t not in seen:
            seen.add(t)
            out.append(e)
    return out


def contains(e, sub):
    if e is sub:
        return True
    if isinstance(e, (tuple, list)):
        return any(contains(x, sub) for x in e)
    return False


def wxml_for(expr_text):
    # attribute position: a single binding delivers the raw value
    esc = expr_text.replace('&', '&amp;').replace('"', '&quot;').replace('<', '&lt;')
    return '<view a="{{ %s }}"/>' % esc


def main(tier):
    res = Result('C03', 'translation_validation')
    res.engines = ['J (symbolic execution of the emitted JavaScript + z3 over the value datatype)']
    progs = programs(tier, res.seed)
    spellings = []
    for p in progs:
        spellings.append((p, M.pr(p, full=False)))
        if tier == 'thorough' or (hash(M.pr(p)) + res.seed) % 3 == 0:
            full = M.pr(p, full=True)
            if full != spellings[-1][1]:
                spellings.append((p, full))
    log('[C03] %d model expressions, %d spellings' % (len(progs), len(spellings)))
    t0 = time.time()
    compiled = driver.compile_batch([wxml_for(s) for _, s in spellings], want=('gen_object', 'runtime'))
    log('[C03] compiled in %.1fs' % (time.time() - t0))
    n_ok = n_diag = 0
    sat_items = []
    untranslated = []
    for (p, text), comp in zip(spellings, compiled):
        if 'panic' in comp:
            res.violation({'engine': 'J', 'harness': 'compile', 'class': 'panic'}, 'compiler panics on {{ %s }}: %s' % (text, comp['panic']),
                          {'wxml': wxml_for(text)})
            continue
        bad_diag = [d for d in comp['diagnostics'] if d['level'] >= 3]
        if bad_diag:
            # the parser rejects a well-formed expression: recorded (C15 territory), not a value mismatch
            n_diag += 1
            res.sample({'expr': text, 'rejected': bad_diag[0]['kind']}, limit=40)
            res.coverage.setdefault('rejected_expressions', []).append(text)
            continue
        try:
            rt = Runtime('create')
            H = rt.load(comp['gen_object'], comp['runtime'])
            root = rt.run(H)
        except JsUnsupported as e:
            # probe fallback (DESIGN 10.2): nothing is proved for this program; the real code is compared with the reference in node over
            # the edge pool - a difference is a replayed violation, otherwise the program stays inconclusive
            untranslated.append((p, text, comp, str(e)))
            continue
        hits = driver.find_attr(root, 'a')
        if len(hits) != 1:
            res.inconc('{{ %s }}: %d attribute sites found' % (text, len(hits)))
            continue
        node, attr = hits[0]
        gen = attr[1][1]
        ref = M.RefEval(rt.it, rt.D).ev(p)
        verdict, model, dt = driver.decide_equal(rt.it, gen, ref)
        res.solver_time += dt
        res.query(verdict)
        if verdict == 'unsat':
            n_ok += 1
            if n_ok % 97 == 1:
                res.sample({'expr': text, 'verdict': 'unsat'})
        elif verdict == 'unknown':
            res.inconc('{{ %s }}: solver unknown' % text)
        else:
            sat_items.append((p, text, comp))
    # confirm sat verdicts in node (real generated code vs reference semantics, edge-value pool)
    confirmed = 0
    classes = {}
    gap = {}
    for p, text, comp, why in untranslated[:400]:
        sat_items.append((p, text, comp))
        gap[text] = why
    for p, text, comp, why in untranslated[400:]:
        res.inconc('emitted code for {{ %s }} is outside the translator: %s' % (text, why))
    for p, text, comp in sat_items:
        names = M.free_ids(p)
        envs = driver.env_pool(names, res.seed)
        job = {'mode': 'attr', 'attr': 'a', 'ref': M.js_ref(p), 'envs': envs}
        out = driver.node_eval(comp['gen_object'], comp['runtime'], [job])
        if 'load_error' in out:
            res.violation({'engine': 'J', 'harness': 'C02', 'class': 'syntax'}, 'generated code for {{ %s }} does not load: %s' % (text, out['load_error']),
                          {'wxml': wxml_for(text)})
            continue
        diff = [(e, g, w) for e, (g, w) in zip(envs, out['results'][0]) if g != w]
        res.coverage['disagreements_checked'] = res.coverage.get('disagreements_checked', 0) + 1
        if diff:
            e, g, w = diff[0]
            cls = classify(p)
            classes.setdefault(cls, []).append((text, e, g, w))
        elif text in gap:
            res.inconc('emitted code for {{ %s }} is outside the translator: %s (no difference in node over %d environments)' % (text, gap[text], len(envs)))
        else:
            res.inconc('{{ %s }}: sat in the uninterpreted model but no difference found in node over %d environments' % (text, len(envs)))
    for cls, items in sorted(classes.items()):
        text, e, g, w = items[0]
        res.violation({'engine': 'J', 'harness': 'value', 'class': cls},
                      '{{ %s }} evaluates to %s, JavaScript gives %s for data %s (%d expressions of this class)' % (text, g, w, json.dumps(e), len(items)),
                      {'wxml': wxml_for(text), 'data': e, 'class': cls, 'all': [i[0] for i in items][:20]})
    m03b(res, tier)
    res.coverage.update({'programs': len(spellings), 'disagreements_checked': res.coverage.get('disagreements_checked', 0),
                         'rejected_by_parser': n_diag, 'equivalent': n_ok,
                         'explanation': 'per program the solver decides generated value == reference value for ALL data (operators uninterpreted, null-safety / truthiness / ?: && || ?? interpreted)'})
    res.bounds = {'grammar': 'every expression form x every form as child in every operand position (depth 2), leaves = data fields and boundary literals',
                  'spellings': 'minimal parentheses for all, full parentheses for %s' % ('all' if tier == 'thorough' else 'a seeded third'),
                  'depth_3': 'seeded sample of operator chains (200 quick / 1500 thorough)'}
    res.assumptions = ['reference conventions = the statement of C03 (free identifier = data field, null-safe member read, non-function callee -> undefined, plain call)',
                       'the JavaScript operators themselves are uninterpreted (they are JavaScript\'s, not the compiler\'s)',
                       'array spread of non-array iterables and numeric results of operators are outside',
                       'printer precedence table of jssym/model.py']
    res.outside = ['what the TypeScript runtime does with the delivered values', 'float parsing (dec2flt)', 'expressions deeper than the grammar bound']
    return res.finish()


def classify(p):
    """role of the failing expression (known-findings are keyed by it)"""
    def ops(e, acc):
        if isinstance(e, tuple):
            if e[0] == 'bin':
                acc.add(e[1])
            elif e[0] in ('un', 'cond', 'mem', 'idx', 'call', 'arr', 'obj', 'lit'):
                acc.add(e[0] + (':' + e[1] if e[0] in ('un', 'lit') else ''))
            for x in e[1:]:
                ops(x, acc)
        elif isinstance(e, list):
            for x in e:
                ops(x, acc)
        return acc
    o = ops(p, set())
    if '??' in o:
        return 'nullish'
    for k in ('|', '^', '&'):
        if k in o:
            return 'bitwise-precedence'
    if any(x.startswith('lit:') for x in o):
        return 'literal'
    return 'other:' + ','.join(sorted(o))[:40]


def m03b(res, tier):
    """engine M: LitInt value of parse_number == mathematical value of the digit string in its radix"""
    from mirsym.mir import Module
    from mirsym import targets
    from mirsym.core import Agg
    mod = Module(common.mir_dump('tc'))
    fams = [('0x', targets.hexdigit, 16, 2, 10), ('', targets.digit, 10, 0, 19), ('0', targets.octdigit, 8, 1, 14)]
    n = 0
    for prefix, cls, radix, skip, Lmax in fams:
        exe, inp, fn, done = targets.run_ps_client(mod, r'376:1: 376:16>::parse_number$', Lmax, family=(prefix, cls))
        res.solver_time += exe.stats['solver_time']
        lit_paths = []
        for p in done:
            if p.status != 'returned':
                continue
            r = p.result
            if not (isinstance(r, Agg) and r.variant == 'Some'):
                continue
            e = r.fields[0]
            if (e.variant or e.name) != 'LitInt':
                continue
            idx = p.env['ps'][0]
            digs = inp.chars[skip:idx]
            if digs:
                lit_paths.append((len(digs), p, e, idx, digs))
        lit_paths.sort(key=lambda t: t[0])
        dfun = lambda c: z3.If(c <= 57, c - 48, z3.If(c <= 70, c - 55, c - 87))
        lemmas = []
        for ndig, p, e, idx, digs in lit_paths:
            val = z3.IntVal(0)
            for c in digs:
                val = val * radix + dfun(c)
            exe.solver.set('timeout', 120000)
            extra = [inp.chars[0] != 48] if (radix == 10 and len(digs) > 1) else []     # a leading 0 selects legacy octal / 08 09 decimal
            try:
                ok, model = exe.check(exe.base + p.pc + [inp.n == idx, e.fields[0] != val] + extra + lemmas, want_model=True)
            except Exception as ex:
                res.query('unknown')
                res.inconc('M03b %s<%d digits>: %s' % (prefix, len(digs), ex))
                continue
            res.query('sat' if ok else 'unsat')
            n += 1
            if ok:
                s = inp.string_of(model)
                res.violation({'engine': 'M', 'harness': 'M03b', 'class': 'literal-value'},
                              'parse_number(%r) yields %s, the literal denotes %s' % (s, model.eval(e.fields[0]), model.eval(val)), {'input': s})
            elif ndig == 1 and radix == 16:
                # digit lemma: the one-digit value IS the code's digit table T(c0); it equals the reference digit function for every hex digit
                # (just proved).  The same match is executed for every later digit, so its instances may be assumed for c1, c2, ...
                T0 = e.fields[0]
                for ci in inp.chars[skip + 1:]:
                    lemmas.append(z3.substitute(T0, (digs[0], ci)) == dfun(ci))
    res.functions.append({'fn': 'Expression::parse_number (value of LitInt)', 'families': [f[0] + '<digits>' for f in fams], 'obligations': n})
    log('[C03] M03b: %d literal-value obligations' % n)


def replay(path):
    d = json.load(open(path))
    print(json.dumps(d, indent=1)[:2000])
    return 1
