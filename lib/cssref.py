"""Reference rewrite of a CSS token forest (the property-level oracle used to *replay* counterexamples of C08/C09/C17/C18).

The forest comes from cssparser itself (replay CLI `css-tokens`): a list of {"t": [kind, payload...], "children": [...]}.
`expected(forest, options)` returns the token stream the output must re-tokenise to, in a normal form:
 * whitespace tokens are dropped except where they carry meaning (descendant combinators in selector context, the
   spaces around + and - in calc());
 * numbers are compared with a relative tolerance; positions are ignored.
Only what the properties state is encoded here; it is used on solver-produced counterexamples and on the translator
validation samples, never as the deciding step."""
import json

from . import common

RULE_LIST_AT_RULES = ('media', 'supports', 'document', 'layer', 'container', 'scope', 'starting-style')
OPEN = {'Function': 'CloseParenthesis', 'ParenthesisBlock': 'CloseParenthesis', 'SquareBracketBlock': 'CloseSquareBracket',
        'CurlyBracketBlock': 'CloseCurlyBracket'}


def tokenize(texts):
    r = common.replay(['css-tokens'], stdin=json.dumps(texts), timeout=120)
    if r.returncode != 0:
        raise common.Inconclusive('css-tokens failed: ' + r.stderr[-300:])
    return json.loads(r.stdout)


def kind(e):
    return e['t'][0]


def is_ws(e):
    return kind(e) == 'WhiteSpace'


def strip_ws(seq):
    return [e for e in seq if not is_ws(e)]


def flat(tok):
    """normal-form leaf"""
    t = tok['t']
    if t[0] in ('Number', 'Percentage'):
        return (t[0], round_sig(t[2]))
    if t[0] == 'Dimension':
        return (t[0], round_sig(t[2]), t[4])
    return tuple(t)


def round_sig(x, n=5):
    if x == 0 or x is None:
        return 0.0
    return float('%.*g' % (n, x))


def selector_seq(seq, opts, out):
    """selector context: classes prefixed, descendant whitespace kept (single), nested blocks selector context too"""
    seq = list(seq)
    # leading / trailing whitespace of a level carries no meaning
    while seq and is_ws(seq[0]):
        seq.pop(0)
    while seq and is_ws(seq[-1]):
        seq.pop()
    prev = None
    for i, e in enumerate(seq):
        k = kind(e)
        if k == 'WhiteSpace':
            nxt = seq[i + 1] if i + 1 < len(seq) else None
            if nxt is not None and kind(nxt) != 'CurlyBracketBlock' and prev is not None:
                out.append(('WhiteSpace',))
            prev = e
            continue
        if k == 'Ident' and prev is not None and kind(prev) == 'Delim' and prev['t'][1] == '.':
            if opts.get('class_prefix_sign') is not None:
                out.append(('Comment', opts['class_prefix_sign']))
            if opts.get('class_prefix') is not None:
                out.append(('Ident', '%s--%s' % (opts['class_prefix'], e['t'][1])))
            else:
                out.append(flat(e))
        elif k == 'Dimension':
            out.append(dimension(e, opts))
        elif k in OPEN:
            out.append(flat(e))
            if k == 'CurlyBracketBlock':
                value_seq(e.get('children', []), opts, out, False)
            elif k == 'Function' and e['t'][1] == 'calc':
                value_seq(e.get('children', []), opts, out, True)
            else:
                selector_seq(e.get('children', []), opts, out)
            out.append((OPEN[k],))
        else:
            out.append(flat(e))
        prev = e


def dimension(e, opts):
    t = e['t']
    if t[4] == 'rpx':
        return ('Dimension', round_sig(t[2] * 100.0 / opts.get('rpx_ratio', 750.0)), 'vw')
    return flat(e)


def value_seq(seq, opts, out, in_calc):
    seq = list(seq)
    for i, e in enumerate(seq):
        k = kind(e)
        if k == 'WhiteSpace':
            if in_calc:
                prv = seq[i - 1] if i > 0 else None
                nxt = seq[i + 1] if i + 1 < len(seq) else None

                def pm(x):
                    return x is not None and kind(x) == 'Delim' and x['t'][1] in '+-'
                if pm(prv) or pm(nxt):
                    out.append(('WhiteSpace',))
            continue
        if k == 'Dimension':
            out.append(dimension(e, opts))
        elif k in OPEN:
            out.append(flat(e))
            value_seq(e.get('children', []), opts, out, k == 'Function' and e['t'][1] == 'calc')
            out.append((OPEN[k],))
        else:
            out.append(flat(e))


def rules(seq, opts, out, low, stack):
    """rule list: qualified rules and at-rules.  `low` collects the low-priority (":host") output."""
    seq = list(seq)
    i = 0
    first = True
    while True:
        while i < len(seq) and is_ws(seq[i]):
            i += 1
        if i >= len(seq):
            break
        e = seq[i]
        if kind(e) == 'AtKeyword':
            j = i + 1
            while j < len(seq) and kind(seq[j]) not in ('CurlyBracketBlock', 'Semicolon'):
                j += 1
            end = seq[j] if j < len(seq) else None
            at_rule(e, seq[i + 1:j], end, opts, out, low, stack, first)
            i = j + 1
        else:
            j = i
            while j < len(seq) and kind(seq[j]) != 'CurlyBracketBlock':
                j += 1
            block = seq[j] if j < len(seq) else None
            qualified(seq[i:j], block, opts, out, low, stack)
            i = j + 1
        first = False


def qualified(prelude, block, opts, out, low, stack):
    p = strip_ws(prelude)
    if opts.get('convert_host') and len(p) >= 2 and kind(p[0]) == 'Colon' and \
            ((kind(p[1]) == 'Ident' and p[1]['t'][1] == 'host') or (kind(p[1]) == 'Function' and p[1]['t'][1] == 'host')):
        if block is None:
            return
        if len(p) == 2 and kind(p[1]) == 'Ident':
            dst = low
            for (nm, prelude_toks) in stack:
                dst.append(('AtKeyword', nm))
                dst.extend(prelude_toks)
                dst.append(('CurlyBracketBlock',))
            dst.append(('SquareBracketBlock',))
            dst += [('Ident', 'wx-host'), ('Delim', '='), ('QuotedString', opts.get('class_prefix') or ''), ('CloseSquareBracket',)]
            if opts.get('host_is') is not None:
                dst.append(('Comma',))
                dst.append(('SquareBracketBlock',))
                dst += [('Ident', 'is'), ('Delim', '='), ('QuotedString', opts['host_is']), ('CloseSquareBracket',)]
            dst.append(('CurlyBracketBlock',))
            value_seq(block.get('children', []), opts, dst, False)
            dst.append(('CloseCurlyBracket',))
            for s in stack:
                dst.append(('CloseCurlyBracket',))
        # `:host` combined with other selectors: dropped from both outputs (with a warning)
        return
    selector_seq(prelude, opts, out)
    if block is not None:
        out.append(('CurlyBracketBlock',))
        value_seq(block.get('children', []), opts, out, False)
        out.append(('CloseCurlyBracket',))


def at_rule(kw, prelude, end, opts, out, low, stack, first):
    name = kw['t'][1]
    if name == 'import' and opts.get('import_sign') is not None:
        def imp_flat(x):
            f = flat(x)
            if f[:2] == ('Function', 'url'):
                strs = [c['t'][1] for c in x.get('children', []) if c['t'][0] == 'QuotedString']
                if len(strs) == 1:
                    return f + (strs[0],)
            return f
        out.append(('IMPORT', [imp_flat(x) for x in strip_ws(prelude)], end is not None and kind(end) == 'Semicolon'))
        return
    out.append(flat(kw))
    mark = len(out)
    for e in strip_ws(prelude):
        k = kind(e)
        if k in OPEN:
            out.append(flat(e))
            selector_seq(e.get('children', []), opts, out)
            out.append((OPEN[k],))
        else:
            out.append(flat(e))
    if end is None:
        return
    if kind(end) == 'Semicolon':
        out.append(('Semicolon',))
        return
    out.append(('CurlyBracketBlock',))
    if name in RULE_LIST_AT_RULES:
        rules(end.get('children', []), opts, out, low, stack + [(name, tuple(out[mark:-1]))])
    else:
        value_seq(end.get('children', []), opts, out, False)
    out.append(('CloseCurlyBracket',))


def expected(forest, opts):
    out, low = [], []
    rules(forest, opts, out, low, [])
    return out, low


def observed(forest):
    """normal form of a re-tokenised *output*: whitespace kept as tokens (it was emitted on purpose or as a separator)"""
    out = []

    def walk(seq):
        for e in seq:
            k = kind(e)
            if k in OPEN:
                out.append(flat(e))
                walk(e.get('children', []))
                out.append((OPEN[k],))
            else:
                out.append(flat(e))
    walk(forest)
    return out


def same_stream(exp, got):
    """compare expected vs observed: whitespace in `got` that `exp` does not have is accepted only where it cannot change
    meaning (serializer separators in value context are not distinguishable here, so: accept extra whitespace unless it sits
    between two tokens of a selector compound, which the caller checks through `exp` having WhiteSpace markers)."""
    e = [x for x in exp if x[0] != 'Comment']
    g = [x for x in got if x[0] != 'Comment']
    return e == g


# ---- port of cssparser 0.34 TokenSerializationType::needs_separator_when_before (serializer.rs); part of the replay oracle
def ser_type(t):
    k = t[0]
    if k == 'Ident':
        return 'Ident'
    if k in ('AtKeyword', 'Hash', 'IDHash'):
        return 'AtKeywordOrHash'
    if k in ('UnquotedUrl', 'BadUrl'):
        return 'UrlOrBadUrl'
    if k == 'Delim':
        ch = t[1]
        return {'#': 'DelimHash', '@': 'DelimAt', '.': 'DelimDotOrPlus', '+': 'DelimDotOrPlus', '-': 'DelimMinus', '?': 'DelimQuestion',
                '$': 'DelimAssorted', '^': 'DelimAssorted', '~': 'DelimAssorted', '%': 'DelimPercent', '=': 'DelimEquals',
                '|': 'DelimBar', '/': 'DelimSlash', '*': 'DelimAsterisk'}.get(ch, 'Other')
    if k in ('Number', 'Percentage', 'Dimension', 'WhiteSpace', 'Function', 'CDC', 'DashMatch', 'SubstringMatch'):
        return k
    if k == 'ParenthesisBlock':
        return 'OpenParen'
    return 'Other'


def needs_separator(a, b):
    x, y = ser_type(a), ser_type(b)
    common_ = ('Ident', 'Function', 'UrlOrBadUrl', 'DelimMinus', 'Number', 'Percentage', 'Dimension')
    if x == 'Ident':
        return y in common_ + ('CDC', 'OpenParen')
    if x in ('AtKeywordOrHash', 'Dimension'):
        return y in common_ + ('CDC',)
    if x in ('DelimHash', 'DelimMinus'):
        return y in common_
    if x == 'Number':
        return y in common_ + ('DelimPercent',)
    if x == 'DelimAt':
        return y in ('Ident', 'Function', 'UrlOrBadUrl', 'DelimMinus')
    if x == 'DelimDotOrPlus':
        return y in ('Number', 'Percentage', 'Dimension')
    if x in ('DelimAssorted', 'DelimAsterisk'):
        return y == 'DelimEquals'
    if x == 'DelimBar':
        return y in ('DelimEquals', 'DelimBar', 'DashMatch')
    if x == 'DelimSlash':
        return y in ('DelimAsterisk', 'SubstringMatch')
    return False


def diff_streams(exp, got):
    """-> None if equal up to whitespace the serializer had to insert between tokens that would otherwise merge"""
    i = j = 0
    while i < len(exp) or j < len(got):
        e = exp[i] if i < len(exp) else None
        g = got[j] if j < len(got) else None
        if e == g:
            i += 1
            j += 1
            continue
        if g == ('WhiteSpace',) and e != ('WhiteSpace',) and j > 0 and j + 1 < len(got) and needs_separator(got[j - 1], got[j + 1]):
            j += 1
            continue
        return 'at expected[%d]: expected %s, got %s' % (i, exp[i:i + 3], got[j:j + 3])
    return None
