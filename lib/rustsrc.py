"""Small readers of Rust source declarations (enum variants with explicit / implicit discriminants)."""
import re


def enum_table(path, name):
    src = open(path).read()
    m = re.search(r'enum %s\b[^{]*\{(.*?)\n\}' % re.escape(name), src, re.S)
    if not m:
        raise ValueError('enum %s not found in %s' % (name, path))
    body = re.sub(r'//[^\n]*', '', m.group(1))
    out, cur = {}, 0
    depth = 0
    item = ''
    items = []
    for ch in body:
        if ch in '({':
            depth += 1
        elif ch in ')}':
            depth -= 1
        if ch == ',' and depth == 0:
            items.append(item.strip())
            item = ''
        else:
            item += ch
    if item.strip():
        items.append(item.strip())
    for it in items:
        it = re.sub(r'#\[[^\]]*\]\s*', '', it).strip()
        if not it:
            continue
        mm = re.match(r'(\w+)\s*(?:=\s*(0x[0-9a-fA-F]+|\d+))?', it)
        if mm.group(2):
            cur = int(mm.group(2), 0)
        out[mm.group(1)] = cur
        cur += 1
    return out


def variant_fields(path, enum, variant):
    """field names of a struct-like enum variant, in declaration order (= MIR field indices)"""
    src = open(path).read()
    m = re.search(r'enum %s\b[^{]*\{' % re.escape(enum), src)
    if not m:
        raise ValueError('enum %s not found in %s' % (enum, path))
    i = m.end()
    depth = 1
    j = i
    while depth and j < len(src):
        if src[j] == '{':
            depth += 1
        elif src[j] == '}':
            depth -= 1
        j += 1
    body = re.sub(r'//[^\n]*', '', src[i:j - 1])
    mm = re.search(r'\b%s\s*\{(.*?)\}' % re.escape(variant), body, re.S)
    if not mm:
        raise ValueError('variant %s::%s not found' % (enum, variant))
    out = []
    depth = 0
    item = ''
    for ch in mm.group(1) + ',':
        if ch in '(<[':
            depth += 1
        elif ch in ')>]':
            depth -= 1
        if ch == ',' and depth == 0:
            item = re.sub(r'#\[[^\]]*\]\s*', '', item).strip()
            if item:
                out.append(item.split(':')[0].strip().split()[-1])
            item = ''
        else:
            item += ch
    return out
