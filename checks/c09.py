"""C09 - class prefixing hits every class selector and nothing else (routine/trace level, engine M open environment)."""
import json
from checks import css_common as cc
from lib import common


def main(tier):
    res = cc.run_property('C09', tier, ['class_block', 'value_block', 'qualified_rule', 'at_rule'], extra_targets=['class_name'])
    return res.finish()


def replay(path):
    d = json.load(open(path))
    why, out = cc.oracle_mismatch(d['replay']['css'], d['replay']['options'])
    print(out, why)
    return 1 if why else 0
