// hooks for tc_parse_tag (included into the repo crate under cfg(any(kani, glass_easel_verif)))
