#!/bin/bash
# bin/verify_seed.sh <seed dir with patch.diff, run.sh, demo.*>  ->  prints VERIFIED / REJECTED with the observed results
# Runs in a scratch worktree of /repo (never in /repo itself): tests pass with the patch, demo fails with it, demo passes without it.
set -u
SRC=$(realpath "$1"); WT=/tmp/seedverify_wt
export CARGO_NET_OFFLINE=true
if [ ! -d $WT ]; then git -C /repo worktree add -q --detach $WT HEAD || exit 3; else git -C $WT checkout -q --detach $(git -C /repo rev-parse HEAD) && git -C $WT checkout -q -- . ; fi
rm -rf $WT/seed_out; cp -r "$SRC" $WT/seed_out; chmod +x $WT/seed_out/run.sh
cd $WT
git apply seed_out/patch.diff || { echo "REJECTED patch does not apply"; exit 1; }
T=$(CARGO_TARGET_DIR=$WT/target cargo test --workspace --offline 2>&1 | grep -E "^test result" | awk '{p+=$4; f+=$6} END {print p" passed "f" failed"}')
seed_out/run.sh > seed_out/with.log 2>&1; W=$?
git apply -R seed_out/patch.diff
seed_out/run.sh > seed_out/without.log 2>&1; O=$?
git checkout -q -- . ; git clean -fdq -e target -e seed_out
echo "tests_with_patch: $T ; demo_with_patch exit=$W ; demo_without_patch exit=$O"
if [ "$T" = "84 passed 0 failed" ] && [ $W -ne 0 ] && [ $O -eq 0 ]; then echo VERIFIED; else echo REJECTED; fi
