"""Glue for engine J: batch compilation through the real compiler, symbolic execution of the emitted code, queries, node replay."""
import json
import os
import subprocess
import time
import z3

from lib import common
from .jsparse import JsUnsupported
from .interp import V, UNDEFINED, NULL, is_v
from .protocol import Runtime


def compile_batch(templates, want=('gen_object', 'runtime', 'stringify'), chunk=200):
    """templates: list of WXML strings (one file 'a' each) -> list of result dicts (diagnostics, gen_object, ... or panic)"""
    out = []
    for i in range(0, len(templates), chunk):
        reqs = [{'files': [['a', t]], 'main': 'a', 'want': list(want)} for t in templates[i:i + chunk]]
        r = common.replay(['tmpl'], stdin=json.dumps(reqs), timeout=600)
        if r.returncode != 0:
            raise common.Inconclusive('replay tmpl failed: ' + r.stderr[-300:])
        out += json.loads(r.stdout)
    return out


def compile_groups(groups, want=('gen_object', 'runtime')):
    """groups: list of {'files': [[path, text]...], 'scripts': [...], 'main': path}"""
    reqs = [dict(g, want=list(want)) for g in groups]
    r = common.replay(['tmpl'], stdin=json.dumps(reqs), timeout=600)
    if r.returncode != 0:
        raise common.Inconclusive('replay tmpl failed: ' + r.stderr[-300:])
    return json.loads(r.stdout)


def walk(node):
    yield node
    for c in node.children:
        for x in walk(c):
            yield x


def find_attr(root, name, setter=None):
    hits = []
    for n in walk(root):
        for a in n.attrs:
            if len(a[1]) >= 1 and a[1][0] == name and (setter is None or a[0] == setter):
                hits.append((n, a))
    return hits


def decide_equal(it, a, b, extra=(), timeout_ms=20000):
    """-> ('unsat'|'sat'|'unknown', model, seconds) for  not(a == b)  under the interpreter's axioms"""
    ta, tb = it.term(a), it.term(b)
    s = z3.Solver()
    s.set('timeout', timeout_ms)
    for ax in it.axioms:
        s.add(ax)
    for x in extra:
        s.add(x)
    s.add(ta != tb)
    t = time.time()
    r = s.check()
    dt = time.time() - t
    if r == z3.unsat:
        return 'unsat', None, dt
    if r == z3.sat:
        return 'sat', s.model(), dt
    return 'unknown', None, dt


# ------------------------------------------------------------------------------------------------ node replay
EDGE_POOL = [0, {'$': '-0'}, 1, 2, -1, '', 'a', '1', {'$': 'NaN'}, None, {'$': 'undefined'}, True, False, [], [1, 2], {'$': 'obj', 'v': {}},
             {'$': 'obj', 'v': {'b': 1, 'f': {'$': 'fn'}}}, {'$': 'fn'}, 7, 3.5, 'constructor', 'toString']


def node_eval(gen_object, runtime, jobs, timeout=120):
    inp = json.dumps({'gen_object': gen_object, 'runtime': runtime, 'jobs': jobs})
    r = subprocess.run(['node', os.path.join(common.VERIF, 'replay', 'js', 'run.js')], input=inp, stdout=subprocess.PIPE,
                       stderr=subprocess.PIPE, text=True, timeout=timeout)
    if r.returncode != 0:
        raise common.Inconclusive('node replay failed: ' + r.stderr[-300:])
    return json.loads(r.stdout)


def env_pool(names, seed=0, limit=400):
    """assignments of edge values to the free identifiers (full product if small, else a seeded slice of it)"""
    import itertools
    import random
    pool = EDGE_POOL
    total = len(pool) ** len(names)
    if total <= limit:
        combos = itertools.product(pool, repeat=len(names))
        return [dict(zip(names, c)) for c in combos]
    rnd = random.Random(seed)
    out = [dict(zip(names, [v] * len(names))) for v in pool]
    while len(out) < limit:
        out.append({n: rnd.choice(pool) for n in names})
    return out
