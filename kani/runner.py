"""Engine K: runs the in-crate Kani proof harnesses (hooks/*.rs, cfg(kani)) in parallel and folds the verdicts into a Result.

A harness verdict is SUCCESS only if CBMC reports `VERIFICATION:- SUCCESSFUL`, all cover points are satisfied (vacuity guard)
and unwinding assertions hold (Kani's default).  Out of memory / timeout / tool errors are inconclusive.  A FAILED verdict is
replayed by enumerating the harness' bounded input domain through the native build before it is reported."""
import json
import os
import re
import subprocess
import time
from concurrent.futures import ThreadPoolExecutor

from lib import common
from lib.common import log

TC_DIR = common.TC
EXPR = 'parse::expr::verif::harness::'
PS = 'parse::verif::harness::'

HARNESSES = {
    # name: (qualified prefix, properties, tier, domain, what)
    'k05a_array_literal2': (EXPR, ['C05', 'C07'], 'quick', 'k05a', 'sub_expressions over array literals with 2 fields of symbolic kind (hole / normal / spread)'),
    'k05a_array_literal': (EXPR, ['C05', 'C07'], 'thorough', 'k05a', 'sub_expressions over array literals with 3 fields of symbolic kind'),
    'k05a_object_literal': (EXPR, ['C05', 'C07'], 'quick', 'k05a', 'sub_expressions over object literals with 3 fields (named / spread)'),
    'k05a_members': (EXPR, ['C05', 'C07'], 'quick', 'k05a', 'sub_expressions of static / dynamic member access'),
    'k05a_call': (EXPR, ['C05', 'C07'], 'quick', 'k05a', 'sub_expressions of a call with two arguments'),
    'k05a_cond': (EXPR, ['C05', 'C07'], 'quick', 'k05a', 'sub_expressions of ?:'),
    'k05a_leaves_and_unary': (EXPR, ['C05', 'C07'], 'quick', 'k05a', 'sub_expressions of the 8 leaf forms and 7 unary forms'),
    'k05a_binary_a': (EXPR, ['C05', 'C07'], 'quick', 'k05a', 'sub_expressions of 12 binary forms'),
    'k05a_binary_b': (EXPR, ['C05', 'C07'], 'quick', 'k05a', 'sub_expressions of 11 binary / logical forms'),
    'k05b_convert_scopes_leaf': (EXPR, ['C05'], 'quick', None, 'convert_scopes on a leaf with a symbolic 3-deep scope stack over two names'),
    'k01a_parse_number_hex2': (EXPR, ['C01'], 'quick', None, 'parse_number on "0x" + 2 symbolic ASCII bytes: no panic'),
    'k16a_next': (PS, ['C16', 'C15', 'C01'], 'quick', 'k16a', 'position invariant + progress of ParseState::next from an arbitrary state, <= 4 UTF-8 bytes'),
    'k16a_skip_whitespace': (PS, ['C16', 'C15', 'C01'], 'quick', 'k16a', 'position invariant of skip_whitespace'),
    'k16a_consume_str': (PS, ['C16', 'C15', 'C01'], 'quick', 'k16a', 'position invariant of consume_str (through skip_bytes)'),
    'k16a_skip_bytes_two_chars': (PS, ['C16', 'C15'], 'quick', 'k16a', 'position invariant of skip_bytes over "<newline or a><any scalar value>" (through consume_str of the whole text)'),
    'k16a_skip_bytes_range': (PS, ['C16'], 'thorough', 'k16a', 'position invariant of skip_until_after over "<newline or a><any scalar value>-" (17 min, 12 GB)'),
    'k16a_try_parse_restores': (PS, ['C16', 'C15'], 'quick', 'k16a', 'try_parse restores index, line and column together on failure'),
    'k16a_next_char_as_str': (PS, ['C16', 'C01'], 'thorough', 'k16a', 'position invariant + progress of next_char_as_str, <= 3 bytes (19 min, 11 GB)'),
    'k15c_position_order': (PS, ['C15'], 'quick', None, 'Position::cmp is the lexicographic order on (line, utf16_col) for all u32 values'),
}


def run_one(name, mem_kb, timeout):
    """one harness under a per-harness file lock (checks that share a harness may run at the same time); a verdict computed for the
    identical sources (content hash of the crate + hooks) within the last 30 minutes is reused and marked `reused`"""
    import fcntl
    os.makedirs(os.path.join(common.CACHE, 'kani', 'verdicts'), exist_ok=True)
    key = common.src_hash('tc')
    vfile = os.path.join(common.CACHE, 'kani', 'verdicts', '%s-%s.json' % (name, key))
    with open(os.path.join(common.CACHE, 'kani', name + '.lock'), 'w') as lk:
        fcntl.flock(lk, fcntl.LOCK_EX)
        if os.path.exists(vfile) and time.time() - os.path.getmtime(vfile) < 1800 and not os.environ.get('VERIF_KANI_NOCACHE'):
            v = json.load(open(vfile))
            if v['verdict'] == 'success':
                v['reused'] = True
                return v
        v = run_one_locked(name, mem_kb, timeout)
        json.dump(v, open(vfile, 'w'))
        return v


def run_one_locked(name, mem_kb, timeout):
    prefix = HARNESSES[name][0]
    tdir = os.path.join(common.CACHE, 'kani', name)
    logp = os.path.join(common.CACHE, 'kani', name + '.log')
    os.makedirs(os.path.dirname(logp), exist_ok=True)
    cmd = 'ulimit -v %d; exec cargo kani -Z stubbing --no-default-features --target-dir %s --harness %s%s --exact' % (mem_kb, tdir, prefix, name)
    t = time.time()
    try:
        r = subprocess.run(['bash', '-c', cmd], cwd=TC_DIR, stdout=subprocess.PIPE, stderr=subprocess.STDOUT, text=True, timeout=timeout, env=common.ENV)
        out = r.stdout
        rc = r.returncode
    except subprocess.TimeoutExpired as e:
        out = (e.stdout or b'').decode() if isinstance(e.stdout, bytes) else (e.stdout or '')
        rc = -9
        subprocess.run(['pkill', '-9', '-f', tdir])
    open(logp, 'w').write(out)
    dt = time.time() - t
    verdict = 'inconclusive'
    detail = ''
    m = re.search(r'\*\* (\d+) of (\d+) failed', out)
    covers = re.search(r'\*\* (\d+) of (\d+) cover properties satisfied', out)
    if rc == -9:
        detail = 'timeout after %ds' % timeout
    elif 'VERIFICATION:- SUCCESSFUL' in out and m and m.group(1) == '0':
        if covers and covers.group(1) != covers.group(2):
            detail = 'vacuity: only %s of %s cover points reached' % (covers.group(1), covers.group(2))
        else:
            verdict = 'success'
    elif 'VERIFICATION:- FAILED' in out and m and int(m.group(1)) > 0:
        verdict = 'failed'
        fails = re.findall(r'Status: FAILURE\n\s*- Description: "(.*?)"', out)
        detail = '; '.join(sorted(set(fails)))[:300]
    else:
        tail = out[-400:].replace('\n', ' | ')
        detail = 'tool error / out of memory (rc=%s): %s' % (rc, tail)
    checks = int(m.group(2)) if m else 0
    return {'harness': name, 'verdict': verdict, 'detail': detail, 'seconds': round(dt, 1), 'checks': checks,
            'covers': covers.group(0) if covers else None}


def run_for(res, prop, tier, names=None):
    sel = names or [n for n, h in HARNESSES.items() if prop in h[1] and (h[2] == 'quick' or tier == 'thorough')]
    if not sel:
        return []
    log('[%s] Kani: %d harnesses in parallel: %s' % (prop, len(sel), ', '.join(sel)))
    mem = 24000000 if tier == 'thorough' else 14000000
    timeout = 3600 if tier == 'thorough' else 1500
    t = time.time()
    with ThreadPoolExecutor(max_workers=min(len(sel), 10)) as ex:
        results = list(ex.map(lambda n: run_one(n, mem, timeout), sel))
    log('[%s] Kani finished in %.0fs: %s' % (prop, time.time() - t, ', '.join('%s=%s(%.0fs)' % (r['harness'], r['verdict'], r['seconds']) for r in results)))
    res.engines.append('K (Kani 0.68 / CBMC, in-crate harnesses)') if not any('Kani' in e for e in res.engines) else None
    for r in results:
        h = HARNESSES[r['harness']]
        res.functions.append({'kani_harness': r['harness'], 'what': h[4], 'verdict': r['verdict'], 'seconds': r['seconds'], 'checks': r['checks'],
                              'covers': r['covers'], 'stubs': 'core::str::slice_error_fail -> panic; str::parse -> any f64 or Err' if 'parse_number' in r['harness'] or r['harness'].startswith('k16a') else 'none'})
        res.solver_time += r['seconds']
        if r['verdict'] == 'success':
            res.query('unsat', max(1, r['checks']))
        elif r['verdict'] == 'inconclusive':
            res.query('unknown')
            res.inconc('Kani harness %s: %s' % (r['harness'], r['detail']))
        else:
            res.query('sat')
            confirm(res, prop, r, h)
    return results


def confirm(res, prop, r, h):
    """replay a FAILED harness by enumerating its bounded domain through the native build"""
    dom = h[3]
    if dom == 'k05a':
        out = common.replay(['sub-expr-counts'])
        rows = json.loads(out.stdout)
        bad = [x for x in rows if isinstance(x, dict) or x[4] != x[6] or x[5] != x[6]]
        if bad:
            b = bad[0]
            res.violation({'engine': 'K', 'harness': 'k05a', 'class': 'traversal-incomplete'},
                          'sub_expressions() misses children: expression form %s with field kinds %s yields %s / %s of %s children (%d combinations affected); Kani: %s' % (
                              b[0], b[1:4], b[4], b[5], b[6], len(bad), r['detail']), {'cmd': 'verif-replay sub-expr-counts', 'first': b})
        else:
            res.inconc('Kani harness %s FAILED (%s) but the native enumeration of all 44x27 forms shows no miscount' % (r['harness'], r['detail']))
        return
    if dom == 'k16a':
        op = {'k16a_next': 0, 'k16a_skip_whitespace': 1, 'k16a_consume_str': 4, 'k16a_next_char_as_str': 5, 'k16a_try_parse_restores': 7,
              'k16a_skip_bytes_two_chars': 4, 'k16a_skip_bytes_range': 3}[r['harness']]
        whole = r['harness'].startswith('k16a_skip_bytes')
        alphabet = ['a', ' ', '\n', '-', '\t', 'é', '中', '\U0001F600', '/', '*', '\r']
        import itertools
        reqs = []
        for n in range(0, 4):
            for combo in itertools.product(alphabet, repeat=n):
                s = ''.join(combo)
                if len(s.encode()) > 5:
                    continue
                offs = [0]
                for ch in s:
                    offs.append(offs[-1] + len(ch.encode()))
                for cur in offs:
                    rest = s.encode()[cur:].decode()
                    args_ = [rest] if (whole and op == 4 and rest) else (['-'] if op == 3 else (['\n', '-'] if op == 4 else ['']))
                    for arg in args_:
                        reqs.append([s, cur, op, arg])
        out = common.replay(['primitive-steps'], stdin=json.dumps(reqs), timeout=300)
        rows = json.loads(out.stdout)
        bad = []
        for q, x in zip(reqs, rows):
            if isinstance(x, dict) or not x[5] or not x[6] or x[1] != x[3] or x[2] != x[4]:
                bad.append((q, x))
        if bad:
            q, x = bad[0]
            res.violation({'engine': 'K', 'harness': 'k16a', 'class': 'position-invariant:' + r['harness']},
                          'ParseState primitive (%s) breaks the position invariant: text %r cursor %d -> %s (expected line/col %s); %d states affected; Kani: %s' % (
                              r['harness'], q[0], q[1], x, x[3:5] if not isinstance(x, dict) else '-', len(bad), r['detail']),
                          {'cmd': 'verif-replay primitive-steps', 'input': q})
        else:
            res.inconc('Kani harness %s FAILED (%s) but %d native states show no deviation' % (r['harness'], r['detail'], len(reqs)))
        return
    # no native twin: report with the Kani trace description only if it is a plain assertion of the harness
    res.inconc('Kani harness %s FAILED: %s (no native replay for this harness)' % (r['harness'], r['detail']))
