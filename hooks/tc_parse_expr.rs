// hooks for parse/expr.rs (included under cfg(any(kani, glass_easel_verif)))
#[allow(unused_imports)]
use super::*;

/// Run the crate-private `Expression::parse_number` on `s`.
/// Returns (debug print of the result, consumed bytes, number of warnings).
pub fn parse_number(s: &str) -> (String, usize, usize) {
    let mut ps = crate::parse::ParseState::new("", s, crate::parse::Position::default());
    let r = Expression::parse_number(&mut ps);
    let warnings = ps.warnings().count();
    let desc = match r.as_deref() {
        None => "None".to_string(),
        Some(Expression::LitInt { value, location }) => format!(
            "LitInt {} @{}:{}-{}:{}",
            value, location.start.line, location.start.utf16_col, location.end.line, location.end.utf16_col
        ),
        Some(Expression::LitFloat { value, location }) => format!(
            "LitFloat {:?} @{}:{}-{}:{}",
            value, location.start.line, location.start.utf16_col, location.end.line, location.end.utf16_col
        ),
        Some(_) => "Other".to_string(),
    };
    (desc, ps.cur_index, warnings)
}

// ------------------------------------------------------------------------------------------------
// native twin of the K05a harness construction (used to replay Kani counterexamples with the real build)
pub(crate) mod forms {
    use super::super::*;
    use crate::parse::Position;
    use compact_str::CompactString;

    pub fn loc() -> std::ops::Range<Position> {
        Position::default()..Position::default()
    }
    pub fn leaf() -> Box<Expression> {
        Box::new(Expression::LitNull { location: loc() })
    }
    pub fn afk(k: u8) -> ArrayFieldKind {
        match k {
            0 => ArrayFieldKind::EmptySlot,
            1 => ArrayFieldKind::Normal { value: *leaf() },
            _ => ArrayFieldKind::Spread { location: loc(), value: *leaf() },
        }
    }
    pub fn ofk(k: u8) -> ObjectFieldKind {
        match k {
            0 => ObjectFieldKind::Named { name: CompactString::new_inline("a"), location: loc(), colon_location: None, value: *leaf() },
            _ => ObjectFieldKind::Spread { location: loc(), value: *leaf() },
        }
    }
    macro_rules! bin {
        ($v:ident) => {
            (Expression::$v { left: leaf(), right: leaf(), location: loc() }, 2usize)
        };
    }
    macro_rules! un {
        ($v:ident) => {
            (Expression::$v { value: leaf(), location: loc() }, 1usize)
        };
    }
    /// expression form number `v` (0..44) with three literal fields of kinds k0..k2, and its number of direct children
    pub fn form(v: u8, k0: u8, k1: u8, k2: u8) -> (Expression, usize) {
        match v {
            0 => (Expression::ScopeRef { location: loc(), index: 0 }, 0),
            1 => (Expression::DataField { name: CompactString::new_inline("a"), location: loc() }, 0),
            2 => un!(ToStringWithoutUndefined),
            3 => (Expression::LitUndefined { location: loc() }, 0),
            4 => (Expression::LitNull { location: loc() }, 0),
            5 => (Expression::LitStr { value: CompactString::new_inline("s"), location: loc() }, 0),
            6 => (Expression::LitInt { value: 1, location: loc() }, 0),
            7 => (Expression::LitFloat { value: 1.5, location: loc() }, 0),
            8 => (Expression::LitBool { value: true, location: loc() }, 0),
            9 => (Expression::LitObj { fields: vec![ofk(k0 % 2), ofk(k1 % 2), ofk(k2 % 2)], brace_location: (loc(), loc()) }, 3),
            10 => (
                Expression::LitArr { fields: vec![afk(k0), afk(k1), afk(k2)], bracket_location: (loc(), loc()) },
                (k0 != 0) as usize + (k1 != 0) as usize + (k2 != 0) as usize,
            ),
            11 => (Expression::StaticMember { obj: leaf(), field_name: CompactString::new_inline("f"), dot_location: loc(), field_location: loc() }, 1),
            12 => (Expression::DynamicMember { obj: leaf(), field_name: leaf(), bracket_location: (loc(), loc()) }, 2),
            13 => (Expression::FuncCall { func: leaf(), args: vec![*leaf(), *leaf(), *leaf()], paren_location: (loc(), loc()) }, 4),
            14 => un!(Reverse),
            15 => un!(BitReverse),
            16 => un!(Positive),
            17 => un!(Negative),
            18 => un!(TypeOf),
            19 => un!(Void),
            20 => bin!(Multiply),
            21 => bin!(Divide),
            22 => bin!(Remainer),
            23 => bin!(Plus),
            24 => bin!(Minus),
            25 => bin!(LeftShift),
            26 => bin!(RightShift),
            27 => bin!(UnsignedRightShift),
            28 => bin!(Lt),
            29 => bin!(Gt),
            30 => bin!(Lte),
            31 => bin!(Gte),
            32 => bin!(InstanceOf),
            33 => bin!(Eq),
            34 => bin!(Ne),
            35 => bin!(EqFull),
            36 => bin!(NeFull),
            37 => bin!(BitAnd),
            38 => bin!(BitXor),
            39 => bin!(BitOr),
            40 => bin!(LogicAnd),
            41 => bin!(LogicOr),
            42 => bin!(NullishCoalescing),
            _ => (Expression::Cond { cond: leaf(), true_br: leaf(), false_br: leaf(), question_location: loc(), colon_location: loc() }, 3),
        }
    }
    /// (children yielded by sub_expressions, by sub_expressions_mut, expected) - each child identified by address
    pub fn count(v: u8, k0: u8, k1: u8, k2: u8) -> (usize, usize, usize) {
        let (mut e, expected) = form(v, k0, k1, k2);
        let mut n = 0usize;
        {
            let mut it = e.sub_expressions();
            let mut prev: *const Expression = std::ptr::null();
            while let Some(x) = it.next() {
                // every yielded child is a distinct node (the iterator never yields the same child twice in a row)
                if std::ptr::eq(x, prev) {
                    return (usize::MAX, 0, expected);
                }
                prev = x;
                n += 1;
            }
        }
        let mut m = 0usize;
        {
            let mut it = e.sub_expressions_mut();
            while let Some(_) = it.next() {
                m += 1;
            }
        }
        std::mem::forget(e);
        (n, m, expected)
    }
}

pub fn sub_expr_counts(v: u8, k0: u8, k1: u8, k2: u8) -> (usize, usize, usize) {
    forms::count(v, k0, k1, k2)
}

#[cfg(kani)]
mod harness {
    use super::super::*;
    use super::forms::{afk, leaf, loc, ofk};
    use crate::parse::{ParseState, Position};
    use compact_str::CompactString;

    fn fail_stub(_s: &str, _b: usize, _e: usize) -> ! {
        panic!("slice_error_fail")
    }
    fn parse_stub<F: std::str::FromStr>(_s: &str) -> Result<F, F::Err> {
        // str::parse: only f64 is reachable from parse_number; contract: any f64 or Err
        assert!(std::mem::size_of::<F>() == 8);
        if kani::any() {
            let v: f64 = kani::any();
            Ok(unsafe { std::mem::transmute_copy::<f64, F>(&v) })
        } else {
            Err(unsafe { std::mem::transmute_copy::<u8, F::Err>(&0u8) })
        }
    }

    // both iterators must yield exactly `expected` children
    fn check(mut e: Expression, expected: usize) {
        let mut n = 0usize;
        {
            let mut it = e.sub_expressions();
            while let Some(_) = it.next() {
                n += 1;
            }
        }
        let mut m = 0usize;
        {
            let mut it = e.sub_expressions_mut();
            while let Some(_) = it.next() {
                m += 1;
            }
        }
        assert!(n == expected);
        assert!(m == expected);
        std::mem::forget(e);
    }
    macro_rules! bin {
        ($v:ident) => {
            (Expression::$v { left: leaf(), right: leaf(), location: loc() }, 2usize)
        };
    }
    macro_rules! un {
        ($v:ident) => {
            (Expression::$v { value: leaf(), location: loc() }, 1usize)
        };
    }

    // K05a / K07a: sub_expressions() and sub_expressions_mut() yield every child of every expression form
    #[kani::proof]
    #[kani::unwind(6)]
    fn k05a_array_literal() {
        let k0: u8 = kani::any();
        let k1: u8 = kani::any();
        let k2: u8 = kani::any();
        kani::assume(k0 < 3 && k1 < 3 && k2 < 3); // 0 hole, 1 normal, 2 spread
        let expected = (k0 != 0) as usize + (k1 != 0) as usize + (k2 != 0) as usize;
        kani::cover!(k0 == 0 && k1 == 1);
        kani::cover!(k0 == 2 && k1 == 0 && k2 == 0);
        check(Expression::LitArr { fields: vec![afk(k0), afk(k1), afk(k2)], bracket_location: (loc(), loc()) }, expected);
    }
    #[kani::proof]
    #[kani::unwind(6)]
    fn k05a_object_literal() {
        let k0: u8 = kani::any();
        let k1: u8 = kani::any();
        let k2: u8 = kani::any();
        kani::assume(k0 < 2 && k1 < 2 && k2 < 2); // 0 named, 1 spread
        kani::cover!(k0 == 1 && k1 == 0);
        check(Expression::LitObj { fields: vec![ofk(k0), ofk(k1), ofk(k2)], brace_location: (loc(), loc()) }, 3);
    }
    #[kani::proof]
    #[kani::unwind(4)]
    fn k05a_members() {
        let v: u8 = kani::any();
        kani::assume(v < 2);
        let (e, n) = match v {
            0 => (Expression::StaticMember { obj: leaf(), field_name: CompactString::new_inline("f"), dot_location: loc(), field_location: loc() }, 1),
            _ => (Expression::DynamicMember { obj: leaf(), field_name: leaf(), bracket_location: (loc(), loc()) }, 2),
        };
        kani::cover!(v == 1);
        check(e, n);
    }
    #[kani::proof]
    #[kani::unwind(5)]
    fn k05a_call() {
        check(Expression::FuncCall { func: leaf(), args: vec![*leaf(), *leaf()], paren_location: (loc(), loc()) }, 3);
    }
    #[kani::proof]
    #[kani::unwind(5)]
    fn k05a_cond() {
        check(Expression::Cond { cond: leaf(), true_br: leaf(), false_br: leaf(), question_location: loc(), colon_location: loc() }, 3);
    }
    #[kani::proof]
    #[kani::unwind(5)]
    fn k05a_array_literal2() {
        let k0: u8 = kani::any();
        let k1: u8 = kani::any();
        kani::assume(k0 < 3 && k1 < 3); // 0 hole, 1 normal, 2 spread
        let expected = (k0 != 0) as usize + (k1 != 0) as usize;
        kani::cover!(k0 == 0 && k1 == 1);
        check(Expression::LitArr { fields: vec![afk(k0), afk(k1)], bracket_location: (loc(), loc()) }, expected);
    }
    #[kani::proof]
    #[kani::unwind(4)]
    fn k05a_leaves_and_unary() {
        let v: u8 = kani::any();
        kani::assume(v < 15);
        let (e, n) = match v {
            0 => (Expression::ScopeRef { location: loc(), index: 0 }, 0),
            1 => (Expression::DataField { name: CompactString::new_inline("a"), location: loc() }, 0),
            2 => (Expression::LitUndefined { location: loc() }, 0),
            3 => (Expression::LitNull { location: loc() }, 0),
            4 => (Expression::LitStr { value: CompactString::new_inline("s"), location: loc() }, 0),
            5 => (Expression::LitInt { value: 1, location: loc() }, 0),
            6 => (Expression::LitFloat { value: 1.5, location: loc() }, 0),
            7 => (Expression::LitBool { value: true, location: loc() }, 0),
            8 => un!(ToStringWithoutUndefined),
            9 => un!(Reverse),
            10 => un!(BitReverse),
            11 => un!(Positive),
            12 => un!(Negative),
            13 => un!(TypeOf),
            _ => un!(Void),
        };
        kani::cover!(v == 14);
        check(e, n);
    }
    #[kani::proof]
    #[kani::unwind(4)]
    fn k05a_binary_a() {
        let v: u8 = kani::any();
        kani::assume(v < 12);
        let (e, n) = match v {
            0 => bin!(Multiply),
            1 => bin!(Divide),
            2 => bin!(Remainer),
            3 => bin!(Plus),
            4 => bin!(Minus),
            5 => bin!(LeftShift),
            6 => bin!(RightShift),
            7 => bin!(UnsignedRightShift),
            8 => bin!(Lt),
            9 => bin!(Gt),
            10 => bin!(Lte),
            _ => bin!(Gte),
        };
        kani::cover!(v == 11);
        check(e, n);
    }
    #[kani::proof]
    #[kani::unwind(4)]
    fn k05a_binary_b() {
        let v: u8 = kani::any();
        kani::assume(v < 11);
        let (e, n) = match v {
            0 => bin!(InstanceOf),
            1 => bin!(Eq),
            2 => bin!(Ne),
            3 => bin!(EqFull),
            4 => bin!(NeFull),
            5 => bin!(BitAnd),
            6 => bin!(BitXor),
            7 => bin!(BitOr),
            8 => bin!(LogicAnd),
            9 => bin!(LogicOr),
            _ => bin!(NullishCoalescing),
        };
        kani::cover!(v == 10);
        check(e, n);
    }

    // K05b: convert_scopes on a leaf: the innermost (last) matching scope wins, otherwise it stays a data field
    #[kani::proof]
    #[kani::unwind(6)]
    fn k05b_convert_scopes_leaf() {
        let names = ["a", "b"];
        let s0: usize = kani::any();
        let s1: usize = kani::any();
        let s2: usize = kani::any();
        let x: usize = kani::any();
        kani::assume(s0 < 2 && s1 < 2 && s2 < 2 && x < 2);
        let nscopes: usize = kani::any();
        kani::assume(nscopes <= 3);
        let scopes = [
            (CompactString::new_inline(names[s0]), loc()),
            (CompactString::new_inline(names[s1]), loc()),
            (CompactString::new_inline(names[s2]), loc()),
        ];
        let mut e = Expression::DataField { name: CompactString::new_inline(names[x]), location: loc() };
        e.convert_scopes(&scopes[..nscopes]);
        let ss = [s0, s1, s2];
        let mut expect: Option<usize> = None;
        let mut i = 0;
        while i < nscopes {
            if ss[i] == x {
                expect = Some(i);
            }
            i += 1;
        }
        kani::cover!(expect == Some(2));
        kani::cover!(expect.is_none() && nscopes == 3);
        match (&e, expect) {
            (Expression::ScopeRef { index, .. }, Some(i)) => assert!(*index == i),
            (Expression::DataField { .. }, None) => {}
            _ => assert!(false),
        }
        std::mem::forget(e);
        std::mem::forget(scopes);
    }

    // K01a: parse_number on "0x" + 2 symbolic ASCII bytes: no panic (cross-check of engine M's M01b on small inputs)
    #[kani::proof]
    #[kani::unwind(5)]
    #[kani::stub(core::str::slice_error_fail, fail_stub)]
    #[kani::stub(str::parse, parse_stub)]
    fn k01a_parse_number_hex2() {
        let mut b = [b'0', b'x', 0u8, 0u8];
        b[2] = kani::any();
        b[3] = kani::any();
        kani::assume(b[2] < 0x80 && b[2] != 0 && b[3] < 0x80 && b[3] != 0);
        let s = unsafe { std::str::from_utf8_unchecked(&b) };
        let mut ps = ParseState::new("", s, Position::default());
        let r = Expression::parse_number(&mut ps);
        kani::cover!(r.is_some());
        kani::cover!(r.is_none());
        std::mem::forget(r);
        std::mem::forget(ps);
    }
}
