// hooks for tc_parse (included into the repo crate under cfg(any(kani, glass_easel_verif)))
