"""C07 - binding-map fast path is sound and only offered where complete.

J07b (engine J): for every template of the family and every field f of the emitted `A={...}` initialiser:
 (i)   every advertised field is read only at plain binding sites outside wx:if / wx:for / template / slot subtrees and not in a
       structural position (structural comparison of the real output with the template model);
 (ii)  the registered updaters of f are exactly the sites that read f (no site missing, no hole in the slot array);
 (iii) each updater, run with data D, performs the same setter call with the same value as the site's creation-time code - decided
       by z3 for all D.
K07a = K05a (Kani): the traversal used by collect_binding_map_keys / disable_binding_map_keys visits every child expression.
"""
import json
import time
import z3

from lib import common
from lib.common import Result, log
from jssym import model as M, driver, guards
from jssym.model import L
from jssym.jsparse import JsUnsupported
from jssym.protocol import Runtime
from jssym.interp import V, UNDEFINED, NULL, JObj, JArr, Closure, Native, HOLE_PY, is_v
from checks.c05 import esc

I = lambda n: ('id', n)


class Tm:
    """template model for C07: elements with binding sites, control-flow wrappers"""

    def __init__(self):
        self.n = 0
        self.sites = []

    def site(self, family, e, ctx):
        self.n += 1
        s = {'id': self.n, 'family': family, 'expr': e, 'ctx': ctx}
        self.sites.append(s)
        return s


FAMILIES = {
    'attr': lambda i, t: 'p%d="{{ %s }}"' % (i, t), 'class': lambda i, t: 'class="c%d {{ %s }}"' % (i, t), 'style': lambda i, t: 'style="s%d:{{ %s }}"' % (i, t),
    'id': lambda i, t: 'id="{{ %s }}"' % t, 'data': lambda i, t: 'data-k%d="{{ %s }}"' % (i, t), 'mark': lambda i, t: 'mark:m%d="{{ %s }}"' % (i, t),
    'event': lambda i, t: 'bind:e%d="{{ %s }}"' % (i, t), 'model': lambda i, t: 'model:v%d="{{ %s }}"' % (i, t), 'change': lambda i, t: 'change:q%d="{{ %s }}"' % (i, t),
    'slot': lambda i, t: 'slot="{{ %s }}"' % t,
}
SETTER = {'attr': ('r', lambda i: 'p%d' % i), 'class': ('c', None), 'style': ('y', None), 'id': ('i', None), 'data': ('d', lambda i: 'k%d' % i),
          'mark': ('m', lambda i: 'm%d' % i), 'event': ('v', lambda i: 'e%d' % i), 'model': ('r', lambda i: 'v%d' % i), 'change': ('p', lambda i: 'q%d' % i),
          'slot': ('s', None)}


def el(tm, sites, text=None, ctx='plain', children=''):
    """one <view> with attribute sites (family, expr) and an optional text binding"""
    parts = []
    used = set()
    for fam, e in sites:
        if fam in ('class', 'style', 'id', 'slot') and fam in used:
            continue
        used.add(fam)
        s = tm.site(fam, e, ctx)
        parts.append(FAMILIES[fam](s['id'], esc(M.pr(e))))
    inner = children
    if text is not None:
        s = tm.site('text', text, ctx)
        inner += 't%d{{ %s }}' % (s['id'], esc(M.pr(text)))
    return '<view %s>%s</view>' % (' '.join(parts), inner)


def programs(tier):
    progs = []

    def add(title, build):
        tm = Tm()
        wxml = build(tm)
        progs.append({'title': title, 'wxml': wxml, 'sites': tm.sites, 'structural': getattr(tm, 'structural', [])})
    x, y, z, w, q = I('x'), I('y'), I('z'), I('w'), I('q')
    fams = list(FAMILIES)
    # every family, shared and repeated fields, several expression shapes
    add('families', lambda tm: el(tm, [(f, ('mem', I('f_' + f), 'k') if f not in ('event', 'change') else I('f_' + f)) for f in fams], text=('bin', '+', x, y)) +
        el(tm, [('attr', x), ('attr', ('bin', '+', x, x)), ('data', ('idx', y, x)), ('class', ('cond', x, y, z))], text=z))
    for e in [x, ('mem', x, 'k'), ('idx', x, y), ('bin', '+', x, y), ('call', x, [y]), ('arr', [x, None, y]), ('obj', [('spread', x), ('kv', 'k', y)]), ('cond', x, y, z),
              ('bin', '??', x, y), ('un', '!', x)]:
        add('shape ' + M.pr(e), lambda tm, e=e: el(tm, [('attr', e), ('class', e)], text=e) + el(tm, [('data', y)]))
    # fields that are also used where the map cannot reach
    add('wx:if subtree', lambda tm: el(tm, [('attr', x), ('attr', y)]) + '<view wx:if="{{ w }}">' + el(tm, [('attr', x)], ctx='if') + '</view>' + el(tm, [('attr', q)], text=y))
    add('wx:if condition', lambda tm: el(tm, [('attr', x), ('attr', w)]) + '<view wx:if="{{ w.k }}">a</view><view wx:elif="{{ z }}">b</view>' + el(tm, [('attr', z)]))
    add('wx:for', lambda tm: el(tm, [('attr', x), ('attr', y), ('attr', I('l'))]) + '<view wx:for="{{ l }}">' + el(tm, [('attr', ('bin', '+', I('item'), x))], ctx='for') + '</view>')
    add('template is/data', lambda tm: el(tm, [('attr', x), ('attr', y), ('attr', z)]) + '<template is="t" data="{{ {a: x, b: z.k} }}"/><template name="t">' +
        el(tm, [('attr', I('a')), ('attr', y)], ctx='tdef') + '</template>')
    add('slot', lambda tm: el(tm, [('attr', x), ('attr', y), ('attr', z)]) + '<slot name="{{ x }}" v="{{ y }}"/>')
    add('component slot content', lambda tm: el(tm, [('attr', x)]) + '<comp><view slot:v>' + el(tm, [('attr', ('bin', '+', I('v'), y))], ctx='slotted') + '</view>' +
        el(tm, [('attr', z)], ctx='comp-child') + '</comp>' + el(tm, [('attr', y), ('attr', z)]))
    add('block and nested elements', lambda tm: '<block>' + el(tm, [('attr', x)], children=el(tm, [('attr', ('mem', x, 'k')), ('data', y)], text=y)) + '</block>')
    add('include', lambda tm: el(tm, [('attr', x)]) + '<include src="b"/>' + el(tm, [('attr', y)]))
    # nesting of dynamic subtrees: a use before / after an inner dynamic node, still inside the outer one, and after both
    outers = {'if': ('<view wx:if="{{ w }}">%s</view>', 'if'), 'else': ('<view wx:if="{{ w }}">a</view><view wx:else>%s</view>', 'if'),
              'for': ('<view wx:for="{{ l }}">%s</view>', 'for'), 'block-for': ('<block wx:for="{{ l }}" wx:key="k">%s</block>', 'for')}
    inners = {'if': '<text wx:if="{{ w2 }}">on</text>', 'for': '<block wx:for="{{ l2 }}">i</block>', 'template-is': '<template is="t"/>',
              'include': '<include src="b"/>', 'slot': '<slot/>', 'if-else': '<text wx:if="{{ w2 }}">on</text><text wx:else>off</text>'}
    tdef = '<template name="t"><view/></template>'
    for on, (ow, octx) in outers.items():
        for inn, iw in inners.items():
            if tier != 'thorough' and (on, inn) not in (('if', 'for'), ('for', 'if'), ('else', 'for'), ('for', 'template-is'), ('if', 'slot'), ('block-for', 'include'), ('for', 'if-else'), ('if', 'if')):
                continue
            add('nested %s > %s' % (on, inn), lambda tm, ow=ow, octx=octx, iw=iw: el(tm, [('attr', x)]) +
                ow % (el(tm, [('attr', I('q1'))], ctx=octx) + iw + el(tm, [('attr', I('q2'))], text=I('q3'), ctx=octx)) + el(tm, [('attr', y)], text=I('q4')) + tdef)
    for (o1, o2) in (('for', 'if'), ('if', 'for')):
        add('nested depth 3 %s > %s' % (o1, o2), lambda tm, o1=o1, o2=o2: el(tm, [('attr', x)]) +
            outers[o1][0] % (outers[o2][0] % (inners['if'] + el(tm, [('attr', I('q1'))], ctx=outers[o2][1])) + el(tm, [('attr', I('q2'))], ctx=outers[o1][1])) + el(tm, [('attr', y)]))
    return progs


def data_roots(e, scope=()):
    return [r for (r, _) in guards.reads(e) if r not in scope]


SCOPE_NAMES = {'for': ('item', 'index'), 'slotted': ('v',), 'tdef': ()}


def main(tier):
    res = Result('C07', 'translation_validation')
    res.engines = ['J (symbolic execution of the emitted JavaScript + z3)', 'K (Kani: traversal completeness, shared with C05)']
    progs = programs(tier)
    # the included file reads the fields x and y of the includer's data (it is instantiated with the includer's D)
    groups = [{'files': [['a', p['wxml']], ['b', INCLUDED]], 'main': 'a'} for p in progs]
    comp = driver.compile_groups(groups, want=('gen_object', 'runtime', 'gen_groups'))
    nobl = 0
    bad = []
    for p, cmp_ in zip(progs, comp):
        if 'panic' in cmp_:
            res.violation({'engine': 'J', 'harness': 'compile', 'class': 'panic:' + p['title']}, 'compiler panics on %r: %s' % (p['wxml'], cmp_['panic']), {'wxml': p['wxml']})
            continue
        if any(dg['level'] >= 3 for dg in cmp_['diagnostics']):
            res.inconc('%s rejected by the parser: %s' % (p['wxml'][:120], cmp_['diagnostics'][:1]))
            continue
        try:
            out = check_program(p, cmp_, res)
        except JsUnsupported as e:
            res.inconc('%s: outside the translator: %s' % (p['title'], e))
            continue
        for kind, desc, ok in out:
            nobl += 1
            if not ok:
                bad.append((p, kind, desc))
    for p, kind, desc in bad:
        res.coverage['disagreements_checked'] = res.coverage.get('disagreements_checked', 0) + 1
        res.violation({'engine': 'J', 'harness': 'binding-map', 'class': '%s/%s' % (p['title'], kind)},
                      'binding map of %r: %s' % (p['wxml'][:300], desc), {'wxml': p['wxml'], 'kind': kind})
    import os
    try:
        if os.environ.get('VERIF_DEV_SKIP_KANI'):     # development aid only (never set by the registered commands): makes the run inconclusive
            res.inconc('Kani part skipped (VERIF_DEV_SKIP_KANI)')
            raise ImportError('skipped')
        from kani import runner
        runner.run_for(res, 'C07', tier, names=None if tier == 'thorough' else ['k05a_array_literal2', 'k05a_object_literal', 'k05a_call'])
    except ImportError:
        res.coverage['kani'] = 'harnesses not built in this revision'
    res.coverage.update({'programs': len(progs), 'obligations': nobl, 'disagreements_checked': res.coverage.get('disagreements_checked', 0),
                         'explanation': 'structural comparison of the advertised fields / registrations with the template model, and per updater a z3 query: updater value == creation value for all D'})
    res.bounds = {'templates': '%d families: every attribute family, 10 expression shapes, wx:if / wx:for / template / slot / component / include contexts' % len(progs)}
    res.assumptions = ['a field read in a position the map cannot reach must not be advertised; not advertising is always allowed']
    res.outside = ['tmpl/index.ts choosing between map and tree update']
    return res.finish()


INCLUDED = '<view inc9="{{ x }}" inc8="{{ y.k }}"/>'
INCLUDED_READS = {'x': 'inc9', 'y': 'inc8'}


def check_program(p, cmp_, res):
    rt = Runtime('create')
    if '<include' in p['wxml'] or '<import' in p['wxml']:
        H = rt.load_groups(cmp_['gen_groups'], 'a')
    else:
        H = rt.load(cmp_['gen_object'], cmp_['runtime'])
    root = rt.run(H)
    it = rt.it
    out = []
    A = rt.binding_map
    adv = list(A.order) if isinstance(A, JObj) else []
    # --- model side: where is each data field read?
    occ = {}
    for s in p['sites']:
        if s['ctx'] == 'tdef':
            continue          # identifiers in a <template name> body are fields of that template's own data
        scope = SCOPE_NAMES.get(s['ctx'], ())
        for r in set(data_roots(s['expr'], scope)):
            occ.setdefault(r, []).append(s)
    structural = structural_fields(p['wxml'])
    for f in adv:
        sites = occ.get(f, [])
        # ('slotted' = content of a component child carrying slot: values is NOT counted as unreachable here: whether such content is
        #  instantiated more than once is decided by the TypeScript runtime, which cannot be executed in this sandbox - see DESIGN C07)
        unreachable = [s for s in sites if s['ctx'] in ('if', 'for', 'tdef')]
        out.append(('advertised-unreachable', 'field %r is advertised although it is read under %s' % (f, sorted(set(s['ctx'] for s in unreachable))), not unreachable))
        out.append(('advertised-structural', 'field %r is advertised although it is used in a structural position' % f, f not in structural))
    # --- <template name> bodies advertise nothing
    for name in H.order:
        if name == '':
            continue
        rt2 = Runtime('create')
        H2 = rt2.load(cmp_['gen_object'], cmp_['runtime']) if not ('<include' in p['wxml'] or '<import' in p['wxml']) else rt2.load_groups(cmp_['gen_groups'], 'a')
        rt2.run(H2, name=name)
        A2 = rt2.binding_map
        n2 = len(A2.order) if isinstance(A2, JObj) else 0
        out.append(('template-body-map', '<template name=%r> advertises binding-map fields %s' % (name, A2.order if n2 else []), n2 == 0))
    # --- registrations
    for f in adv:
        arr = A.props[f]
        if not isinstance(arr, JArr):
            out.append(('shape', 'A[%r] is not an array' % f, False))
            continue
        holes = [i for i, x in enumerate(arr.items) if x is HOLE_PY or x is UNDEFINED]
        out.append(('hole', 'A[%r] has %d slots without updater (%s)' % (f, len(arr.items), holes), not holes))
        updated = []
        seen = set()
        for clo in arr.items:
            if not isinstance(clo, Closure) or id(clo) in seen:
                continue
            seen.add(id(clo))
            ops = run_updater(rt, root, clo)
            for (node, setter, args, text) in ops:
                updated.append((node, setter, args[0] if args and setter in ('r', 'd', 'm', 'v', 'p') else None))
                ok, desc = same_as_creation(rt, root, node, setter, args, text, res)
                out.append(('updater-value', 'updater registered under %r: %s' % (f, desc), ok))
        # content of an included file is rendered with the includer's data: if f is advertised and the included file reads f, some updater
        # of f has to refresh that node as well (the compiler does not see the included file: it must not advertise at all)
        if '<include' in p['wxml'] and f in INCLUDED_READS:
            hit = [u for u in updated if u[1] == 'r' and is_name(u[2], INCLUDED_READS[f])]
            out.append(('missing-updater-included', 'field %r is advertised by a file with <include>; the included file reads it (%s="{{ ... }}") but no updater of A[%r] refreshes that node'
                        % (f, INCLUDED_READS[f], f), bool(hit)))
        # every plain site that reads f must be updated by one of f's updaters
        for s in occ.get(f, []):
            if s['ctx'] not in ('plain', 'comp-child', 'slotted'):
                continue
            setter, namefn = SETTER.get(s['family'], (None, None)) if s['family'] != 'text' else ('text', None)
            name = namefn(s['id']) if namefn else None
            hit = [u for u in updated if u[1] == setter and (name is None or is_name(u[2], name))]
            out.append(('missing-updater', 'site %s#%d {{ %s }} reads %r but no updater of A[%r] refreshes it' % (s['family'], s['id'], M.pr(s['expr']), f, f), bool(hit)))
    return out


def is_name(v, name):
    return v == name


def structural_fields(wxml):
    """data fields in structural positions of this family's templates (conditions, lists, template targets/data, slot names / values)"""
    import re
    out = set()
    for m in re.finditer(r'(?:wx:if|wx:elif|wx:for|is|data|name|v)="\{\{ ?(.*?) ?\}\}"', wxml):
        if m.group(0).startswith('name=') and '<slot' not in wxml[max(0, m.start() - 8):m.start()]:
            continue
        for ident in re.findall(r'[A-Za-z_]\w*', m.group(1)):
            out.add(ident)
    return out


def run_updater(rt, root, clo):
    """run a binding-map updater (D, elementUpdated, updateText) and return the setter operations it performs"""
    it = rt.it
    marks = {id(n): len(n.attrs) for n in driver.walk(root)}
    texts = []
    E = Native('elementUpdated', lambda it_, this, args: UNDEFINED)

    def T(it_, this, args):
        tok = args[0]
        texts.append((getattr(tok, 'node', None), args[1] if len(args) > 1 else UNDEFINED))
        return UNDEFINED
    # the updater is run on *fresh* data D': the fast path runs after a later setData, so whatever the updater computes must be a function
    # of its own argument - a value captured from the creation pass (e.g. a hoisted `var $A=D.k` of the enclosing function) would be stale
    it.call(clo, [D_UPD, E, Native('updateText', T)])
    ops = []
    for n in driver.walk(root):
        new = n.attrs[marks.get(id(n), 0):]
        for a in new:
            ops.append((n, a[0], a[1], None))
        del n.attrs[marks.get(id(n), 0):]
    for node, text in texts:
        ops.append((node, 'text', [], text))
    return ops


D_UPD = z3.Const('D_upd', V)


def decide_same(rt, cre_value, upd_value):
    """creation value with D := D' must equal the updater's value computed from D'"""
    import time as _t
    it = rt.it
    ta = z3.substitute(it.term(cre_value), (rt.D, D_UPD))
    tb = it.term(upd_value)
    s_ = z3.Solver()
    s_.set('timeout', 20000)
    for ax in it.axioms:
        s_.add(ax)
        s_.add(z3.substitute(ax, (rt.D, D_UPD)))
    s_.add(ta != tb)
    t0 = _t.time()
    r = s_.check()
    dt = _t.time() - t0
    return ('unsat' if r == z3.unsat else 'sat' if r == z3.sat else 'unknown'), (s_.model() if r == z3.sat else None), dt


def same_as_creation(rt, root, node, setter, args, text, res):
    it = rt.it
    if setter == 'text':
        if node is None or node.kind != 'T':
            return False, 'updateText on a non-text node'
        verdict, model, dt = decide_same(rt, node.text, text)
        res.solver_time += dt
        res.query(verdict)
        return verdict == 'unsat', 'text updater value differs from the creation value'
    # creation-time call with the same setter (and name)
    named = setter in ('r', 'd', 'm', 'v', 'p', 'l', 'a', 'wl')
    cands = [a for a in node.attrs if a[0] == setter and (not named or (a[1] and args and a[1][0] == args[0]))]
    if setter == 's' and not cands:
        # the slot name is passed to E at creation and set through R.s by the updater
        verdict, model, dt = decide_same(rt, node.slot, args[0])
        res.solver_time += dt
        res.query(verdict)
        return verdict == 'unsat', 'slot updater value differs from the creation value'
    if len(cands) != 1:
        return False, 'updater calls R.%s(%s) which the creation code does not call exactly once on that node' % (setter, args[0] if args else '')
    cre = cands[0][1]
    if len(cre) != len(args):
        return False, 'updater calls R.%s with %d arguments, creation with %d' % (setter, len(args), len(cre))
    for x, y in zip(cre, args):
        if isinstance(x, (str, bool, int)) and isinstance(y, (str, bool, int)):
            if x != y:
                return False, 'R.%s argument %r vs %r' % (setter, x, y)
            continue
        if isinstance(x, JArr) or isinstance(y, JArr):
            tx, ty = it.term(x), it.term(y)
        verdict, model, dt = decide_same(rt, x, y)
        res.solver_time += dt
        res.query(verdict)
        if verdict != 'unsat':
            return False, 'R.%s(%s): updater value differs from the creation value (%s)' % (setter, args[0] if args else '', verdict)
    return True, 'ok'


def replay(path):
    d = json.load(open(path))
    print(json.dumps(d, indent=1)[:3000])
    return 1
