//! Native replay CLI: runs the real compilers (built from /repo's working tree with --cfg glass_easel_verif)
//! on concrete inputs.  Every sub-command prints one JSON document on stdout.  A panic inside the
//! compilers is caught and reported as {"panic": "..."} (exit code 0) so that the driver can tell a
//! reproduced panic from a crashed tool.
use std::io::Read;
use std::panic;

use glass_easel_stylesheet_compiler as sc;
use glass_easel_template_compiler as tc;
use serde_json::{json, Value};

fn read_stdin() -> String {
    let mut s = String::new();
    std::io::stdin().read_to_string(&mut s).unwrap();
    s
}

fn catch<F: FnOnce() -> Value + panic::UnwindSafe>(f: F) -> Value {
    panic::set_hook(Box::new(|_| {}));
    match panic::catch_unwind(f) {
        Ok(v) => v,
        Err(e) => {
            let msg = if let Some(s) = e.downcast_ref::<&str>() {
                s.to_string()
            } else if let Some(s) = e.downcast_ref::<String>() {
                s.clone()
            } else {
                "<non-string panic>".to_string()
            };
            json!({ "panic": msg })
        }
    }
}

fn css_one(req: &Value) -> Value {
    let css = req["css"].as_str().unwrap_or("").to_string();
    let o = &req["options"];
    let options = sc::StyleSheetOptions {
        class_prefix: o["class_prefix"].as_str().map(|x| x.to_string()),
        class_prefix_sign: o["class_prefix_sign"].as_str().map(|x| x.to_string()),
        rpx_ratio: o["rpx_ratio"].as_f64().map(|x| x as f32).unwrap_or(750.),
        import_sign: o["import_sign"].as_str().map(|x| x.to_string()),
        convert_host: o["convert_host"].as_bool().unwrap_or(false),
        host_is: o["host_is"].as_str().map(|x| x.to_string()),
    };
    let want_map = req["source_map"].as_bool().unwrap_or(false);
    catch(move || {
        let mut t = sc::StyleSheetTransformer::from_css("p.wxss", &css, options);
        let warnings: Vec<Value> = t
            .take_warnings()
            .into_iter()
            .map(|w| {
                json!({"code": w.kind.clone() as u32, "msg": format!("{}", w.kind), "level": w.kind.level() as u8,
                       "start": [w.location.start.line, w.location.start.utf16_col],
                       "end": [w.location.end.line, w.location.end.utf16_col]})
            })
            .collect();
        let (normal, low) = t.output_and_low_priority_output();
        let mut ns = String::new();
        normal.write_str(&mut ns).unwrap();
        let mut ls = String::new();
        low.write_str(&mut ls).unwrap();
        let mut out = json!({"normal": ns, "low": ls, "warnings": warnings});
        if want_map {
            let sm = normal.extract_source_map();
            let toks: Vec<Value> = sm
                .tokens()
                .map(|t| json!([t.get_dst_line(), t.get_dst_col(), t.get_src_line(), t.get_src_col(), t.get_name()]))
                .collect();
            out["map"] = json!(toks);
            let sm = low.extract_source_map();
            let toks: Vec<Value> = sm
                .tokens()
                .map(|t| json!([t.get_dst_line(), t.get_dst_col(), t.get_src_line(), t.get_src_col(), t.get_name()]))
                .collect();
            out["low_map"] = json!(toks);
        }
        out
    })
}

fn tmpl_one(req: &Value) -> Value {
    // {"files": [[path, text], ...], "scripts": [[path, text], ...], "main": path, "want": [...]}
    let req = req.clone();
    catch(move || {
        let mut g = tc::TmplGroup::new();
        let mut diags = vec![];
        for f in req["files"].as_array().unwrap_or(&vec![]) {
            let ws = g.add_tmpl(f[0].as_str().unwrap(), f[1].as_str().unwrap());
            for w in ws {
                diags.push(json!({"path": f[0], "kind": format!("{:?}", w.kind), "code": w.kind.clone() as u32, "level": w.kind.level() as u8,
                    "start": [w.location.start.line, w.location.start.utf16_col],
                    "end": [w.location.end.line, w.location.end.utf16_col]}));
            }
        }
        for f in req["scripts"].as_array().unwrap_or(&vec![]) {
            g.add_script(f[0].as_str().unwrap(), f[1].as_str().unwrap());
        }
        let mut out = json!({ "diagnostics": diags });
        let main = req["main"].as_str().unwrap_or("");
        for w in req["want"].as_array().unwrap_or(&vec![]) {
            let w = w.as_str().unwrap();
            let v = match w {
                "gen_object" => g.get_tmpl_gen_object(main).map_err(|e| e.message),
                "gen_groups" => g.get_tmpl_gen_object_groups().map_err(|e| e.message),
                "wx_groups" => g.get_wx_gen_object_groups().map_err(|e| e.message),
                "runtime" => Ok(g.get_runtime_string()),
                "globals" => g.export_globals().map_err(|e| e.message),
                "scripts" => g.export_all_scripts().map_err(|e| e.message),
                "stringify" => g.stringify_tmpl(main).ok_or("no such template".to_string()),
                "direct_dependencies" | "script_dependencies" => {
                    let r = if w == "direct_dependencies" {
                        g.direct_dependencies(main).map(|x| x.collect::<Vec<String>>()).map_err(|e| e.message)
                    } else {
                        g.script_dependencies(main).map(|x| x.collect::<Vec<String>>()).map_err(|e| e.message)
                    };
                    out[w] = match r {
                        Ok(v) => json!(v),
                        Err(e) => json!({ "error": e }),
                    };
                    continue;
                }
                "text_locations" => {
                    let src = req["files"].as_array().and_then(|fs| fs.iter().find(|f| f[0].as_str() == Some(main))).and_then(|f| f[1].as_str()).unwrap_or("");
                    out[w] = json!(tc::verif::text_locations(src));
                    continue;
                }
                _ => Err(format!("unknown want {}", w)),
            };
            out[w] = match v {
                Ok(s) => json!(s),
                Err(e) => json!({ "error": e }),
            };
        }
        out
    })
}

fn tok_json(t: &cssparser::Token) -> Value {
    use cssparser::Token::*;
    match t {
        Ident(s) => json!(["Ident", s.as_ref()]),
        AtKeyword(s) => json!(["AtKeyword", s.as_ref()]),
        Hash(s) => json!(["Hash", s.as_ref()]),
        IDHash(s) => json!(["IDHash", s.as_ref()]),
        QuotedString(s) => json!(["QuotedString", s.as_ref()]),
        UnquotedUrl(s) => json!(["UnquotedUrl", s.as_ref()]),
        Delim(c) => json!(["Delim", c.to_string()]),
        Number { has_sign, value, int_value } => json!(["Number", has_sign, value, int_value]),
        Percentage { has_sign, unit_value, int_value } => json!(["Percentage", has_sign, unit_value, int_value]),
        Dimension { has_sign, value, int_value, unit } => json!(["Dimension", has_sign, value, int_value, unit.as_ref()]),
        WhiteSpace(_) => json!(["WhiteSpace"]),
        Comment(s) => json!(["Comment", s]),
        Colon => json!(["Colon"]),
        Semicolon => json!(["Semicolon"]),
        Comma => json!(["Comma"]),
        IncludeMatch => json!(["IncludeMatch"]),
        DashMatch => json!(["DashMatch"]),
        PrefixMatch => json!(["PrefixMatch"]),
        SuffixMatch => json!(["SuffixMatch"]),
        SubstringMatch => json!(["SubstringMatch"]),
        CDO => json!(["CDO"]),
        CDC => json!(["CDC"]),
        Function(s) => json!(["Function", s.as_ref()]),
        ParenthesisBlock => json!(["ParenthesisBlock"]),
        SquareBracketBlock => json!(["SquareBracketBlock"]),
        CurlyBracketBlock => json!(["CurlyBracketBlock"]),
        BadUrl(s) => json!(["BadUrl", s.as_ref()]),
        BadString(s) => json!(["BadString", s.as_ref()]),
        CloseParenthesis => json!(["CloseParenthesis"]),
        CloseSquareBracket => json!(["CloseSquareBracket"]),
        CloseCurlyBracket => json!(["CloseCurlyBracket"]),
    }
}

fn css_forest(p: &mut cssparser::Parser, comments: bool) -> Vec<Value> {
    let mut out = vec![];
    loop {
        let loc = p.current_source_location();
        let t = if comments { p.next_including_whitespace_and_comments() } else { p.next_including_whitespace() };
        let t = match t {
            Ok(t) => t.clone(),
            Err(_) => break,
        };
        let mut j = tok_json(&t);
        let is_block = matches!(
            t,
            cssparser::Token::Function(_)
                | cssparser::Token::ParenthesisBlock
                | cssparser::Token::SquareBracketBlock
                | cssparser::Token::CurlyBracketBlock
        );
        let mut entry = json!({"t": j.take(), "line": loc.line, "col": loc.column});
        if is_block {
            let children: Result<Vec<Value>, cssparser::ParseError<()>> = p.parse_nested_block(|p| Ok(css_forest(p, comments)));
            entry["children"] = json!(children.unwrap_or_default());
        }
        out.push(entry);
    }
    out
}

fn main() {
    let args: Vec<String> = std::env::args().collect();
    let cmd = args.get(1).map(|s| s.as_str()).unwrap_or("");
    let out = match cmd {
        "get-var-name" => {
            let v: Vec<Value> = args[2..]
                .iter()
                .map(|a| {
                    let id: usize = a.parse().unwrap();
                    catch(move || json!(tc::verif::get_var_name(id)))
                })
                .collect();
            json!(v)
        }
        "parse-number" => {
            // inputs: JSON array of strings on stdin
            let inputs: Vec<String> = serde_json::from_str(&read_stdin()).unwrap();
            let v: Vec<Value> = inputs
                .into_iter()
                .map(|s| {
                    catch(move || {
                        let (d, n, w) = tc::verif::parse_number(&s);
                        json!({"result": d, "consumed": n, "warnings": w})
                    })
                })
                .collect();
            json!(v)
        }
        "css" => {
            // stdin: JSON array of requests
            let reqs: Vec<Value> = serde_json::from_str(&read_stdin()).unwrap();
            json!(reqs.iter().map(css_one).collect::<Vec<_>>())
        }
        "sub-expr-counts" => {
            // every expression form x every combination of three literal-field kinds: [v,k0,k1,k2,yielded,yielded_mut,expected]
            let mut out = vec![];
            for v in 0u8..44 {
                for k in 0u8..27 {
                    let (k0, k1, k2) = (k % 3, (k / 3) % 3, k / 9);
                    let r = catch(move || {
                        let (n, m, e) = tc::verif::sub_expr_counts(v, k0, k1, k2);
                        json!([v, k0, k1, k2, n, m, e])
                    });
                    out.push(r);
                }
            }
            json!(out)
        }
        "primitive-steps" => {
            // stdin: JSON array of [text, cursor, op, arg]
            let reqs: Vec<(String, usize, u8, String)> = serde_json::from_str(&read_stdin()).unwrap();
            json!(reqs
                .into_iter()
                .map(|(s, cur, op, arg)| {
                    catch(move || {
                        let r = tc::verif::primitive_step(&s, cur, op, &arg);
                        json!([r.0, r.1, r.2, r.3, r.4, r.5, r.6])
                    })
                })
                .collect::<Vec<_>>())
        }
        "css-tokens" => {
            // stdin: JSON array of css strings; output: token forest of each (comments skipped like the transformer does)
            let reqs: Vec<String> = serde_json::from_str(&read_stdin()).unwrap();
            json!(reqs
                .iter()
                .map(|s| {
                    let s = s.clone();
                    catch(move || {
                        let mut pi = cssparser::ParserInput::new(&s);
                        let mut p = cssparser::Parser::new(&mut pi);
                        json!(css_forest(&mut p, false))
                    })
                })
                .collect::<Vec<_>>())
        }
        "tmpl" => {
            let reqs: Vec<Value> = serde_json::from_str(&read_stdin()).unwrap();
            json!(reqs.iter().map(tmpl_one).collect::<Vec<_>>())
        }
        _ => {
            eprintln!("usage: verif-replay get-var-name|parse-number|css|tmpl");
            std::process::exit(64);
        }
    };
    println!("{}", out);
}
