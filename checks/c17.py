"""C17 - :host conversion partitions rules without loss (routine/trace level, engine M open environment)."""
import json
from checks import css_common as cc


def main(tier):
    res = cc.run_property('C17', tier, ['qualified_rule', 'at_rule'], extra_targets=['class_name'])
    return res.finish()


def replay(path):
    d = json.load(open(path))
    why, out = cc.oracle_mismatch(d['replay']['css'], d['replay']['options'])
    print(out, why)
    return 1 if why else 0
