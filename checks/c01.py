"""C01 - both compilers are total (kernel level).

M01b  Expression::parse_number (MIR, ParseState contracts): any ASCII sequence up to L characters (plus structured
      families that reach the i64 boundaries): no reachable panic / unreachable!() / failed overflow or bounds assert /
      unwrap on None, every loop iteration advances the cursor (unwinding assertion).
M01e  CustomAttribute::parse_until_tag_end (MIR): any sequence of <= 3(4) Unicode scalar values: the recovery loop makes
      progress (unwinding assertion).  Its twin inside Element::parse is replayed with the same witnesses.
M01g  get_var_name: no bounds / division assert fails (shared with C02).
Kani harnesses on the ParseState primitives (progress lemma) are part of C16's run (K16a) and are referenced here.
"""
import json
import subprocess
import time
import z3

from lib import common, smt
from lib.common import Result, log
from mirsym.mir import Module
from mirsym.core import Executor, Path, Agg, Ref, Opaque, Inconclusive
from mirsym import targets, ps_env, contracts
from mirsym.contracts import some, NONE


def replay_parse_number(strings):
    r = common.replay(['parse-number'], stdin=json.dumps(strings), timeout=60)
    if r.returncode != 0:
        raise Inconclusive('replay tool failed: ' + r.stderr[-300:])
    return json.loads(r.stdout)


def replay_template(text, timeout=8):
    """-> 'ok' | 'panic:<msg>' | 'hang'"""
    req = [{'files': [['a', text]], 'main': 'a', 'want': ['gen_object', 'stringify']}]
    common.replay(['get-var-name', '0'])     # make sure the binary is built
    try:
        r = subprocess.run([common._replay_bin['dev'], 'tmpl'], input=json.dumps(req), stdout=subprocess.PIPE,
                           stderr=subprocess.PIPE, text=True, timeout=timeout)
    except subprocess.TimeoutExpired:
        return 'hang'
    if r.returncode != 0:
        return 'abort:%d' % r.returncode
    out = json.loads(r.stdout)[0]
    if 'panic' in out:
        return 'panic:' + out['panic']
    return 'ok'


def m01b(res, mod, tier):
    fams = []
    if tier == 'thorough':
        fams.append(('free ASCII', 24, None))
    else:
        fams.append(('free ASCII', 12, None))
        fams.append(('0x + alphanumerics', 20, ('0x', targets.alnum)))
        fams.append(('decimal digits', 21, ('', targets.digit)))
        fams.append(('0 + octal digits', 24, ('0', targets.octdigit)))
    total_paths = 0
    for name, L, fam in fams:
        t = time.time()
        exe, inp, fn, done = targets.run_ps_client(mod, r'376:1: 376:16>::parse_number$', L, family=fam)
        res.solver_time += exe.stats['solver_time']
        total_paths += len(done)
        log('[C01] M01b %s L=%d: %d paths, %d findings, %.1fs' % (name, L, len(done), len(exe.findings), time.time() - t))
        res.functions.append({'fn': 'Expression::parse_number + {closure#0} (parse/expr.rs)', 'family': name, 'max_chars': L,
                              'paths': len(done), 'solver_checks': exe.stats['solver_checks'], 'merged_states': exe.stats.get('merged', 0),
                              'contracts': sorted(exe.stats.get('contracts_used', {}))})
        res.query('unsat' if not exe.findings else 'sat', max(1, exe.stats['solver_checks']))
        if not any(p.status == 'returned' for p in done):
            res.inconc('M01b %s: no returning path (vacuous)' % name)
        kinds = {}
        for f in exe.findings:
            kinds.setdefault(f.kind.split(',')[0], f)
        for kind, f in kinds.items():
            if f.model is None:
                res.inconc('M01b finding %s without model' % kind)
                continue
            s = inp.string_of(f.model)
            out = replay_parse_number([s])[0]
            res.coverage['traces_validated_against_impl'] = res.coverage.get('traces_validated_against_impl', 0) + 1
            if 'panic' in out:
                cls = 'unreachable' if 'unreachable' in out['panic'] else ('overflow' if 'overflow' in out['panic'] else 'panic')
                res.violation({'engine': 'M', 'harness': 'M01b', 'class': cls},
                              'parse_number(%r) panics: %s' % (s, out['panic']), {'input': s, 'cmd': 'verif-replay parse-number'})
            elif kind == 'unwind':
                res.inconc('M01b: unwinding bound reached for %r but the real function returns %r' % (s, out))
            else:
                res.inconc('M01b: finding %s for %r does not reproduce natively (%r)' % (kind, s, out))
        # translator validation on this family's returned paths: one model per path class (bounded number)
        validate_parse_number(res, exe, inp, done)
    return total_paths


def validate_parse_number(res, exe, inp, done, limit=12):
    """M's prediction (None / LitInt value / warnings / consumed chars) against the real function on solver-chosen inputs."""
    picked = 0
    for p in done:
        if p.status != 'returned' or picked >= limit:
            continue
        ok, model = exe.check(exe.base + p.pc, want_model=True)
        if not ok:
            continue
        s = inp.string_of(model)
        if not s:
            continue
        picked += 1
        out = replay_parse_number([s])[0]
        idx, warns, _ = p.env['ps']
        r = p.result
        if 'panic' in out:
            res.inconc('translator validation: %r panics natively but M predicts a return' % s)
            continue
        if any(e[0] == 'parse_f64' for e in p.events):
            # whether core's dec2flt accepts the slice is environment nondeterminism in the model: only "returns" is compared
            res.coverage['traces_validated_against_impl'] = res.coverage.get('traces_validated_against_impl', 0) + 1
            continue
        pred_none = isinstance(r, Agg) and r.variant == 'None'
        real_none = out['result'] == 'None'
        bad = pred_none != real_none or out['warnings'] != warns or (not real_none and out['consumed'] != idx)
        if not bad and not pred_none:
            e = r.fields[0]
            if (e.variant or e.name) == 'LitInt':
                v = model.eval(e.fields[0], model_completion=True).as_long()
                bad = not out['result'].startswith('LitInt %d ' % v)
            elif (e.variant or e.name) == 'LitFloat':
                bad = not out['result'].startswith('LitFloat')
        if bad:
            res.inconc('translator validation: %r: M predicts %r (cursor %d, warnings %d), real %r' % (s, r, idx, warns, out))
        else:
            res.coverage['traces_validated_against_impl'] = res.coverage.get('traces_validated_against_impl', 0) + 1
            res.sample({'kernel': 'parse_number', 'input': s, 'real': out['result']})


def m01e(res, mod, tier):
    L = 4 if tier == 'thorough' else 3
    inp = ps_env.Input(L)
    table, _ = ps_env.make_table(inp)

    def parse_next(exe, path, callee, args, dst_ty):
        # opaque: only called when the peeked character is an identifier start; consumes >= 1 character
        idx, w, a = path.env['ps']
        outs = []
        for k in range(1, inp.L - idx + 1):
            c = inp.n >= idx + k
            if exe.feasible(path, [c]):
                for r in (some(Opaque('attr', {'structural': True, 'k': k})), NONE):
                    q = path.clone()
                    q.pc.append(c)
                    q.env['ps'] = (idx + k, w, a)
                    outs.append(('ret', q, r))
        return outs
    exe = Executor(mod, [(r'CustomAttribute::parse_next$', parse_next)] + table + contracts.TABLE, max_visits=L + 3)
    exe.base = inp.base(ascii_only=False)
    exe.merge = True
    fn = mod.find(r'::parse_until_tag_end$')
    p = Path()
    p.env['ps'] = (0, 0, None)
    p.store[('heap', 'ps')] = Agg('ParseState')
    t = time.time()
    done = exe.run(fn.name, [Ref(('heap', 'ps'))], p)
    res.solver_time += exe.stats['solver_time']
    log('[C01] M01e parse_until_tag_end L=%d: %d paths, %d findings, %.1fs' % (L, len(done), len(exe.findings), time.time() - t))
    res.functions.append({'fn': 'CustomAttribute::parse_until_tag_end (parse/tag.rs)', 'max_chars': L, 'alphabet': 'all Unicode scalar values',
                          'paths': len(done), 'mir_lines': fn.text_lines, 'contracts': sorted(exe.stats.get('contracts_used', {})) + ['CustomAttribute::parse_next (opaque: consumes >= 1 char)'],
                          'inlined': ['Ident::is_start_char', 'is_template_whitespace']})
    res.query('unsat' if not exe.findings else 'sat', max(1, exe.stats['solver_checks']))
    if not any(q.status == 'returned' for q in done):
        res.inconc('M01e: no returning path (vacuous)')
    seen = set()
    for f in exe.findings:
        if f.model is None:
            continue
        s = inp.string_of(f.model)
        cls = 'hang' if f.kind == 'unwind' else f.kind
        if (cls, s) in seen or len(seen) > 4:
            continue
        seen.add((cls, s))
        for tmpl in ('<!m ' + s + '>', '<a ' + s + '/>'):
            r = replay_template(tmpl)
            res.coverage['traces_validated_against_impl'] = res.coverage.get('traces_validated_against_impl', 0) + 1
            if r != 'ok':
                res.violation({'engine': 'M', 'harness': 'M01e', 'class': 'tag-recovery-' + r.split(':')[0]},
                              'template %r: %s (recovery loop does not advance on %s)' % (tmpl, r, [hex(ord(c)) for c in s]),
                              {'template': tmpl})
                break
        else:
            res.inconc('M01e finding %s for %r does not reproduce natively' % (f.kind, s))
    # vacuity / translator validation: a well-formed and a malformed tail both return natively
    for tmpl in ('<!m a="1" b>', '<!m ="x"   a>', '<a 　 b="1"/>'):
        r = replay_template(tmpl)
        if r != 'ok':
            res.violation({'engine': 'M', 'harness': 'M01e', 'class': 'tag-recovery-' + r.split(':')[0]},
                          'template %r: %s' % (tmpl, r), {'template': tmpl})
        else:
            res.coverage['traces_validated_against_impl'] = res.coverage.get('traces_validated_against_impl', 0) + 1
    return len(done)


def pipeline_probe(res):
    """Supporting, NOT solver-decided: the templates the J checks enumerate (C03 / C05 / C06 / C14 families, ~700 programs) are pushed
    through parse -> generate -> stringify of the real build; a panic anywhere is a replayed totality violation on a concrete input."""
    from checks import c14
    from jssym import driver
    progs = c14.programs('quick', res.seed)
    comp = driver.compile_batch(progs, want=('gen_object', 'stringify'))
    npanic = 0
    for t, c in zip(progs, comp):
        if 'panic' in c:
            npanic += 1
            if npanic == 1:
                res.violation({'engine': 'replay', 'harness': 'pipeline', 'class': 'panic:' + c['panic'].split(' at ')[0][:40]},
                              'the compiler panics on %r: %s' % (t[:300], c['panic']), {'template': t})
    # raw-text elements: the end-tag scanner of <wxs> with closing-tag look-alikes in the script (0..3 of them, followed by a name
    # character / space / '>' / end of input, ASCII and multi-byte text around): each in its own process with a time limit
    looks = ['</wxs-a>', '</wxsx', '</wx', '</wxs ', '</ wxs>', '<wxs>', '</WXS>', '</wxs.b>']
    raw = []
    for k in range(0, 4):
        for a in looks[:4 if k > 1 else len(looks)]:
            body = ';'.join('var v%d="%s%s"' % (i, '\u4e2d' if i % 2 else '', a) for i in range(k))
            raw.append('<wxs module="m">%s</wxs><view>{{ m.v0 }}</view>' % body)
    raw += ['<wxs module="m">var a="</wxs-a>"; var b="</wxs-b>";</wxs>', '<wxs module="m">a</wxs-a></wxs-b>', '<wxs module="m"></wxs', '<wxs module="m"></wxsa></wxsb>']
    nraw = 0
    for t in raw:
        r = replay_template(t, timeout=10)
        nraw += 1
        if r != 'ok':
            res.violation({'engine': 'replay', 'harness': 'pipeline', 'class': 'raw-text:' + r.split(':')[0]},
                          'the compiler %s on %r' % ('does not terminate within 10 s' if r == 'hang' else 'fails (%s)' % r, t), {'template': t})
            break
    res.coverage['pipeline_probe'] = {'programs': len(progs), 'panics': npanic, 'raw_text_templates': nraw, 'note': 'concrete runs; supporting only'}
    res.coverage['traces_validated_against_impl'] = res.coverage.get('traces_validated_against_impl', 0) + len(progs)


def kernel_sweep(res, mod, tier):
    """M01d/M01k: the other kernels engine M can execute (they are the value targets of C12 / C13 / C04) are run here for their *execution*
    obligations only: no reachable panic / failed overflow or bounds assert / unwrap on None / slice out of range, every loop
    iteration advances (unwinding assertion), and the scanners advance the cursor.  A finding is replayed through a template that
    routes the witness to the kernel (string literal in a binding, character reference in static text, attribute name, import
    path); only a panic / abort / hang of the real build is a violation."""
    from checks import c12, c13, c04
    sink = Result('C01', 'other')
    cands = []      # (harness, class, what, [templates or requests])
    t0 = time.time()

    def lit_templates(s_):
        if not s_:
            return []
        out = [s_]
        if len(s_) >= 1 and (len(s_) < 2 or s_[-1] != s_[0]):
            out.append(s_ + s_[0])
        return ['<v a="x">{{ %s }}</v>' % x for x in out] + ["<v a='{{ %s }}'/>" % x for x in out if "'" not in x]
    try:
        _, pend = c12.m12b(sink, mod, tier, L=8 if tier == 'thorough' else 6)     # (C12 itself always runs L = 8)
        for cls, what, s_, _k in pend:
            if cls.startswith('exec:'):
                cands.append(('M01d-parse_lit_str', cls[5:], what + ' on %r' % (s_,), lit_templates(s_)))
    except Exception as e:     # noqa: the kernel is outside the executor on this tree: C12 reports that; nothing is claimed here
        res.inconc('kernel sweep: parse_lit_str not executed (%s: %s)' % (type(e).__name__, str(e)[:120]))
    try:
        _, pend = c12.m12d(sink, mod, tier)
        for cls, what, s_, _k in pend:
            if cls.startswith('exec:') or cls == 'progress':
                ts = ['<v>%s</v>' % s_, '<v a="%s"/>' % s_.replace('"', ''), '<v>x%s;y</v>' % s_] if s_ else []
                cands.append(('M01d-parse_next_entity', cls.replace('exec:', ''), what, ts))
    except Exception as e:
        res.inconc('kernel sweep: parse_next_entity not executed (%s: %s)' % (type(e).__name__, str(e)[:120]))
    try:
        pend = []
        nmax = 4
        c13.run_fn(mod, sink, 'resolve', 2, [(a, b) for a in range(1, nmax) for b in range(1, nmax) if a + b <= nmax + 1], pend)
        c13.run_fn(mod, sink, 'normalize', 1, [(k,) for k in range(1, nmax + 1)], pend)
        del c13.XCHECK[:]
        for name, cls, model, paths in pend:
            if cls.startswith('exec:') and model is not None:
                args = c13.concrete(model, paths)
                reqs = []
                for b_, r_ in [(args[0], args[-1])] + c13.candidate_pairs()[:60]:
                    if b_ and not any(ch in b_ + r_ for ch in '"<>&{'):
                        reqs.append({'files': [[b_, '<import src="%s"/><include src="%s"/><wxs module="m" src="%s"/>' % (r_, r_, r_)]], 'main': b_})
                cands.append(('M01k-path::' + name, cls[5:], 'path::%s%r: %s' % (name, tuple(args), cls), reqs))
    except Exception as e:
        res.inconc('kernel sweep: path::resolve / normalize not executed (%s: %s)' % (type(e).__name__, str(e)[:120]))
    nfn = len(sink.functions)
    res.functions.extend(dict(f, role='execution obligations only (no panic / assert / unwinding)') for f in sink.functions)
    res.solver_time += sink.solver_time
    nq = sink.queries['total']
    res.query('unsat' if not cands else 'sat', max(1, nfn))
    for why in sink.inconclusive:
        res.inconc('kernel sweep: ' + why)
    seen = set()
    for harness, cls, what, items in cands:
        if (harness, cls) in seen:
            continue
        seen.add((harness, cls))
        hit = None
        for it in items[:70]:
            if isinstance(it, dict):
                common.replay(['get-var-name', '0'])
                try:
                    r = subprocess.run([common._replay_bin['dev'], 'tmpl'], input=json.dumps([dict(it, want=['gen_object', 'direct_dependencies'])]),
                                       stdout=subprocess.PIPE, stderr=subprocess.PIPE, text=True, timeout=10)
                    o = json.loads(r.stdout)[0] if r.returncode == 0 else {'panic': 'abort %d' % r.returncode}
                    st = ('panic:' + o['panic']) if 'panic' in o else 'ok'
                except subprocess.TimeoutExpired:
                    st = 'hang'
                desc = json.dumps(it['files'])
            else:
                st = replay_template(it)
                desc = it
            res.coverage['traces_validated_against_impl'] = res.coverage.get('traces_validated_against_impl', 0) + 1
            if st != 'ok':
                hit = (desc, st)
                break
        if hit:
            res.violation({'engine': 'M', 'harness': harness, 'class': cls}, '%s; end to end: %s on %s' % (what, hit[1], hit[0]),
                          {'template': hit[0]} if not hit[0].startswith('[') else {'files': hit[0]})
        else:
            res.inconc('%s: %s - the witness does not make the real build fail' % (harness, what))
    log('[C01] kernel sweep: %d kernel runs, %d value-side queries ignored, %d execution findings (%.1fs)' % (nfn, nq, len(cands), time.time() - t0))
    res.coverage['kernel_sweep'] = {'kernels': ['Expression::parse_lit_str', 'StrName::parse_next_entity', 'path::resolve', 'path::normalize'],
                                    'runs': nfn, 'execution_findings': len(cands)}
    return nfn


def replay_css(css, options, timeout=10):
    """-> 'ok' | 'panic:<msg>' | 'hang' (own process, time limit)"""
    common.replay(['get-var-name', '0'])     # make sure the binary is built
    try:
        r = subprocess.run([common._replay_bin['dev'], 'css'], input=json.dumps([{'css': css, 'options': options}]), stdout=subprocess.PIPE,
                           stderr=subprocess.PIPE, text=True, timeout=timeout)
    except subprocess.TimeoutExpired:
        return 'hang'
    if r.returncode != 0:
        return 'abort:%d' % r.returncode
    out = json.loads(r.stdout)[0]
    return ('panic:' + out['panic']) if 'panic' in out else 'ok'


STRAY_SHEETS = ['.a{b:c} } .d{e:f}', '.a ) .b{c:d}', '] .a{b:c}', '@media (x){ ) .a{b:c} }', '.a{b:c}}', '@media (x){.a{b:c}} } .d{}', '){}', '.a{b:(]}', '@import ) "a";', '}',
                '.a[b{c:d}', 'a{b:calc(1px + }', '@media (x', ':host ) {}', '@supports (a:b) { ] }', '<!-- } -->', '.a{b:url(}', '.a{b:"\n}']


def m01h(res, tier):
    """M01h: stylesheet compiler, open-environment mode: `parse_rules` loops while the input is not exhausted, so every call of
    `parse_qualified_rule` - and every call of `parse_at_rule` that answers "handled" - must consume at least one token of a non-empty
    level (all token kinds, including unmatched closing brackets); panics / failed asserts inside the two routines are obligations too.
    A model-level violation is replayed through `from_css` in its own process under a time limit: the rendered witness, then a pool of
    sheets with stray closers / unterminated blocks.  Only a hang / panic of the real build is a violation."""
    from checks import css_common as cc
    from mirsym import sc_env
    from mirsym.sc_env import TK
    mod = Module(common.mir_dump('sc'))
    cc.Css.HAVOC = ()
    cc.Css.HAVOC = tuple(sorted(cc.compute_modifies(mod, res)))
    total = 0
    closers = {'CloseParenthesis': ')', 'CloseSquareBracket': ']', 'CloseCurlyBracket': '}'}
    for name in ('qualified_rule', 'at_rule'):
        try:
            env, exe, done, _obs, dt = cc.TARGETS[name](mod, 3)
        except cc.MirUnsupported as e:
            res.inconc('M01h: %s is outside the executor (%s)' % (name, str(e)[:120]))
            hit = None
            for css in STRAY_SHEETS:
                for o in ({}, {'class_prefix': 'p', 'convert_host': True, 'import_sign': 'S'}):
                    st = replay_css(css, o)
                    if st != 'ok':
                        hit = (css, o, st)
                        break
                if hit:
                    break
            if hit:
                res.violation({'engine': 'replay', 'harness': 'M01h-' + name, 'class': 'css-' + hit[2].split(':')[0]},
                              'the stylesheet compiler %s on %r with %r' % ('does not terminate within 10 s' if hit[2] == 'hang' else 'fails (%s)' % hit[2], hit[0], hit[1]),
                              {'css': hit[0], 'options': hit[1]})
            continue
        res.solver_time += exe.stats['solver_time']
        obs = []
        n, k0 = sc_env.level_len('r'), sc_env.tok_kind('r', 0)
        nonempty = z3.And(n > 0, z3.Not(z3.And(n == 1, k0 == TK['WhiteSpace'])))
        for q in done:
            if q.status != 'returned':
                continue
            pos, _ = env.cpos(q, 'r')
            if pos != 0:
                continue
            if name == 'at_rule':
                r = q.result
                handled = r if isinstance(r, z3.ExprRef) else z3.BoolVal(bool(r))
                obs.append(cc.Ob(['C01'], 'progress', 'parse_at_rule answers "handled" without consuming a token', q, z3.And(nonempty, handled), name))
            else:
                obs.append(cc.Ob(['C01'], 'progress', 'parse_qualified_rule returns without consuming a token of a non-empty level (parse_rules would call it again for ever)', q, nonempty, name))
        for f in exe.findings:
            if f.kind != 'unwind':
                obs.append(cc.Ob(['C01'], 'exec', '%s: %s' % (name, f.kind), f.path, z3.BoolVal(True), name))
            else:
                res.inconc('M01h %s: unwinding bound reached (%s)' % (name, f.info))
        bad, nq = cc.decide(exe, obs, res, ['C01'])
        total += nq
        log('[C01] M01h %s: %d paths, %d progress / execution obligations, %d violated (%.1fs)' % (name, len(done), nq, len(bad), dt))
        res.functions.append({'fn': 'parse_%s (stylesheet lib.rs), open environment' % name, 'max_tokens_per_level': 3, 'paths': len(done), 'obligations': nq,
                              'role': 'progress (>= 1 token consumed per call from parse_rules) and execution obligations'})
        seen = set()
        for ob, model in bad:
            if ob.cls in seen:
                continue
            seen.add(ob.cls)
            # render the witness level (closers included: at the top level every closing bracket is a stray token)
            nn = model.eval(n, model_completion=True).as_long()
            parts = []
            for i in range(min(nn, env.lmax)):
                kk = model.eval(sc_env.tok_kind('r', i), model_completion=True).as_long()
                kn = [x for x, v in TK.items() if v == kk][0]
                parts.append(closers[kn] if kn in closers else (cc.render_token(model, 'r', i, env, cc.probe_for(kn, name)) or ''))
            css = '/**/'.join(parts)
            cands = [css, '.a{b:c}' + css + '.d{e:f}', css + '{}'] + STRAY_SHEETS
            opts = cc.witness_options(model)
            hit = None
            for c_ in cands:
                for o in (opts, {}):
                    st = replay_css(c_, o)
                    res.coverage['traces_validated_against_impl'] = res.coverage.get('traces_validated_against_impl', 0) + 1
                    if st != 'ok':
                        hit = (c_, o, st)
                        break
                if hit:
                    break
            if hit:
                res.violation({'engine': 'M', 'harness': 'M01h-' + name, 'class': 'css-' + hit[2].split(':')[0]},
                              '%s; end to end: the stylesheet compiler %s on %r' % (ob.desc, 'does not terminate within 10 s' if hit[2] == 'hang' else 'fails (%s)' % hit[2], hit[0]),
                              {'css': hit[0], 'options': hit[1]})
            else:
                res.inconc('M01h %s: %s - witness %r does not make the real build hang or fail' % (name, ob.desc, css))
    # vacuity / translator validation: stray closers and unterminated blocks return normally on this tree
    for css in STRAY_SHEETS[:8]:
        st = replay_css(css, {'class_prefix': 'p', 'convert_host': True})
        if st != 'ok':
            res.violation({'engine': 'replay', 'harness': 'M01h', 'class': 'css-' + st.split(':')[0]}, 'the stylesheet compiler %s on %r' % (st, css), {'css': css, 'options': {'class_prefix': 'p', 'convert_host': True}})
        else:
            res.coverage['traces_validated_against_impl'] = res.coverage.get('traces_validated_against_impl', 0) + 1
    return total


def main(tier):
    res = Result('C01', 'other')
    res.engines = ['M (MIR symbolic execution with ParseState contracts)']
    res.level = 'other'
    mod = Module(common.mir_dump('tc'))
    n1 = m01b(res, mod, tier)
    n2 = m01e(res, mod, tier)
    n2 += kernel_sweep(res, mod, tier)
    n2 += m01h(res, tier)
    pipeline_probe(res)
    from checks import mixed
    n2 += mixed.run_property(res, mod, 'C01', tier)
    from kani import runner
    runner.run_for(res, 'C01', tier)        # K01a (parse_number small inputs) and K01c = the progress lemma of the ParseState primitives
    res.bounds = {'parse_number': 'quick: free ASCII <= 12 chars + families 0x+18 alnum, 21 decimal digits, 0+23 octal digits; thorough: free ASCII <= 24',
                  'parse_until_tag_end': '<= 3 (thorough 4) Unicode scalar values', 'unwinding': 'input length + 3, unwinding assertion on'}
    res.assumptions = ['ParseState primitives behave as the cursor contracts of mirsym/ps_env.py (established for the compiled code on <= 4-5 bytes by the Kani harnesses of C16)',
                       'auto-skip-whitespace is off at entry of the kernels (it is switched off by parse_off_auto_whitespace inside parse_number)',
                       'str::parse::<f64> returns an arbitrary f64 or Err (core is trusted)',
                       'CustomAttribute::parse_next consumes >= 1 character when the peeked character is an identifier start']
    res.outside = ['inputs longer than the kernel bounds', 'the recursive expression / tag parsers as a whole (Kani: 2 symbolic bytes > 15 min)',
                   'the recovery loop inside Element::parse (only replayed with the witnesses of its twin)', 'stringifier and generator totality',
                   'the stylesheet compiler beyond the progress / execution obligations of parse_qualified_rule and parse_at_rule (cssparser itself, the block routines, levels > 3 tokens)', 'stack depth and the polynomial resource bound']
    res.coverage.update({
        'explanation': 'engine M executes the MIR of the number-literal scanner and of the tag-recovery loop over symbolic character sequences; '
                       'every panic / unreachable / overflow assert / unwrap is an obligation decided by z3 on every path, and the unwinding assertion shows that every loop iteration consumes input',
        'evaluations': n1 + n2, 'distinct_nontrivial': n1 + n2, 'paths': n1 + n2,
    })
    return res.finish()


def replay(path):
    d = json.load(open(path))
    rp = d['replay']
    if 'input' in rp:
        out = replay_parse_number([rp['input']])[0]
        print(out)
        return 1 if 'panic' in out else 0
    if 'css' in rp:
        st = replay_css(rp['css'], rp.get('options') or {})
        print(st)
        return 0 if st == 'ok' else 1
    if 'files' in rp:
        r = common.replay(['tmpl'], stdin=json.dumps([{'files': json.loads(rp['files']), 'main': json.loads(rp['files'])[0][0], 'want': ['gen_object', 'direct_dependencies']}]), timeout=20)
        out = json.loads(r.stdout)[0] if r.returncode == 0 else {'panic': 'abort'}
        print(out.get('panic', 'ok'))
        return 1 if 'panic' in out else 0
    r = replay_template(rp['template'])
    print(r)
    return 0 if r == 'ok' else 1
