// hooks for proc_gen/mod.rs (included under cfg(any(kani, glass_easel_verif)))
// thin wrappers so the native replay CLI can call crate-private kernels

pub fn get_var_name(id: usize) -> String {
    super::get_var_name(id)
}
