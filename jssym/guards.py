"""C06 obligations: dependency reads of a model expression and the `touched` predicate on update-path trees."""
import z3

from .interp import V, UNDEF, NULLV, EMPTY, get, truthy_t, strict_eq_t, any_truthy
from . import model as M

TRUE_V = V.Bool(z3.BoolVal(True))


def chain_of(e):
    """(root name, [keys]) if e is a pure access chain, else None; keys: ('s', name) | ('d', expr)"""
    if e[0] == 'id':
        return (e[1], [])
    if e[0] == 'mem':
        c = chain_of(e[1])
        if c is not None:
            return (c[0], c[1] + [('s', e[2])])
    if e[0] == 'idx':
        c = chain_of(e[1])
        if c is not None:
            return (c[0], c[1] + [('d', e[2])])
    return None


def reads(e, acc=None):
    """maximal access chains read by e (including those inside dynamic keys, arguments, literal elements, all branches)"""
    acc = acc if acc is not None else []
    c = chain_of(e)
    if c is not None:
        acc.append(c)
        for k in c[1]:
            if k[0] == 'd':
                reads(k[1], acc)
        return acc
    k = e[0]
    if k == 'un':
        reads(e[2], acc)
    elif k == 'bin':
        reads(e[2], acc)
        reads(e[3], acc)
    elif k == 'cond':
        for x in e[1:]:
            reads(x, acc)
    elif k == 'mem':
        reads(e[1], acc)
    elif k == 'idx':
        reads(e[1], acc)
        reads(e[2], acc)
    elif k == 'call':
        reads(e[1], acc)
        for a in e[2]:
            reads(a, acc)
    elif k == 'arr':
        for it in e[1]:
            if it is not None:
                reads(it[1] if it[0] == 'spread' else it, acc)
    elif k == 'obj':
        for p_ in e[1]:
            if p_[0] == 'short':
                acc.append((p_[1], []))
            elif p_[0] == 'spread':
                reads(p_[1], acc)
            else:
                reads(p_[2], acc)
    return acc


class Trees:
    """well-formedness of update trees + the touched predicate"""

    def __init__(self, it):
        self.it = it
        self.wf = []

    def node_ok(self, t):
        # an update-path tree node is undefined, true, or an object that holds at least one marked descendant
        self.wf.append(z3.Or(t == UNDEF, t == TRUE_V, z3.And(V.is_Obj(t), V.id(t) >= 0, any_truthy(t))))
        self.wf.append(z3.Not(any_truthy(EMPTY)))

    def touched_from(self, t, keys):
        """walk tree node t along keys (terms): meets true, or ends on a marked node"""
        self.node_ok(t)
        if not keys:
            return truthy_t(t)
        nxt = get(t, keys[0])
        return z3.Or(t == TRUE_V, z3.And(truthy_t(t), self.touched_from(nxt, keys[1:])))

    def touched(self, root_tree, chain_keys, ref_eval):
        ks = []
        for k in chain_keys:
            if k[0] == 's':
                ks.append(V.Str(z3.StringVal(k[1])))
            else:
                ks.append(self.it.term(ref_eval.ev(k[1])))
        return self.touched_from(root_tree, ks)


    def touched_expr(self, e, env, U, ref):
        """`some dependency that the evaluation of e actually reads is touched` (short-circuit and ?: are path sensitive)"""
        it = self.it
        c = chain_of(e)
        if c is not None:
            rootname, keys = c
            parts = []
            if rootname in env:
                parts.append(self.touched(it.term(env[rootname][1]), keys, ref))
            else:
                parts.append(self.touched(U, [('s', rootname)] + keys, ref))
            for k in keys:
                if k[0] == 'd':
                    parts.append(self.touched_expr(k[1], env, U, ref))
            return z3.Or(parts)
        k = e[0]
        tb = lambda x: z3.BoolVal(x) if isinstance(x, bool) else x
        if k == 'cond':
            cv = tb(it.truthy(ref.ev(e[1])))
            return z3.Or(self.touched_expr(e[1], env, U, ref), z3.If(cv, self.touched_expr(e[2], env, U, ref), self.touched_expr(e[3], env, U, ref)))
        if k == 'bin' and e[1] in ('&&', '||', '??'):
            av = ref.ev(e[2])
            if e[1] == '??':
                from .interp import nullish_t, is_v, UNDEFINED, NULL
                cond = nullish_t(it.term(av)) if is_v(av) else z3.BoolVal(av is UNDEFINED or av is NULL)
            else:
                t = tb(it.truthy(av))
                cond = t if e[1] == '&&' else z3.Not(t)
            return z3.Or(self.touched_expr(e[2], env, U, ref), z3.And(cond, self.touched_expr(e[3], env, U, ref)))
        subs = []
        if k == 'un':
            subs = [e[2]]
        elif k == 'bin':
            subs = [e[2], e[3]]
        elif k == 'mem':
            subs = [e[1]]
        elif k == 'idx':
            subs = [e[1], e[2]]
        elif k == 'call':
            subs = [e[1]] + list(e[2])
        elif k == 'arr':
            subs = [(x[1] if x[0] == 'spread' else x) for x in e[1] if x is not None]
        elif k == 'obj':
            for p_ in e[1]:
                if p_[0] == 'short':
                    subs.append(('id', p_[1]))
                elif p_[0] == 'spread':
                    subs.append(p_[1])
                else:
                    subs.append(p_[2])
        parts = [self.touched_expr(x, env, U, ref) for x in subs]
        return z3.Or(parts) if parts else z3.BoolVal(False)
