// Reference protocol runtime for replaying counterexamples in node (DESIGN 3.3 step 6).
// stdin: JSON {gen_object, runtime, jobs:[{mode:"attr", attr, ref, envs:[{name: encodedValue}]}]}
// stdout: JSON results.  Values are encoded so that undefined / NaN / -0 / holes / functions stay distinguishable.
'use strict'
const input = JSON.parse(require('fs').readFileSync(0, 'utf8'))

function dec(v) {
  if (v && typeof v === 'object' && !Array.isArray(v) && '$' in v) {
    switch (v.$) {
      case 'undefined': return undefined
      case 'NaN': return NaN
      case '-0': return -0
      case 'Infinity': return Infinity
      case 'fn': return function (x) { return v.ret === undefined ? x : dec(v.ret) }
      case 'obj': { const o = {}; for (const k of Object.keys(v.v)) o[k] = dec(v.v[k]); return o }
    }
  }
  if (Array.isArray(v)) return v.map(dec)
  return v
}
function enc(v, depth) {
  depth = depth || 0
  if (v === undefined) return 'undefined'
  if (v === null) return 'null'
  if (typeof v === 'number') return Object.is(v, -0) ? '-0' : String(v)
  if (typeof v === 'string') return JSON.stringify(v)
  if (typeof v === 'boolean') return String(v)
  if (typeof v === 'function') return 'fn'
  if (depth > 6) return '...'
  if (Array.isArray(v)) { const out = []; for (let i = 0; i < v.length; i++) out.push(i in v ? enc(v[i], depth + 1) : '<hole>'); return '[' + out.join(',') + ']' }
  const keys = Object.keys(v)
  return '{' + keys.map((k) => JSON.stringify(k) + ':' + enc(v[k], depth + 1)).join(',') + '}'
}

function load(gen_object, runtime) {
  // the runtime prelude defines X Y Z P Q (and D); the generator object refers to them as free names
  return new Function(runtime + ';return (' + gen_object + ')')()
}

function render(G, name, data, isCreation, tree) {
  const rec = { children: [] }
  const tmpl = G(name)
  const setters = {}
  for (const n of ['c', 'm', 'r', 'd', 'v', 'p', 'l', 'i', 'y', 's', 'a', 'wl']) {
    setters[n] = function (node) { node.attrs.push([n].concat(Array.prototype.slice.call(arguments, 1))) }
  }
  setters.setFnFilter = function () {}
  setters.setEventListenerWrapper = function () {}
  const res = tmpl(setters, isCreation, data, tree)
  function natives(parent) {
    const T = (text, init) => { const n = { k: 'T', text, attrs: [], children: [] }; parent.children.push(n); if (init) init(n) }
    const E = (tag, generics, init, children, slot, svn) => { const n = { k: 'E', tag, generics, slot, svn, attrs: [], children: [] }; parent.children.push(n); init(n, isCreation); run(children, n) }
    const B = (key, f) => { const n = { k: 'B', key, attrs: [], children: [] }; parent.children.push(n); run(f, n) }
    const F = (list, key, tree_, lpath, cb) => {
      const n = { k: 'F', list, key, lpath, attrs: [], children: [] }; parent.children.push(n)
      const items = Array.isArray(list) ? list.map((x, i) => [x, i]) : (list && typeof list === 'object' ? Object.keys(list).map((k) => [list[k], k]) : [])
      for (const [item, index] of items) {
        const c = { k: 'FI', index, attrs: [], children: [] }; n.children.push(c); const nat = natives(c)
        cb(isCreation, item, index, undefined, undefined, lpath ? [...lpath, index] : null, nat.T, nat.E, nat.B, nat.F, nat.S, nat.J)
      }
    }
    const S = (name_, init, slot) => { const n = { k: 'S', name: name_, slot, attrs: [], children: [] }; parent.children.push(n); if (init) init(n) }
    const J = (children, slot) => { const n = { k: 'J', slot, attrs: [], children: [] }; parent.children.push(n); run(children, n) }
    return { T, E, B, F, S, J }
  }
  function run(cb, node, sv, st) { const nat = natives(node); cb(isCreation, nat.T, nat.E, nat.B, nat.F, nat.S, nat.J, sv, st) }
  run(res.C, rec)
  return { tree: rec, B: res.B }
}

function findAttr(node, attr) {
  for (const a of node.attrs || []) if (a[1] === attr) return a
  for (const c of node.children || []) { const r = findAttr(c, attr); if (r) return r }
  return null
}

const out = []
let G
try { G = load(input.gen_object, input.runtime) } catch (e) { console.log(JSON.stringify({ load_error: String(e) })); process.exit(0) }
for (const job of input.jobs) {
  const res = []
  for (const envEnc of job.envs) {
    const env = {}
    for (const k of Object.keys(envEnc)) env[k] = dec(envEnc[k])
    let got, want
    try {
      const r = render(G, job.template || '', env, true, undefined)
      if (job.mode === 'attr') { const a = findAttr(r.tree, job.attr); got = a ? enc(a[2]) : '<no attr>' } else { got = enc(r.tree) }
    } catch (e) { got = 'throw:' + String(e) }
    try {
      const _d = (n) => env[n]
      const _m = (o, k) => (o === null || o === undefined ? undefined : o[k])
      const _c = (f, args) => (typeof f === 'function' ? f(...args) : undefined)
      const _s = (a) => (Array.isArray(a) ? a : [a])
      // eslint-disable-next-line no-eval
      want = enc(eval(job.ref))
    } catch (e) { want = 'throw:' + String(e) }
    res.push([got, want])
  }
  out.push(res)
}
console.log(JSON.stringify({ results: out }))
