// hooks for tc_parse_tag (included into the repo crate under cfg(any(kani, glass_easel_verif)))
use super::*;
use crate::parse::expr::Expression;

fn collect_expr(e: &Expression, out: &mut Vec<(u32, u32, u32, u32, String)>) {
    if let Expression::LitStr { value, location } = e {
        out.push((location.start.line, location.start.utf16_col, location.end.line, location.end.utf16_col, value.to_string()));
    }
    for sub in e.sub_expressions() {
        collect_expr(sub, out);
    }
}

fn collect_value(v: &Value, out: &mut Vec<(u32, u32, u32, u32, String)>, static_too: bool) {
    match v {
        Value::Static { value, location } => {
            if static_too {
                out.push((location.start.line, location.start.utf16_col, location.end.line, location.end.utf16_col, value.to_string()));
            }
        }
        Value::Dynamic { expression, .. } => collect_expr(expression, out),
    }
}

fn collect_nodes(nodes: &[Node], out: &mut Vec<(u32, u32, u32, u32, String)>) {
    for n in nodes {
        match n {
            Node::Text(v) => collect_value(v, out, true),
            Node::Element(e) => match &e.kind {
                ElementKind::Normal { attributes, children, .. } => {
                    for a in attributes {
                        if let Some(v) = &a.value {
                            collect_value(v, out, true);
                        }
                    }
                    collect_nodes(children, out);
                }
                ElementKind::Pure { children, .. } | ElementKind::For { children, .. } => collect_nodes(children, out),
                _ => {}
            },
            _ => {}
        }
    }
}

/// Every static string piece of the text nodes and plain attribute values of a template (string literals inside bindings included),
/// with the location the parser recorded for it: (start line, start col, end line, end col, value).
pub fn text_locations(src: &str) -> Vec<(u32, u32, u32, u32, String)> {
    let (t, _) = crate::parse::parse("a", src);
    let mut out = vec![];
    collect_nodes(&t.content, &mut out);
    out
}
