"""C16 - recorded source positions point at the text they describe (position bookkeeping).

K16a (Kani): the position invariant, one inductive step per ParseState primitive from an arbitrary state.
M16c (engine M): on every path of parse_number the location stored in the returned node is [cursor at entry, cursor at return).
The stringifier's positions and source-map tokens are not decided (sourcemap builder is out of Kani's reach).
"""
import json
import z3

from lib import common
from lib.common import Result, log
from mirsym.mir import Module
from mirsym import targets, ps_env
from mirsym.core import Agg


def m16c(res, tier):
    mod = Module(common.mir_dump('tc'))
    L = 10 if tier == 'thorough' else 7
    exe, inp, fn, done = targets.run_ps_client(mod, r'376:1: 376:16>::parse_number$', L)
    res.solver_time += exe.stats['solver_time']
    n = 0
    for p in done:
        if p.status != 'returned':
            continue
        r = p.result
        if not (isinstance(r, Agg) and r.variant == 'Some'):
            continue
        e = r.fields[0]
        loc = e.fields[1]
        idx = p.env['ps'][0]
        want_s, want_e = ps_env.position_at(0), ps_env.position_at(idx)
        bad = z3.Not(z3.And(loc.fields[0].fields[0] == want_s.fields[0], loc.fields[0].fields[1] == want_s.fields[1],
                            loc.fields[1].fields[0] == want_e.fields[0], loc.fields[1].fields[1] == want_e.fields[1]))
        ok, model = exe.check(exe.base + p.pc + [bad], want_model=True)
        n += 1
        res.query('sat' if ok else 'unsat')
        if ok:
            s = inp.string_of(model)
            out = common.replay(['parse-number'], stdin=json.dumps([s]))
            real = json.loads(out.stdout)[0]
            end = len(s[:idx].encode())
            if 'result' in real and ('@0:0-0:%d' % idx) not in real['result']:
                res.violation({'engine': 'M', 'harness': 'M16c', 'class': 'literal-location'},
                              'parse_number(%r): stored location %s does not span the consumed text [0, %d)' % (s, real['result'], idx), {'input': s})
            else:
                res.inconc('M16c: location obligation violated in the model for %r but the real result is %r' % (s, real))
    res.functions.append({'fn': 'Expression::parse_number (location of the returned literal)', 'max_chars': L, 'paths': len(done), 'obligations': n})
    log('[C16] M16c: %d location obligations' % n)
    return n


def main(tier):
    from kani import runner
    res = Result('C16', 'model_checking')
    res.engines = ['K (Kani harnesses on the ParseState primitives)', 'M (literal locations from MIR)']
    n = m16c(res, tier)
    from checks import mixed
    n += mixed.run_property(res, Module(common.mir_dump('tc')), 'C16', tier)
    results = runner.run_for(res, 'C16', tier)
    checks = sum(r['checks'] for r in results)
    res.coverage.update({'states': max(1, checks), 'transitions': max(1, checks), 'traces_validated_against_impl': res.coverage.get('traces_validated_against_impl', 0),
                         'explanation': 'Kani: one inductive step of the position invariant per primitive from an arbitrary state; engine M: literal locations',
                         'obligations': n + len(results)})
    res.bounds = {'text': '<= 4 arbitrary UTF-8 bytes; skip_bytes over "<newline|a><any scalar>"; thorough adds next_char_as_str (3 bytes) and skip_until_after', 'literals': '<= 7 (10) ASCII chars'}
    res.assumptions = ['cur_index / line / utf16_col are written only inside parse/mod.rs by the primitives covered (fields are private)',
                       'engine M uses the cursor contracts that these harnesses establish']
    res.outside = ['nesting / ordering of locations across a whole template', 'Stringifier positions and source-map tokens (SourceMapBuilder::new reaches a futex syscall Kani does not model)']
    return res.finish()


def replay(path):
    print(open(path).read()[:2000])
    return 1
