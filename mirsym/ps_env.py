"""Contract model of the template parser's cursor (`parse::ParseState`) for engine M.

The input is a symbolic sequence of Unicode scalar values c_0 .. c_{L-1} with symbolic length n <= L; the cursor is
a *concrete* character index per path.  Byte indices and (line, utf16_col) positions are uninterpreted functions of
the character index (`byte_at`, `pos_line`, `pos_col`): that they are what the real primitives maintain is exactly what
the Kani harnesses K16a/K01c establish for the compiled code (assume-guarantee; DESIGN 3.2)."""
import re
import z3

from .core import zstr, Agg, SymEnum, Ref, SeqV, Opaque, UNIT, FnItem, NativeFrame
from .mir import MirUnsupported
from .contracts import some, NONE
from . import contracts as C

byte_at = z3.Function('byte_at', z3.IntSort(), z3.IntSort())
pos_line = z3.Function('pos_line', z3.IntSort(), z3.IntSort())
pos_col = z3.Function('pos_col', z3.IntSort(), z3.IntSort())


class Input:
    def __init__(self, L, prefix='c'):
        self.L = L
        self.chars = [z3.Int('%s%d' % (prefix, i)) for i in range(L)]
        self.n = z3.Int('n_' + prefix)

    def base(self, ascii_only=False, nonzero=True):
        out = [self.n >= 0, self.n <= self.L]
        for c in self.chars:
            if ascii_only:
                out.append(z3.And(c >= (1 if nonzero else 0), c < 128))
            else:
                out.append(z3.And(c >= 0, c <= 0x10FFFF, z3.Or(c < 0xD800, c > 0xDFFF)))
        return out

    def string_of(self, model):
        n = model.eval(self.n, model_completion=True).as_long()
        return ''.join(chr(model.eval(self.chars[i], model_completion=True).as_long()) for i in range(n))


def ps_state(path):
    return path.env['ps']          # (idx, warnings, auto_ws)


def set_ps(path, idx=None, warns=None, auto=None, keep_auto=True):
    i, w, a = path.env['ps']
    path.env['ps'] = (i if idx is None else idx, w if warns is None else warns, a if keep_auto else auto)


def position_at(idx):
    return Agg('Position', None, {0: pos_line(z3.IntVal(idx)), 1: pos_col(z3.IntVal(idx))})


def is_template_ws(c):
    return z3.Or(c == 32, z3.And(c >= 9, c <= 13))


def make_table(inp):
    """contracts bound to one symbolic input"""
    T = []

    def reg(rx):
        def deco(f):
            T.append((rx, f))
            return f
        return deco

    def need_no_auto(path, what):
        if ps_state(path)[2] is not None:
            raise MirUnsupported('%s with auto-skip-whitespace enabled is outside the contract model' % what)

    def fork_has(exe, path, k):
        """fork on `n > idx + k` ; returns (path_has|None, path_hasnot|None)"""
        idx = ps_state(path)[0]
        yes = no = None
        if idx + k < inp.L:
            c = inp.n > idx + k
            if exe.feasible(path, [c]):
                yes = path.clone()
                yes.pc.append(c)
        c2 = inp.n <= idx + k
        if exe.feasible(path, [c2]):
            no = path.clone()
            no.pc.append(c2)
        if idx + k >= inp.L and no is None:
            # the input bound cuts this path: longer inputs are outside the claim
            pass
        return yes, no

    @reg(r"ParseState::<'_>::peek::<(\d+)>$")
    def peek(exe, path, callee, args, dst_ty):
        need_no_auto(path, 'peek')
        k = int(re.search(r'peek::<(\d+)>$', callee).group(1))
        idx = ps_state(path)[0]
        yes, no = fork_has(exe, path, k)
        outs = []
        if yes is not None:
            outs.append(('ret', yes, some(inp.chars[idx + k])))
        if no is not None:
            outs.append(('ret', no, NONE))
        return outs

    @reg(r"ParseState::<'_>::next$")
    def next_(exe, path, callee, args, dst_ty):
        need_no_auto(path, 'next')
        idx = ps_state(path)[0]
        yes, no = fork_has(exe, path, 0)
        outs = []
        if yes is not None:
            set_ps(yes, idx=idx + 1)
            outs.append(('ret', yes, some(inp.chars[idx])))
        if no is not None:
            outs.append(('ret', no, NONE))
        return outs

    @reg(r"ParseState::<'_>::ended$")
    def ended(exe, path, callee, args, dst_ty):
        idx = ps_state(path)[0]
        return [('ret', path, inp.n <= idx)]

    def starts_with(path, text, at=None):
        idx = ps_state(path)[0] if at is None else at
        if idx + len(text) > inp.L:
            return z3.BoolVal(False) if True else None
        return z3.And([inp.n >= idx + len(text)] + [inp.chars[idx + i] == ord(ch) for i, ch in enumerate(text)])

    def const_str(v, exe, path):
        v = exe.deref_all(path, v)
        if isinstance(v, z3.ExprRef) and z3.is_string_value(v):
            return zstr(v)
        raise MirUnsupported('non-constant string argument %r' % (v,))

    @reg(r"ParseState::<'_>::peek_str$")
    def peek_str(exe, path, callee, args, dst_ty):
        need_no_auto(path, 'peek_str')
        return [('ret', path, starts_with(path, const_str(args[1], exe, path)))]

    @reg(r"ParseState::<'_>::consume_str$")
    def consume_str(exe, path, callee, args, dst_ty):
        need_no_auto(path, 'consume_str')
        text = const_str(args[1], exe, path)
        idx = ps_state(path)[0]
        c = starts_with(path, text)
        outs = []
        if exe.feasible(path, [c]):
            yes = path.clone()
            yes.pc.append(c)
            set_ps(yes, idx=idx + len(text))
            outs.append(('ret', yes, some(Agg('Range', None, {0: position_at(idx), 1: position_at(idx + len(text))}))))
        if exe.feasible(path, [z3.Not(c)]):
            no = path.clone()
            no.pc.append(z3.Not(c))
            outs.append(('ret', no, NONE))
        return outs

    @reg(r"ParseState::<'_>::position$")
    def position(exe, path, callee, args, dst_ty):
        return [('ret', path, position_at(ps_state(path)[0]))]

    @reg(r"ParseState::<'_>::cur_index$")
    def cur_index(exe, path, callee, args, dst_ty):
        return [('ret', path, byte_at(z3.IntVal(ps_state(path)[0])))]

    @reg(r"ParseState::<'_>::code_slice$")
    def code_slice(exe, path, callee, args, dst_ty):
        rng = args[1]
        return [('ret', path, Opaque('slice', {'start': rng.fields[0], 'end': rng.fields[1], 'structural': True}))]

    @reg(r"ParseState::<'_>::add_warning_at_current_position$")
    def add_warning_cur(exe, path, callee, args, dst_ty):
        i, w, a = ps_state(path)
        path.env['ps'] = (i, w + 1, a)
        path.event('warning', args[1], i)
        return [('ret', path, UNIT)]

    @reg(r"ParseState::<'_>::add_warning$")
    def add_warning(exe, path, callee, args, dst_ty):
        i, w, a = ps_state(path)
        path.env['ps'] = (i, w + 1, a)
        path.event('warning', args[1], i, args[2])
        return [('ret', path, UNIT)]

    def closure_fn(exe, clo):
        if isinstance(clo, Ref):
            raise MirUnsupported('closure by reference')
        if not isinstance(clo, Agg) or not clo.name.startswith('{closure@'):
            raise MirUnsupported('not a closure value: %r' % (clo,))
        hits = [n for n, h in exe.m.headers.items() if h.startswith('fn ') and
                re.search(r'\(_1: &?(mut )?' + re.escape(clo.name), h)]
        if len(hits) != 1:
            raise MirUnsupported('closure function lookup %s: %d hits' % (clo.name, len(hits)))
        fn = exe.m.get(hits[0])
        by_ref = bool(re.search(r'\(_1: &', exe.m.headers[hits[0]]))
        return hits[0], by_ref

    def call_closure(exe, path, clo, extra_args, then, data=None):
        name, by_ref = closure_fn(exe, clo)
        first = clo
        if by_ref:
            key = ('clo', next(exe.fid))
            path.store[key] = clo
            first = Ref(key)
        return exe.call_local(path, name, [first] + list(extra_args), then, data)

    @reg(r"ParseState::<'_>::parse_off_auto_whitespace::<")
    def parse_off(exe, path, callee, args, dst_ty):
        i, w, a = ps_state(path)
        path.env['ps'] = (i, w, None)

        def then(exe, p, ret, saved):
            i2, w2, _ = ps_state(p)
            p.env['ps'] = (i2, w2, saved)
            return [('ret', p, ret)]
        return [call_closure(exe, path, args[1], [args[0]], then, a)]

    @reg(r"ParseState::<'_>::try_parse::<")
    def try_parse(exe, path, callee, args, dst_ty):
        i, w, a = ps_state(path)

        def then(exe, p, ret, saved_idx):
            isnone = C.is_variant(exe, p, ret, 'Some')
            isnone = z3.simplify(z3.Not(isnone))
            if z3.is_true(isnone):
                i2, w2, a2 = ps_state(p)
                p.env['ps'] = (saved_idx, w2, a2)
            elif not z3.is_false(isnone):
                raise MirUnsupported('try_parse result with symbolic variant')
            return [('ret', p, ret)]
        return [call_closure(exe, path, args[1], [args[0]], then, i)]

    @reg(r"ParseState::<'_>::skip_whitespace$")
    def skip_ws(exe, path, callee, args, dst_ty):
        idx = ps_state(path)[0]
        outs = []
        for k in range(0, inp.L - idx + 1):
            conds = [inp.n >= idx + k] + [is_template_ws(inp.chars[idx + j]) for j in range(k)]
            if idx + k < inp.L:
                conds.append(z3.Or(inp.n == idx + k, z3.Not(is_template_ws(inp.chars[idx + k]))))
            else:
                conds.append(inp.n == idx + k)
            c = z3.And(conds)
            if exe.feasible(path, [c]):
                q = path.clone()
                q.pc.append(c)
                set_ps(q, idx=idx + k)
                if k == 0:
                    outs.append(('ret', q, NONE))
                else:
                    outs.append(('ret', q, some(Agg('Range', None, {0: position_at(idx), 1: position_at(idx + k)}))))
        return outs

    return T, call_closure
