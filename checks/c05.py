"""C05 - names in expressions resolve lexically to the innermost enclosing scope.

J05c (engine J): templates with nested wx:for (default and renamed variables), slot: values, <wxs> modules, siblings and
following nodes, <template name> bodies and colliding names are compiled by the real compiler; for every binding site
z3 decides that the generated value term (over the F-callback parameters, slot values, module objects, data) equals the
reference term obtained by lexical resolution on the template model - for all data and scope values.
K05a/K05b (engine K, Kani): `Expression::sub_expressions()` yields every child of every expression form (the traversal
`convert_scopes` relies on), and `convert_scopes` on a leaf picks the innermost matching scope.
"""
import json
import os
import time
import z3

from lib import common
from lib.common import Result, log
from jssym import model as M, driver
from jssym.model import L
from jssym.jsparse import JsUnsupported
from jssym.protocol import Runtime
from jssym.interp import V, get, nullish_t, EMPTY

I = lambda n: ('id', n)


def esc(s):
    return s.replace('&', '&amp;').replace('"', '&quot;').replace('<', '&lt;')


class B:
    """template model builder: nodes are dicts; sites get unique attribute names s<n>"""

    def __init__(self):
        self.n = 0

    def site(self, e):
        self.n += 1
        return {'k': 'site', 'name': 's%d' % self.n, 'expr': e}

    def view(self, sites=(), children=()):
        return {'k': 'view', 'sites': list(sites), 'children': list(children)}

    def for_(self, lst, children=(), item=None, index=None, sites=()):
        return {'k': 'for', 'list': lst, 'item': item, 'index': index, 'sites': list(sites), 'children': list(children)}

    def comp(self, children=()):
        return {'k': 'comp', 'children': list(children)}

    def slotted(self, names, sites=(), children=(), tag='view'):
        return {'k': 'slotted', 'names': list(names), 'sites': list(sites), 'children': list(children), 'tag': tag}

    def wxs(self, name):
        return {'k': 'wxs', 'name': name}

    def tdef(self, name, children=()):
        return {'k': 'tdef', 'name': name, 'children': list(children)}

    def tuse(self, name, data_expr):
        return {'k': 'tuse', 'name': name, 'data': data_expr}


def pr_node(n):
    k = n['k']
    attrs = lambda ss: ''.join(' %s="{{ %s }}"' % (s['name'], esc(M.pr(s['expr']))) for s in ss)
    if k == 'view':
        return '<view%s>%s</view>' % (attrs(n['sites']), ''.join(pr_node(c) for c in n['children']))
    if k == 'for':
        extra = ''
        if n['item']:
            extra += ' wx:for-item="%s"' % n['item']
        if n['index']:
            extra += ' wx:for-index="%s"' % n['index']
        return '<view wx:for="{{ %s }}"%s%s>%s</view>' % (esc(M.pr(n['list'])), extra, attrs(n['sites']), ''.join(pr_node(c) for c in n['children']))
    if k == 'comp':
        return '<comp>%s</comp>' % ''.join(pr_node(c) for c in n['children'])
    if k == 'slotted':
        sv = ''.join(' slot:%s' % x for x in n['names'])
        return '<%s%s%s>%s</%s>' % (n['tag'], sv, attrs(n['sites']), ''.join(pr_node(c) for c in n['children']), n['tag'])
    if k == 'wxs':
        return '<wxs module="%s">module.exports={f:1}</wxs>' % n['name']
    if k == 'tdef':
        return '<template name="%s">%s</template>' % (n['name'], ''.join(pr_node(c) for c in n['children']))
    if k == 'tuse':
        return '<template is="%s" data="{{ %s }}"/>' % (n['name'], esc(M.pr(n['data'])))
    raise ValueError(k)


def uses(x, y):
    """expressions that put identifiers at every kind of position"""
    return [x, ('mem', x, 'p'), ('bin', '+', x, y), ('arr', [x, None, ('spread', ('mem', y, 'l'))]), ('arr', [None, y]), ('call', I('fn'), [x, y]),
            ('obj', [('kv', 'k', x), ('spread', y)]), ('idx', I('arr'), x), ('cond', I('c'), x, y), ('call', ('mem', x, 'm'), [('idx', y, x)])]


def programs(tier):
    progs = []

    def add(title, nodes):
        progs.append({'title': title, 'nodes': nodes, 'wxml': ''.join(pr_node(n) for n in nodes)})
    for variant, (it, ix) in enumerate([(None, None), ('a', 'b'), ('item', 'i2'), ('x', None), (None, 'item')]):
        vi, vx = I(it or 'item'), I(ix or 'index')
        for e_i, e in enumerate(uses(vi, vx)):
            if tier != 'thorough' and (e_i + variant) % 3 != 0 and e_i > 1:
                continue
            b = B()
            add('for (%s,%s) positions' % (it, ix), [
                b.for_(I('list'), item=it, index=ix, sites=[b.site(e)], children=[b.view(sites=[b.site(e), b.site(vx)])]),
                b.view(sites=[b.site(e), b.site(vi)]),        # after the loop: data fields again
            ])
    # the list expression does not see the variables it introduces; nested loops and shadowing
    b = B()
    add('list expr scope', [b.for_(('mem', I('item'), 'l'), sites=[b.site(I('item'))],
                                   children=[b.for_(('mem', I('item'), 'sub'), sites=[b.site(('bin', '+', I('item'), I('index')))],
                                                    children=[b.view(sites=[b.site(I('item')), b.site(I('index'))])]),
                                             b.view(sites=[b.site(I('item')), b.site(I('index'))])])])
    b = B()
    add('nested renamed', [b.for_(I('l1'), item='a', index='b', children=[
        b.for_(('mem', I('a'), 's'), item='b', index='a', sites=[b.site(('arr', [I('a'), I('b')]))], children=[b.view(sites=[b.site(I('a')), b.site(I('b'))])]),
        b.view(sites=[b.site(I('a')), b.site(I('b'))])]), b.view(sites=[b.site(I('a')), b.site(I('b'))])])
    b = B()
    add('index after item', [b.for_(I('l'), item='index', sites=[b.site(I('index'))]), b.for_(I('l'), item='v', index='v', sites=[b.site(I('v'))])])
    # slot values on elements and blocks, ancestors, siblings, following nodes
    for tag in ('view', 'block'):
        b = B()
        add('slot values on <%s>' % tag, [
            b.comp(children=[b.slotted(['v', 'w'], tag=tag, sites=([b.site(I('v'))] if tag == 'view' else []),
                                       children=[b.view(sites=[b.site(('bin', '+', I('v'), I('w'))), b.site(I('item'))])]),
                             b.view(sites=[b.site(I('v')), b.site(I('w'))])]),
            b.view(sites=[b.site(I('v')), b.site(I('item'))]),
            b.for_(I('list'), sites=[b.site(I('item')), b.site(I('v'))]),
        ])
        b = B()
        add('slot value shadows loop variable (<%s>)' % tag, [
            b.for_(I('list'), children=[b.comp(children=[b.slotted(['item'], tag=tag, children=[b.view(sites=[b.site(I('item')), b.site(I('index'))])])]),
                                        b.view(sites=[b.site(I('item'))])]),
            b.view(sites=[b.site(I('item')), b.site(I('index'))]),
        ])
    # wxs modules: visible in the whole file (also in <template name>), shadowed by inner scopes
    b = B()
    add('wxs', [b.wxs('m'), b.view(sites=[b.site(('mem', I('m'), 'f')), b.site(I('m'))]),
                b.for_(I('list'), item='m', sites=[b.site(I('m'))], children=[b.view(sites=[b.site(('mem', I('m'), 'f'))])]),
                b.view(sites=[b.site(('mem', I('m'), 'f'))]),
                b.tdef('t', children=[b.view(sites=[b.site(('mem', I('m'), 'f')), b.site(I('item')), b.site(I('index')), b.site(I('v'))])]),
                b.for_(I('list'), children=[b.tuse('t', ('obj', [('kv', 'item', L('int', '5', 5))]))])])
    # a module declared *after* the template definition that uses it is still visible there (modules are file-wide)
    b = B()
    add('wxs declared after the template definition', [
        b.tdef('t', children=[b.view(sites=[b.site(('mem', I('m'), 'f')), b.site(I('m')), b.site(I('item'))])]),
        b.view(sites=[b.site(('mem', I('m'), 'f'))]),
        b.wxs('m'),
        b.for_(I('list'), children=[b.tuse('t', ('obj', [('kv', 'item', L('int', '5', 5)), ('kv', 'm', L('int', '6', 6))]))]),
        b.view(sites=[b.site(('mem', I('m'), 'f'))])])
    # sibling elements that list the same slot values in different orders: each element's own order counts
    for tag in ('view', 'block'):
        b = B()
        add('slot values in different orders on siblings (<%s>)' % tag, [
            b.comp(children=[b.slotted(['v', 'w'], tag=tag, sites=([b.site(I('v'))] if tag == 'view' else []), children=[b.view(sites=[b.site(I('v')), b.site(I('w'))])]),
                             b.slotted(['w', 'v'], tag=tag, sites=([b.site(I('v')), b.site(I('w'))] if tag == 'view' else []), children=[b.view(sites=[b.site(I('v')), b.site(I('w'))])]),
                             b.slotted(['w'], tag=tag, children=[b.view(sites=[b.site(I('v')), b.site(I('w'))])])]),
            b.view(sites=[b.site(I('v')), b.site(I('w'))])])
    b = B()
    add('template name body sees no outer scopes', [
        b.for_(I('list'), children=[b.comp(children=[b.slotted(['v'], children=[b.tuse('t', ('obj', [('short', 'item'), ('kv', 'q', I('v'))]))])])]),
        b.tdef('t', children=[b.view(sites=[b.site(I('item')), b.site(I('index')), b.site(I('v')), b.site(I('q'))]),
                              b.for_(I('q'), sites=[b.site(I('item'))])]),
        b.view(sites=[b.site(I('item'))])])
    return progs


def scoped_sites(nodes, env, out, counters):
    """walk the model in document order: (site, env) with env: name -> ('for', nth F, 'item'|'index') | ('slot', nth comp, name) | ('wxs', name)"""
    for n in nodes:
        k = n['k']
        if k == 'wxs':
            env = dict(env)
            env[n['name']] = ('wxs', n['name'])
    for n in nodes:
        k = n['k']
        if k == 'view':
            for s in n['sites']:
                out.append((s, env, None))
            scoped_sites(n['children'], env, out, counters)
        elif k == 'for':
            idx = counters['F']
            counters['F'] += 1
            out.append(({'name': '__list%d' % idx, 'expr': n['list']}, env, ('list', idx)))
            e2 = dict(env)
            e2[n['item'] or 'item'] = ('for', idx, 'item')
            e2[n['index'] or 'index'] = ('for', idx, 'index')
            for s in n['sites']:
                out.append((s, e2, None))
            scoped_sites(n['children'], e2, out, counters)
        elif k == 'comp':
            idx = counters['C']
            counters['C'] += 1
            for c in n['children']:
                if c['k'] == 'slotted':
                    e2 = dict(env)
                    for nm in c['names']:
                        e2[nm] = ('slot', idx, nm)
                    for s in c['sites']:
                        out.append((s, e2, None))
                    scoped_sites(c['children'], e2, out, counters)
                else:
                    scoped_sites([c], env, out, counters)
        elif k == 'slotted':
            # slot values outside a component child position
            e2 = dict(env)
            for s in n['sites']:
                out.append((s, e2, None))
            scoped_sites(n['children'], e2, out, counters)
        elif k == 'tdef':
            pass
        elif k == 'tuse':
            pass


def script_module_family(res):
    """-> [(program, [(desc, it, generated term, reference term)])]"""
    import itertools
    mods = [('fmt', 'inline'), ('util', 'src:u'), ('lib', 'src:w'), ('loc', 'inline')]
    out = []
    orders = [list(o) for o in itertools.permutations(mods[:3])] + [[mods[3], mods[1], mods[0], mods[2]], [mods[1], mods[3]]]
    groups = []
    progs = []
    for order in orders:
        decl = ''.join('<wxs module="%s">module.exports={tag:1}</wxs>' % n if k == 'inline' else '<wxs module="%s" src="./%s.wxs"/>' % (n, k[4:]) for n, k in order)
        uses = ''.join(' s%d="{{ %s.tag }}"' % (i, n) for i, (n, k) in enumerate(order))
        body = '<view%s/><block wx:for="{{ l }}"><view%s/></block><template name="t"><view%s/></template>' % (uses, uses.replace(' s', ' f'), uses.replace(' s', ' t'))
        wxml = decl + body
        progs.append({'title': 'script modules ' + ' '.join(k.split(':')[0] for _, k in order), 'wxml': wxml, 'order': order})
        groups.append({'files': [['a', wxml]], 'scripts': [['u', 'exports.tag=2'], ['w', 'exports.tag=3']], 'main': 'a'})
    comp = driver.compile_groups(groups, want=('gen_groups',))
    for p, c in zip(progs, comp):
        if 'panic' in c:
            res.violation({'engine': 'J', 'harness': 'compile', 'class': 'panic:' + p['title']}, 'compiler panics on %r: %s' % (p['wxml'], c['panic']), {'wxml': p['wxml']})
            continue
        if any(dg['level'] >= 3 for dg in c['diagnostics']):
            res.inconc('%s rejected by the parser: %s' % (p['wxml'][:150], c['diagnostics'][:1]))
            continue
        checks = []
        try:
            for tname, prefix in (('', 's'), ('', 'f'), ('t', 't')):
                rt = Runtime('create')
                H = rt.load_groups(c['gen_groups'], 'a')
                root = rt.run(H, name=tname)
                for i, (n, k) in enumerate(p['order']):
                    hits = driver.find_attr(root, '%s%d' % (prefix, i))
                    if len(hits) != 1:
                        raise JsUnsupported('site %s%d: %d hits' % (prefix, i, len(hits)))
                    modv = z3.Const('wxs_a_%s' % n if k == 'inline' else 'wxs_%s' % k[4:], V)
                    ref = M.RefEval(rt.it, rt.D, scopes={n: modv})
                    checks.append(('%s%d {{ %s.tag }}' % (prefix, i, n), rt.it, hits[0][1][1][1], ref.ev(('mem', I(n), 'tag'))))
        except JsUnsupported as e:
            res.inconc('%s: outside the translator: %s' % (p['title'], e))
            continue
        out.append((p, checks))
    return out


def main(tier):
    res = Result('C05', 'translation_validation')
    res.engines = ['J (symbolic execution of the emitted JavaScript + z3)', 'K (Kani harnesses on sub_expressions / convert_scopes)']
    progs = programs(tier)
    comp = driver.compile_batch([p['wxml'] for p in progs], want=('gen_object', 'runtime'))
    nsites = 0
    bad = {}
    for p, cmp_ in zip(progs, comp):
        if 'panic' in cmp_:
            res.violation({'engine': 'J', 'harness': 'compile', 'class': 'panic:' + p['title']}, 'compiler panics on %r: %s' % (p['wxml'], cmp_['panic']), {'wxml': p['wxml']})
            continue
        if any(dg['level'] >= 3 for dg in cmp_['diagnostics']):
            res.inconc('%s rejected by the parser: %s' % (p['wxml'], cmp_['diagnostics'][:2]))
            continue
        try:
            checks = check_program(p, cmp_)
        except JsUnsupported as e:
            res.inconc('%s: outside the translator: %s' % (p['wxml'], e))
            continue
        for (desc, it, gen, ref) in checks:
            nsites += 1
            verdict, model, dt = driver.decide_equal(it, gen, ref)
            res.solver_time += dt
            res.query(verdict)
            if verdict == 'unsat':
                if nsites % 29 == 1:
                    res.sample({'template': p['wxml'][:200], 'site': desc, 'verdict': 'unsat'})
            elif verdict == 'unknown':
                res.inconc('%s [%s]: solver unknown' % (p['title'], desc))
            else:
                bad.setdefault(p['title'], []).append((p, desc, it.term(gen), it.term(ref)))
    # script modules: inline <wxs> and <wxs src> in every order; each name must resolve to its own module
    for p, checks in script_module_family(res):
        for (desc, it, gen, ref) in checks:
            nsites += 1
            verdict, model, dt = driver.decide_equal(it, gen, ref)
            res.solver_time += dt
            res.query(verdict)
            if verdict == 'unknown':
                res.inconc('%s [%s]: solver unknown' % (p['title'], desc))
            elif verdict != 'unsat':
                bad.setdefault(p['title'], []).append((p, desc, it.term(gen), it.term(ref)))
    for title, items in sorted(bad.items()):
        p, desc, g, r = items[0]
        # the two terms are closed terms over scope symbols: a syntactic difference of resolved names is the violation itself;
        # replay = the generated code text around the site
        res.coverage['disagreements_checked'] = res.coverage.get('disagreements_checked', 0) + 1
        res.violation({'engine': 'J', 'harness': 'scope', 'class': title},
                      'scope resolution differs from lexical scoping in %r at %s: generated reads %s, lexical resolution gives %s (%d sites)' % (
                          p['wxml'], desc, str(g)[:120], str(r)[:120], len(items)), {'wxml': p['wxml'], 'site': desc})
    kani_part(res, tier)
    res.coverage.update({'programs': len(progs), 'sites': nsites, 'disagreements_checked': res.coverage.get('disagreements_checked', 0),
                         'explanation': 'per binding site: generated value term == lexically resolved reference term for all data and scope values (z3); '
                                        'Kani: traversal completeness over all expression forms'})
    res.bounds = {'templates': '%d hand-built families (positions x renamings, nesting <= 2, slots on elements and blocks, wxs, template bodies)' % len(progs)}
    res.assumptions = ['runtime passes item/index/slot values as the F / children callbacks receive them', 'slot value v is X(V).v (null-safe)']
    res.outside = ['deeper nesting than the families', 'TypeScript runtime']
    return res.finish()


def check_program(p, cmp_):
    rt = Runtime('create')
    H = rt.load(cmp_['gen_object'], cmp_['runtime'])
    root = rt.run(H)
    it = rt.it
    sites = []
    scoped_sites(p['nodes'], {}, sites, {'F': 0, 'C': 0})
    fs = [n for n in driver.walk(root) if n.kind == 'F']
    comps = [n for n in driver.walk(root) if n.kind == 'E' and n.tag == 'comp']
    wxs_env = {k: v for k, v in [(n['name'], ('wxs', n['name'])) for n in p['nodes'] if n['k'] == 'wxs']}

    def sym(binding):
        if binding[0] == 'for':
            f = fs[binding[1]]
            return f.item if binding[2] == 'item' else f.index
        if binding[0] == 'slot':
            c = comps[binding[1]]
            sv = it.term(c.slot_values)
            return get(z3.If(nullish_t(sv), EMPTY, sv), V.Str(z3.StringVal(binding[2])))
        if binding[0] == 'wxs':
            return z3.Const('wxs_a_%s' % binding[1], V)
        raise ValueError(binding)
    out = []
    for s, env, special in sites:
        ref = M.RefEval(it, rt.D, scopes={k: sym(v) for k, v in env.items()})
        if special and special[0] == 'list':
            if special[1] >= len(fs):
                raise JsUnsupported('for node %d not found' % special[1])
            gen = fs[special[1]].list
        else:
            hits = driver.find_attr(root, s['name'])
            if len(hits) != 1:
                raise JsUnsupported('site %s: %d hits' % (s['name'], len(hits)))
            gen = hits[0][1][1][1]
        out.append((s['name'] + ' {{ %s }}' % M.pr(s['expr']), it, gen, ref.ev(s['expr'])))
    # <template name> bodies: only script modules are visible; everything else is a field of the template's own data
    for n in p['nodes']:
        if n['k'] == 'tdef':
            rt2 = Runtime('create')
            H2 = rt2.load(cmp_['gen_object'], cmp_['runtime'])
            root2 = rt2.run(H2, name=n['name'])
            s2 = []
            scoped_sites(n['children'], dict(wxs_env), s2, {'F': 0, 'C': 0})
            fs2 = [x for x in driver.walk(root2) if x.kind == 'F']
            for s, env, special in s2:
                def sym2(b_):
                    if b_[0] == 'for':
                        f = fs2[b_[1]]
                        return f.item if b_[2] == 'item' else f.index
                    return z3.Const('wxs_a_%s' % b_[1], V)
                ref = M.RefEval(rt2.it, rt2.D, scopes={k: sym2(v) for k, v in env.items()})
                if special and special[0] == 'list':
                    gen = fs2[special[1]].list
                else:
                    hits = driver.find_attr(root2, s['name'])
                    if len(hits) != 1:
                        raise JsUnsupported('template body site %s: %d hits' % (s['name'], len(hits)))
                    gen = hits[0][1][1][1]
                out.append(('template %s: %s {{ %s }}' % (n['name'], s['name'], M.pr(s['expr'])), rt2.it, gen, ref.ev(s['expr'])))
    return out


def kani_part(res, tier):
    if os.environ.get('VERIF_DEV_SKIP_KANI'):     # development aid only (never set by the registered commands): makes the run inconclusive
        res.inconc('Kani part skipped (VERIF_DEV_SKIP_KANI)')
        return
    try:
        from kani import runner
    except ImportError:
        res.coverage['kani'] = 'harnesses not built in this revision'
        return
    runner.run_for(res, 'C05', tier)


def replay(path):
    d = json.load(open(path))
    print(json.dumps(d, indent=1)[:3000])
    return 1
