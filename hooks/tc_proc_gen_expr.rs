// hooks for tc_proc_gen_expr (included into the repo crate under cfg(any(kani, glass_easel_verif)))
