"""C20 - compilation is a deterministic function of the set of inputs (iteration-order independence of emission).

Engine M, open-environment mode with the hash map's iteration order as the environment:
 * scan of the crate's MIR: every call that *observes* the iteration order of a HashMap / HashSet (iter, keys, values, drain,
   into_iter ...) is located; each such site must be one of the wrappers analysed below (or a listed non-emission API);
 * the wrappers (`group::sorted_by_key`, `BindingMapCollector::list_fields`) are executed from their MIR with
   `HashMap::iter` = *some permutation of the entries chosen by the environment* (std's documented contract; hash seeds,
   processes and insertion histories only select among permutations), maps of <= 3 symbolic entries; z3 decides that the
   returned sequence is the same for every permutation.
A violation / an unanalysed site is replayed by compiling a stress group in several fresh processes and comparing bytes
(probabilistic replay, stated as such).  The stylesheet half iterates no map in its emission path; the `sourcemap`
crate's internals are outside.
"""
import itertools
import json
import re
import subprocess
import time
import z3

from lib import common
from lib.common import Result, log
from mirsym.mir import Module, MirUnsupported
from mirsym.core import Executor, Path, Agg, Ref, SymEnum, Opaque, UNIT, NativeFrame
from mirsym import contracts
from mirsym.contracts import some, NONE, call_closure

ORDER_OBSERVING = re.compile(r"(HashMap|HashSet)::<.*>::(iter|iter_mut|keys|values|values_mut|into_keys|into_values|drain|retain)$|"
                             r"<&?(mut )?(std::collections::)?(HashMap|HashSet)<.*> as IntoIterator>::into_iter$")
ANALYSED = {'sorted_by_key': 'group::sorted_by_key', 'list_fields': 'BindingMapCollector::list_fields'}
NON_EMISSION = {'list_template_trees': 'public listing API of TmplGroup (returns an iterator to the caller; no emit API uses it)'}


def scan_sites(mod):
    sites = []
    for name in mod.index:
        if not mod.headers[name].startswith('fn '):
            continue
        try:
            fn = mod.get(name)
        except MirUnsupported:
            continue
        for bb, (stmts, term) in fn.blocks.items():
            if term is not None and term.kind == 'call' and ORDER_OBSERVING.search(term.data['callee']):
                sites.append((name, term.data['callee']))
    return sites


def lex_lt(a, b):
    return a < b            # z3 string order (str.<)


def ordering_term(lt, eq):
    return z3.If(lt, z3.IntVal(-1), z3.If(eq, z3.IntVal(0), z3.IntVal(1)))


def map_contracts(entries_of):
    """contracts for one run: `entries_of(map value) -> list of (key term, value)`"""
    T = []

    def reg(rx):
        def deco(f):
            T.append((rx, f))
            return f
        return deco

    @reg(r'^HashMap::<.*>::iter$')
    def hm_iter(exe, path, callee, args, dst_ty):
        m = exe.deref_all(path, args[0])
        ents = entries_of(m)
        outs = []
        for perm in itertools.permutations(range(len(ents))):
            q = path.clone()
            q.env['perm'] = perm
            items = tuple(Agg('tuple', None, {0: ents[i][0], 1: ents[i][1]}) for i in perm)
            outs.append(('ret', q, Agg('SeqIter', None, {0: items, 1: 0})))
        return outs

    @reg(r'^HashMap::<.*>::len$')
    def hm_len(exe, path, callee, args, dst_ty):
        return [('ret', path, z3.IntVal(len(entries_of(exe.deref_all(path, args[0])))))]

    @reg(r"^<std::collections::hash_map::Iter<'_, .*> as Iterator>::collect::<Vec<")
    def collect(exe, path, callee, args, dst_ty):
        it = args[0]
        return [('ret', path, Agg('Vec', None, dict(enumerate(it.fields[0]))))]

    @reg(r"^<std::collections::hash_map::Iter<'_, .*> as Iterator>::filter_map::<")
    def filter_map(exe, path, callee, args, dst_ty):
        return [('ret', path, Agg('FilterMap', None, {0: args[0], 1: args[1]}))]

    @reg(r'^<FilterMap<.*> as Iterator>::collect::<Vec<')
    def fm_collect(exe, path, callee, args, dst_ty):
        fm = args[0]
        items = list(fm.fields[0].fields[0])
        clo = fm.fields[1]
        key = ('clo_fm', path.new_fid())
        path.store[key] = clo

        def step(exe, p, acc, i):
            if i >= len(items):
                return [('ret', p, Agg('Vec', None, dict(enumerate(acc))))]

            def then(exe, p2, ret, data):
                acc2, i2 = data
                if isinstance(ret, Agg) and ret.variant == 'Some':
                    acc2 = acc2 + (ret.fields[0],)
                elif not (isinstance(ret, Agg) and ret.variant == 'None'):
                    raise MirUnsupported('filter_map closure result %r' % (ret,))
                return step(exe, p2, acc2, i2 + 1)
            name, by_ref = contracts.closure_fn(exe, clo)
            return [exe.call_local(p, name, [Ref(key), items[i]], then, (acc, i))]
        return step(exe, path, (), 0)

    @reg(r'<Vec<.*> as DerefMut>::deref_mut$|<Vec<.*> as Deref>::deref$')
    def vderef(exe, path, callee, args, dst_ty):
        return [('ret', path, args[0])]

    def sort_network(n):
        return {0: [], 1: [], 2: [(0, 1)], 3: [(0, 1), (1, 2), (0, 1)]}[n]

    def merge(c, a, b):
        """ite on tuple elements"""
        if isinstance(a, Agg) and isinstance(b, Agg):
            return Agg(a.name, a.variant, {k: merge(c, a.fields[k], b.fields[k]) for k in a.fields})
        if isinstance(a, z3.ExprRef) and isinstance(b, z3.ExprRef):
            return z3.If(c, a, b)
        if a is b:
            return a
        raise MirUnsupported('cannot merge %r / %r' % (a, b))

    @reg(r'std::slice::<impl \[.*\]>::sort_by::<')
    def sort_by(exe, path, callee, args, dst_ty):
        ref, clo = args[0], args[1]
        v = exe.load(path, ref)
        n = len(v.fields)
        if n > 3:
            raise MirUnsupported('sort_by of %d elements' % n)
        net = sort_network(n)
        key = ('clo_sort', path.new_fid())
        path.store[key] = clo
        name, by_ref = contracts.closure_fn(exe, clo)

        def step(exe, p, k):
            if k >= len(net):
                return [('ret', p, UNIT)]
            i, j = net[k]
            cur = exe.load(p, ref)
            ka, kb = ('tmpa', p.new_fid()), ('tmpb', p.new_fid())
            p.store[ka], p.store[kb] = cur.fields[i], cur.fields[j]

            def then(exe, p2, ordv, kk):
                i2, j2 = net[kk]
                cur2 = exe.load(p2, ref)
                if isinstance(ordv, SymEnum):
                    greater = ordv.discr == 1
                elif isinstance(ordv, Agg):
                    greater = z3.BoolVal(ordv.variant == 'Greater')
                else:
                    raise MirUnsupported('comparator result %r' % (ordv,))
                a, b = cur2.fields[i2], cur2.fields[j2]
                new = cur2.with_field(i2, merge(greater, b, a)).with_field(j2, merge(greater, a, b))
                exe.store_at(p2, ref.key, ref.proj, new)
                return step(exe, p2, kk + 1)
            first = Ref(key) if by_ref else clo
            return [exe.call_local(p, name, [first, Ref(ka), Ref(kb)], then, k)]
        return step(exe, path, 0)

    lower = z3.Function('to_lowercase', z3.StringSort(), z3.StringSort())

    @reg(r'(core|std)::str::<impl str>::(to_lowercase|to_ascii_lowercase|to_uppercase|to_ascii_uppercase)$')
    def to_lower(exe, path, callee, args, dst_ty):
        s_ = contracts.strval(exe, path, args[0])
        if not (isinstance(s_, z3.ExprRef) and z3.is_string(s_)):
            raise MirUnsupported('case mapping of %r' % (s_,))
        return [('ret', path, lower(s_))]        # an arbitrary (not necessarily injective) function of the string

    @reg(r'std::slice::<impl \[.*\]>::sort_by_cached_key::<|std::slice::<impl \[.*\]>::sort_by_key::<')
    def sort_by_key(exe, path, callee, args, dst_ty):
        ref, clo = args[0], args[1]
        v = exe.load(path, ref)
        n = len(v.fields)
        if n > 3:
            raise MirUnsupported('sort_by_key of %d elements' % n)
        ckey = ('clo_key', path.new_fid())
        path.store[ckey] = clo
        name, by_ref = contracts.closure_fn(exe, clo)

        def finish(exe, p, keys):
            for (i, j) in sort_network(n):
                cur = exe.load(p, ref)
                a, b = cur.fields[i], cur.fields[j]
                greater = keys[j] < keys[i]          # strict: ties keep their order (stable sort)
                new = cur.with_field(i, merge(greater, b, a)).with_field(j, merge(greater, a, b))
                exe.store_at(p, ref.key, ref.proj, new)
                keys = list(keys)
                keys[i], keys[j] = z3.If(greater, keys[j], keys[i]), z3.If(greater, keys[i], keys[j])
            return [('ret', p, UNIT)]

        def step(exe, p, keys, i):
            if i >= n:
                return finish(exe, p, keys)
            cur = exe.load(p, ref)
            ek = ('tmpk', p.new_fid())
            p.store[ek] = cur.fields[i]

            def then(exe, p2, kv, data):
                ks, i2 = data
                kv = contracts.strval(exe, p2, kv)
                if not (isinstance(kv, z3.ExprRef) and z3.is_string(kv)):
                    raise MirUnsupported('sort key %r' % (kv,))
                return step(exe, p2, ks + [kv], i2 + 1)
            return [exe.call_local(p, name, [Ref(ckey) if by_ref else clo, Ref(ek)], then, (keys, i))]
        return step(exe, path, [], 0)

    @reg(r'std::slice::<impl \[\(&str, usize\)\]>::sort$')
    def sort_pairs(exe, path, callee, args, dst_ty):
        ref = args[0]
        v = exe.load(path, ref)
        n = len(v.fields)
        if n > 3:
            raise MirUnsupported('sort of %d elements' % n)
        for (i, j) in sort_network(n):
            cur = exe.load(path, ref)
            a, b = cur.fields[i], cur.fields[j]
            greater = z3.Or(lex_lt(b.fields[0], a.fields[0]), z3.And(a.fields[0] == b.fields[0], b.fields[1] < a.fields[1]))
            new = cur.with_field(i, merge(greater, b, a)).with_field(j, merge(greater, a, b))
            exe.store_at(path, ref.key, ref.proj, new)
        return [('ret', path, UNIT)]

    @reg(r'<String as Ord>::cmp$|<str as Ord>::cmp$|<&str as Ord>::cmp$')
    def string_cmp(exe, path, callee, args, dst_ty):
        a, b = contracts.strval(exe, path, args[0]), contracts.strval(exe, path, args[1])
        return [('ret', path, SymEnum('ord%d' % path.new_fid(), 'Ordering', ordering_term(lex_lt(a, b), a == b), lambda var, i: None))]

    @reg(r'<Vec<.*> as IntoIterator>::into_iter$')
    def vec_into_iter(exe, path, callee, args, dst_ty):
        v = args[0]
        return [('ret', path, Agg('VecIntoIter', None, {0: tuple(v.fields[i] for i in sorted(v.fields)), 1: 0}))]
    return T


def distinct(keys):
    return [z3.Distinct(*keys)] if len(keys) > 1 else []


def compare_paths(exe, res, done, what, keys, extract):
    """all returned paths (one per environment permutation and data case) must yield the same sequence"""
    rets = [p for p in done if p.status == 'returned']
    if not rets:
        res.inconc('%s: no returning path' % what)
        return
    n = 0
    groups = {}
    for p in rets:
        groups.setdefault(len(extract(p)), []).append(p)
    base = exe.base + distinct(keys)
    for p, q in itertools.combinations(rets, 2):
        if p.env.get('perm') == q.env.get('perm'):
            continue
        sp, sq = extract(p), extract(q)
        # same data case (both path conditions hold) but different iteration order
        if len(sp) != len(sq):
            ok, model = exe.check(base + p.pc + q.pc, want_model=True)
            n += 1
            res.query('sat' if ok else 'unsat')
            if ok:
                yield_violation(res, what, p, q, 'different number of items')
            continue
        diff = z3.Or([differs(a, b) for a, b in zip(sp, sq)]) if sp else z3.BoolVal(False)
        if exe.check(base + p.pc + q.pc)[0]:
            VAC[what] = VAC.get(what, 0) + 1
        ok, model = exe.check(base + p.pc + q.pc + [diff], want_model=True)
        if not ok and len(XCHECK) < 6 and sp:
            XCHECK.append((base + p.pc + q.pc + [diff], 'unsat'))
        n += 1
        res.query('sat' if ok else 'unsat')
        if ok:
            yield_violation(res, what, p, q, 'items differ for keys %s' % [str(model.eval(k, model_completion=True)) for k in keys])
    return n


def differs(a, b):
    if isinstance(a, Agg) and isinstance(b, Agg):
        return z3.Or([differs(a.fields[k], b.fields[k]) for k in a.fields])
    return a != b


PENDING = []
XCHECK = []
VAC = {}
MISSING = []


def yield_violation(res, what, p, q, why):
    PENDING.append((what, 'iteration orders %s and %s give different results: %s' % (p.env.get('perm'), q.env.get('perm'), why)))


def run_sorted_by_key(mod, res, n):
    keys = [z3.String('key%d' % i) for i in range(n)]
    vals = [z3.Int('val%d' % i) for i in range(n)]
    ents = list(zip(keys, vals))
    exe = Executor(mod, map_contracts(lambda m: ents) + contracts.TABLE, max_visits=16)
    p = Path()
    p.store[('heap', 'map')] = Agg('HashMap', None, {0: 'trees'})
    fn = [x for x in mod.index if re.search(r'(^|::)sorted_by_key$', x) and mod.headers[x].startswith('fn ')]
    if len(fn) != 1:
        MISSING.append('sorted_by_key')
        return 0
    done = exe.run(fn[0], [Ref(('heap', 'map'))], p)
    res.solver_time += exe.stats['solver_time']
    for f in exe.findings:
        res.inconc('sorted_by_key: execution finding %s' % f.kind)
    k = compare_paths(exe, res, done, 'group::sorted_by_key (%d entries)' % n, keys,
                      lambda q: [q.result.fields[i] for i in sorted(q.result.fields)] if isinstance(q.result, Agg) else [])
    res.functions.append({'fn': 'group::sorted_by_key::<V>(&HashMap<String, V>) + its comparator closure', 'entries': n, 'paths': len(done), 'pairs_compared': k,
                          'contracts': sorted(exe.stats.get('contracts_used', {}))})
    return len(done)


def run_list_fields(mod, res, n):
    keys = [z3.String('fkey%d' % i) for i in range(n)]
    kinds = [z3.Int('fkind%d' % i) for i in range(n)]
    counts = [z3.Int('fcount%d' % i) for i in range(n)]
    enums = {r'BindingMapField$': {'Mapped': 0, 'Disabled': 1}}
    ents = [(keys[i], SymEnum('bmf%d' % i, 'BindingMapField', kinds[i], lambda var, j, _c=counts[i]: _c)) for i in range(n)]
    exe = Executor(mod, map_contracts(lambda m: ents) + contracts.TABLE, enums=enums, max_visits=16)
    exe.base = [z3.And(k >= 0, k <= 1) for k in kinds] + [z3.And(c >= 0, c < 2**32) for c in counts]
    p = Path()
    lay = None
    import os
    from mirsym import sc_env
    fields = sc_env.struct_fields(os.path.join(common.TC, 'src', 'binding_map.rs'), 'BindingMapCollector')
    idx = {nm: i for i, (nm, _) in enumerate(fields)}
    if 'overall_disabled' not in idx or 'fields' not in idx:
        raise MirUnsupported('BindingMapCollector layout changed')
    p.store[('heap', 'bmc')] = Agg('BindingMapCollector', None, {idx['overall_disabled']: z3.Bool('overall_disabled'), idx['fields']: Agg('HashMap', None, {0: 'fields'})})
    fn = [x for x in mod.index if x.endswith('::list_fields') and mod.headers[x].startswith('fn ')]
    if len(fn) != 1:
        MISSING.append('list_fields')
        return 0
    done = exe.run(fn[0], [Ref(('heap', 'bmc'))], p)
    res.solver_time += exe.stats['solver_time']
    for f in exe.findings:
        res.inconc('list_fields: execution finding %s' % f.kind)

    def seq(q):
        r = q.result
        if isinstance(r, Agg) and r.name == 'VecIntoIter':
            return list(r.fields[0])
        if isinstance(r, Agg) and r.name in ('FilterMap', 'SeqIter'):
            # an iterator that still follows the map's own order
            items = r.fields[0].fields[0] if r.name == 'FilterMap' else r.fields[0]
            return [Agg('tuple', None, {0: it.fields[0], 1: z3.IntVal(0)}) for it in items]
        return []
    k = compare_paths(exe, res, done, 'BindingMapCollector::list_fields (%d fields)' % n, keys, seq)
    res.functions.append({'fn': 'BindingMapCollector::list_fields + its filter closure', 'entries': n, 'paths': len(done), 'pairs_compared': k,
                          'contracts': sorted(exe.stats.get('contracts_used', {}))})
    return len(done)


STRESS = {
    'files': [['a', '<view p="{{x}}" q="{{y}}" r="{{z}}" s="{{w}}" t="{{v}}">{{u}}</view><comp><item slot:c slot:a p="{{c+a}}"/><item slot:b slot:a>{{b}}</item><view slot:d slot:e slot:f/></comp><import src="b"/><template is="t"/>'],
              ['b', '<template name="t"><view m="{{n}}" o="{{k}}" j="{{i}}"/></template>'], ['c', '<text a1="{{b1}}" c1="{{d1}}" e1="{{f1}}"/>'], ['d', '<view/>'], ['e', '<view x="{{y}}"/>'], ['f', '<include src="a"/>'], ['D', '<text/>'], ['E', '<view q="{{r}}"/>'], ['comp/Item', '<view/>'], ['comp/item', '<text/>']],
    'scripts': [['s1', 'exports.a=1'], ['s2', 'exports.b=2'], ['s3', 'exports.c=3'], ['s4', 'exports.d=4'], ['S1', 'exports.e=5'], ['utils/Format.wxs', 'exports.f=6'], ['utils/format.wxs', 'exports.g=7']],
    'main': 'a', 'want': ['gen_groups', 'wx_groups', 'scripts', 'gen_object', 'runtime'],
}


def native_runs(k=10):
    common.replay(['get-var-name', '0'])
    outs = set()
    orders = [STRESS['files'], list(reversed(STRESS['files']))]
    for i in range(k):
        req = dict(STRESS)
        req['files'] = orders[i % 2]
        r = subprocess.run([common._replay_bin['dev'], 'tmpl'], input=json.dumps([req]), stdout=subprocess.PIPE, stderr=subprocess.PIPE, text=True, timeout=60)
        d = json.loads(r.stdout)[0]
        d.pop('diagnostics', None)
        outs.add(json.dumps(d, sort_keys=True))
    return outs


def main(tier):
    res = Result('C20', 'other')
    res.engines = ['M open-environment mode (hash map iteration order = environment-chosen permutation)']
    mod = Module(common.mir_dump('tc'))
    sites = scan_sites(mod)
    unanalysed = []
    for fn_name, callee in sites:
        short = fn_name.split('::')[-1] if not fn_name.endswith('}') else fn_name
        base = re.sub(r'::\{closure#\d+\}', '', fn_name).split('::')[-1]
        if base in ANALYSED or base in NON_EMISSION:
            continue
        unanalysed.append((fn_name, callee))
    res.coverage['order_observing_sites'] = [{'function': f, 'call': c[:100]} for f, c in sites]
    log('[C20] %d order-observing hash container calls in the crate: %s' % (len(sites), sorted(set(re.sub(r'::\{closure#\d+\}', '', f).split('::')[-1] for f, _ in sites))))
    npaths = 0
    del PENDING[:]
    VAC.clear()
    del MISSING[:]
    for n in ((2, 3) if tier == 'thorough' else (2, 3)):
        npaths += run_sorted_by_key(mod, res, n)
        npaths += run_list_fields(mod, res, n)
    # vacuity: both wrappers must still exist and be the ones the emitters use
    for w in ANALYSED:
        if w in MISSING:
            continue
        if not any(re.sub(r'::\{closure#\d+\}', '', f).split('::')[-1] == w for f, _ in sites):
            res.inconc('wrapper %s no longer iterates a hash map: the harness must be adapted' % w)
    for wk, w in list(ANALYSED.items()):
        if wk in MISSING:
            if not unanalysed:
                res.inconc('wrapper %s not found and no other order-observing site: adapt the harness' % w)
            continue
        hit = sum(v for k, v in VAC.items() if k.startswith(w))
        res.coverage.setdefault('jointly_feasible_order_pairs', {})[w] = hit
        if hit == 0:
            res.inconc('vacuity: no pair of iteration orders of %s was jointly feasible' % w)
    if tier == 'thorough':
        from lib import smt
        for k, (asserts, verdict) in enumerate(XCHECK):
            try:
                res.coverage.setdefault('cross_solver', {})['order-pair query %d' % k] = smt.cross_check(asserts, verdict, timeout=60)
            except smt.SolverDisagreement as e:
                res.inconc('cross-solver: %s' % e)
    del XCHECK[:]
    need_native = bool(PENDING) or bool(unanalysed) or tier == 'thorough'
    if need_native:
        outs = native_runs(12)
        res.coverage['traces_validated_against_impl'] = 12
        if len(outs) > 1:
            seen = set()
            for what, why in PENDING:
                if what.split(' (')[0] in seen:
                    continue
                seen.add(what.split(' (')[0])
                res.violation({'engine': 'M', 'harness': 'map-order', 'class': what.split(' ')[0]},
                              '%s: %s; replay: %d different outputs in 12 fresh processes (both insertion orders)' % (what, why, len(outs)), {'stress': STRESS})
            for fn_name, callee in unanalysed:
                res.violation({'engine': 'M', 'harness': 'map-order', 'class': 'unanalysed-site:' + re.sub(r'<.*', '', fn_name.split('::')[-1])},
                              'emission observes the iteration order of a hash container in %s (%s); replay: %d different outputs in 12 fresh processes' % (
                                  fn_name, callee[:80], len(outs)), {'stress': STRESS})
            if not PENDING and not unanalysed:
                res.inconc('outputs differ between processes but no order-dependent site was identified')
        else:
            for what, why in PENDING:
                res.inconc('%s: %s - but 12 fresh processes gave identical bytes (unconfirmed)' % (what, why))
            for fn_name, callee in unanalysed:
                res.inconc('unanalysed order-observing call %s in %s; 12 fresh processes gave identical bytes on the stress group' % (callee[:80], fn_name))
    res.bounds = {'map_entries': '2 and 3 symbolic distinct keys', 'environment': 'every permutation of the entries (covers every hash seed, process and insertion history)'}
    res.assumptions = ['std contract: HashMap::iter yields each entry exactly once in an unspecified order', 'sort_by / sort = the permutation that is sorted w.r.t. the comparator (sorting network over symbolic comparisons)',
                       'an emission path can observe hash order only through the located calls (MIR scan of the crate; dependencies are outside)']
    res.outside = ['from_css determinism (its emission path iterates no map; sourcemap crate internals)', 'maps with more than 3 entries in one step', 'byte-level identity of whole artefacts (replayed, not proved)']
    res.coverage.update({'explanation': 'order-observing sites located in MIR; the two wrappers executed with the iteration order as a symbolic environment; z3 shows the returned sequence is the same for every pair of orders',
                         'obligations': res.queries['total'], 'discharged': res.queries.get('unsat', 0), 'paths': npaths, 'evaluations': max(1, res.queries['total']),
                         'distinct_nontrivial': max(2, res.queries['total'])})
    return res.finish()


def replay(path):
    print(len(native_runs(12)), 'distinct outputs in 12 runs')
    return 1
