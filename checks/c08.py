"""C08 - stylesheet output keeps the token stream and all meaningful whitespace (routine/trace level, engine M open environment)."""
import json
from checks import css_common as cc


def main(tier):
    res = cc.run_property('C08', tier, ['class_block', 'value_block', 'qualified_rule', 'at_rule'], extra_targets=[])
    # the writers themselves: one call of each token appender from an arbitrary output state writes the token exactly once
    from checks import c19, css_entry
    from lib import common
    from mirsym.mir import Module, MirUnsupported
    try:
        n = c19.column_target(Module(common.mir_dump('sc')), res, prop='C08')
        res.coverage['obligations'] = res.coverage.get('obligations', 0) + n
    except MirUnsupported as e:
        what = 'the token appenders are outside the executor (%s): not decided' % str(e)[:140]
        if not css_entry.probe_sheets(res, {'engine': 'replay', 'harness': 'appender', 'class': 'unsupported'}, what):
            res.inconc(what + '; the probe sheets show no deviation')
    return res.finish()


def replay(path):
    d = json.load(open(path))
    why, out = cc.oracle_mismatch(d['replay']['css'], d['replay']['options'])
    print(out, why)
    return 1 if why else 0
