// stdin: [{runtime, gen_object}...]  stdout: [null | "SyntaxError: ..." (first of sloppy / strict)]  -- parses, never runs, the generated code
'use strict'
const items = JSON.parse(require('fs').readFileSync(0, 'utf8'))
const out = items.map((it) => {
  for (const pre of ['', '"use strict";']) {
    try { new Function(pre + it.runtime + ';return (' + it.gen_object + ')') } catch (e) { return (pre ? 'strict mode: ' : 'sloppy mode: ') + String(e) }
  }
  return null
})
console.log(JSON.stringify(out))
