"""C12 - static strings reach the runtime character for character.

Engine M on the two string kernels of the template compiler (MIR regenerated from the working tree):
 M12a  `escape::gen_lit_str` (the writer of every string literal of the generated JavaScript): input = L symbolic Unicode
       scalar values (L <= 3: every code point with every successor and predecessor); the emitted character sequence is
       decoded by a reference decoder of ECMAScript double-quoted StringLiteral (forking on the solver where the class of
       a character is not determined by the path); z3 decides that the literal is well formed in sloppy AND strict mode
       (no raw quote / backslash / line terminator, no legacy octal escape, only escapes every engine knows) and that its
       value is the input, for all inputs.
 M12b  `Expression::parse_lit_str` (escape processing of string literals inside `{{ }}`): quote + <= 6 symbolic characters
       + quote against the documented escape table (\\n \\r \\t \\b \\f \\v \\0 \\xHH \\uHHHH, identity otherwise); an invalid
       \\x / \\u escape must be diagnosed.
Counterexamples are replayed end to end: a template carrying the string is compiled by the real compiler, the generated
program is executed by node with the recording runtime, and the string the runtime receives is compared.
Outside: entity decoding (entities.rs + a 2231-entry table), composition over whole templates, names that are emitted
through other writers than gen_lit_str.
"""
import json
import time
import z3

from lib import common
from lib.common import Result, log
from mirsym.mir import Module, MirUnsupported
from mirsym.core import Executor, Path, Agg, Ref, SeqV, Inconclusive
from mirsym import contracts, targets, ps_env
from jssym import driver

LINE_TERMINATORS = (10, 13, 0x2028, 0x2029)


def scalar(c):
    return z3.And(c >= 0, c <= 0x10FFFF, z3.Or(c < 0xD800, c > 0xDFFF))


class Decoder:
    """reference decoder of the body of a double-quoted ECMAScript string literal over symbolic characters"""

    def __init__(self, exe, base):
        self.exe, self.base = exe, base
        self.nq = 0

    def sat(self, conds):
        self.nq += 1
        ok, _ = self.exe.check(self.base + conds)
        return ok

    def cases(self, guards, options):
        """options: [(cond, tag)] mutually exclusive and exhaustive -> the feasible ones"""
        out = []
        for cond, tag in options:
            c = z3.simplify(cond)
            if z3.is_false(c):
                continue
            if z3.is_true(c) or self.sat(guards + [c]):
                out.append((guards + ([] if z3.is_true(c) else [c]), tag))
        return out

    def hexval(self, d):
        return z3.If(z3.And(d >= 48, d <= 57), d - 48, z3.If(z3.And(d >= 97, d <= 102), d - 87, z3.If(z3.And(d >= 65, d <= 70), d - 55, z3.IntVal(-1))))

    def decode(self, items):
        """-> [(guards, ('ok', [terms]) | ('error', why))]"""
        results = []
        todo = [(0, [], [])]
        while todo:
            i, guards, out = todo.pop()
            if i >= len(items):
                results.append((guards, ('ok', out)))
                continue
            c = items[i]
            is_lt = z3.Or([c == x for x in LINE_TERMINATORS])
            opts = [(c == 34, 'quote'), (c == 92, 'esc'), (is_lt, 'lt'), (z3.Not(z3.Or(c == 34, c == 92, is_lt)), 'lit')]
            for g, tag in self.cases(guards, opts):
                if tag == 'quote':
                    results.append((g, ('error', 'unescaped quote inside the literal')))
                elif tag == 'lt':
                    results.append((g, ('error', 'raw line terminator inside the literal')))
                elif tag == 'lit':
                    todo.append((i + 1, g, out + [c]))
                else:
                    if i + 1 >= len(items):
                        results.append((g, ('error', 'backslash at the end of the literal')))
                        continue
                    e = items[i + 1]
                    simple = {34: 34, 92: 92, 39: 39, 110: 10, 114: 13, 116: 9, 98: 8, 102: 12, 118: 11}
                    eopts = [(e == k, ('simple', v)) for k, v in simple.items()]
                    eopts += [(e == 48, ('zero', None)), (z3.And(e >= 49, e <= 57), ('octal', None)), (e == 120, ('x', None)), (e == 117, ('u', None)),
                              (z3.Or([e == x for x in LINE_TERMINATORS]), ('cont', None))]
                    other = z3.Not(z3.Or([o[0] for o in eopts]))
                    eopts.append((other, ('identity', None)))
                    for g2, (kind, val) in self.cases(g, eopts):
                        if kind == 'simple':
                            todo.append((i + 2, g2, out + [z3.IntVal(val)]))
                        elif kind == 'identity':
                            todo.append((i + 2, g2, out + [e]))
                        elif kind == 'octal':
                            results.append((g2, ('error', 'legacy octal / \\8 \\9 escape (SyntaxError in strict mode, different value)')))
                        elif kind == 'cont':
                            results.append((g2, ('error', 'line continuation')))
                        elif kind == 'zero':
                            if i + 2 < len(items):
                                nx = items[i + 2]
                                for g3, t3 in self.cases(g2, [(z3.And(nx >= 48, nx <= 57), 'digit'), (z3.Not(z3.And(nx >= 48, nx <= 57)), 'fine')]):
                                    if t3 == 'digit':
                                        results.append((g3, ('error', '\\0 followed by a digit is a legacy octal escape')))
                                    else:
                                        todo.append((i + 2, g3, out + [z3.IntVal(0)]))
                            else:
                                todo.append((i + 2, g2, out + [z3.IntVal(0)]))
                        else:
                            n = 2 if kind == 'x' else 4
                            if i + 2 + n > len(items):
                                results.append((g2, ('error', 'truncated \\%s escape' % kind)))
                                continue
                            ds = items[i + 2:i + 2 + n]
                            hv = [self.hexval(d) for d in ds]
                            valid = z3.And([h >= 0 for h in hv])
                            for g3, t3 in self.cases(g2, [(valid, 'hex'), (z3.Not(valid), 'bad')]):
                                if t3 == 'bad':
                                    results.append((g3, ('error', '\\%s escape without %d hex digits (\\u{...} is not accepted by every engine / the template parser)' % (kind, n))))
                                else:
                                    v = hv[0]
                                    for h in hv[1:]:
                                        v = v * 16 + h
                                    todo.append((i + 2 + n, g3, out + [v]))
        return results


def utf16_units(chars):
    """JavaScript strings are UTF-16: \\uXXXX denotes one unit; a scalar above the BMP is two units"""
    return chars


def m12a(res, mod, tier):
    total = 0
    pending = []
    for L in ((1, 2, 3) if tier == 'thorough' else (1, 2)):
        t0 = time.time()
        exe = Executor(mod, contracts.TABLE, max_visits=L + 3)
        chars = [z3.Int('s%d' % i) for i in range(L)]
        exe.base = [scalar(c) for c in chars]
        p = Path()
        p.store[('heap', 'in')] = SeqV(tuple(chars))
        done = exe.run('gen_lit_str', [Ref(('heap', 'in'))], p)
        res.solver_time += exe.stats['solver_time']
        for f in exe.findings:
            s = ''.join(chr(f.model.eval(c, model_completion=True).as_long()) for c in chars) if f.model is not None else None
            pending.append(('exec:' + f.kind, 'gen_lit_str: %s' % f.kind, s))
        nret = 0
        nq = 0
        for q in done:
            if q.status != 'returned':
                continue
            nret += 1
            r = q.result
            if not isinstance(r, SeqV) or len(r.items) < 2:
                pending.append(('shape', 'gen_lit_str returns %r' % (r,), None))
                continue
            dec = Decoder(exe, exe.base + q.pc)
            first, last, body = r.items[0], r.items[-1], list(r.items[1:-1])
            ok, model = exe.check(exe.base + q.pc + [z3.Or(first != 34, last != 34)], want_model=True)
            res.query('sat' if ok else 'unsat')
            nq += 1
            if ok:
                pending.append(('quotes', 'the literal is not delimited by double quotes', witness(model, chars)))
                continue
            for guards, (kind, val) in dec.decode(body):
                nq += 1
                if kind == 'error':
                    ok, model = exe.check(exe.base + q.pc + guards, want_model=True)
                    res.query('sat' if ok else 'unsat')
                    if ok:
                        pending.append(('malformed:' + val.split(' ')[0], 'the emitted literal is not valid for every engine: ' + val, witness(model, chars)))
                    continue
                # value: the decoded UTF-16/code point sequence is the input
                if len(val) != L:
                    ok, model = exe.check(exe.base + q.pc + guards, want_model=True)
                    res.query('sat' if ok else 'unsat')
                    if ok:
                        pending.append(('value', 'the literal denotes %d characters for an input of %d' % (len(val), L), witness(model, chars)))
                    continue
                diff = z3.Or([a != b for a, b in zip(val, chars)])
                ok, model = exe.check(exe.base + q.pc + guards + [diff], want_model=True)
                res.query('sat' if ok else 'unsat')
                if ok:
                    pending.append(('value', 'the literal denotes a different string', witness(model, chars)))
            nq += dec.nq
        total += nq
        if nret == 0:
            res.inconc('M12a L=%d: no returning path' % L)
        res.functions.append({'fn': 'escape::gen_lit_str(&str) -> String', 'input_chars': L, 'paths': len(done), 'returned': nret, 'queries': nq,
                              'contracts': sorted(exe.stats.get('contracts_used', {}))})
        log('[C12] M12a L=%d: %d paths, %d queries, %d candidate deviations (%.1fs)' % (L, len(done), nq, len(pending), time.time() - t0))
    return total, pending


def witness(model, chars):
    return ''.join(chr(model.eval(c, model_completion=True).as_long()) for c in chars)


CRITICAL = ['0', '7', '9', 'a', 'F', '"', "'", '\\', '{', '}', '\n', ' ', '\0', 'u', 'x']


def e2e(strings):
    """compile templates that carry each string as static text, static attribute and expression literal; run the generated
    code in node; -> list of (string, context, received) that differ"""
    def ent(s):
        return ''.join('&#%d;' % ord(ch) for ch in s)

    def wxlit(s):
        return ''.join('\\u%04x' % ord(ch) if ord(ch) < 0x10000 else ch for ch in s)
    bad = []
    progs = []
    for s in strings:
        progs.append('<v p="%s" q="{{ \'%s\' }}">%s</v>' % (ent(s), wxlit(s), ent(s)))
    comp = driver.compile_batch(progs, want=('gen_object', 'runtime'))
    for s, c in zip(strings, comp):
        if 'panic' in c:
            bad.append((s, 'compile', 'panic: ' + c['panic']))
            continue
        if any(d['level'] >= 3 for d in c.get('diagnostics', [])):
            continue      # not a well-formed carrier for this string (e.g. lone surrogate escapes)
        jobs = [{'mode': 'attr', 'attr': a, 'ref': json.dumps(s), 'envs': [{}]} for a in ('p', 'q')] + [{'mode': 'tree', 'ref': 'null', 'envs': [{}]}]
        try:
            out = driver.node_eval(c['gen_object'], c['runtime'], jobs)
        except common.Inconclusive as e:
            bad.append((s, 'node', str(e)[:200]))
            continue
        if 'load_error' in out:
            bad.append((s, 'load', out['load_error']))
            continue
        for (got, want), ctx in zip([r[0] for r in out['results'][:2]], ('static attribute', 'expression literal')):
            if got != want:
                bad.append((s, ctx, got))
        tree = out['results'][2][0][0]
        if json.dumps(s, ensure_ascii=False) not in tree and s.strip() == s and s:
            bad.append((s, 'static text', tree[:200]))
    return bad


def m12b(res, mod, tier):
    """parse_lit_str against the escape table"""
    pending = []
    total = 0
    L = 8
    fams = [('"', None), ("'", None)]
    for quote, _ in fams[:1 if tier != 'thorough' else 2]:
        t0 = time.time()
        exe, inp, fn, done = targets.run_ps_client(mod, r'::parse_lit_str$', L, family=(quote, None), ascii_only=False, max_visits=L + 4, merge=False)
        res.solver_time += exe.stats['solver_time']
        for f in exe.findings:
            s = inp.string_of(f.model) if f.model is not None else None
            pending.append(('exec:' + f.kind.split(',')[0], 'parse_lit_str: %s' % f.kind, s, 'lit'))
        nret = nq = 0
        lemmas = digit_lemmas(exe, inp, done)
        res.coverage['digit_table_lemmas'] = len(lemmas)
        for q in done:
            if q.status != 'returned':
                continue
            r = q.result
            if not (isinstance(r, Agg) and r.variant == 'Some'):
                continue
            nret += 1
            idx, warns, _ = q.env['ps']
            e = exe.deref_all(q, r.fields[0])
            if not (isinstance(e, Agg) and (e.variant or e.name) == 'LitStr'):
                pending.append(('shape', 'parse_lit_str returns %r' % (e,), None, 'lit'))
                continue
            val = e.fields[0]
            if not isinstance(val, SeqV):
                raise MirUnsupported('LitStr value %r' % (val,))
            # reference: decode chars[1 .. idx-1) with the documented table
            body = inp.chars[1:idx - 1]
            base = exe.base + q.pc + [inp.n >= idx] + lemmas
            ref_cases = ref_decode(exe, base, body, quote)
            nq += 1
            for guards, (kind, out) in ref_cases:
                nq += 1
                if kind == 'invalid':
                    # an invalid escape must be diagnosed
                    if warns == 0:
                        ok, model = exe.check(base + guards, want_model=True)
                        res.query('sat' if ok else 'unsat')
                        if ok:
                            pending.append(('undiagnosed', 'invalid escape sequence accepted without a diagnostic (%s)' % out, inp.string_of(model), 'lit'))
                    continue
                if warns:
                    ok, model = exe.check(base + guards, want_model=True)
                    res.query('sat' if ok else 'unsat')
                    if ok:
                        pending.append(('spurious-diagnostic', 'a valid string literal is diagnosed', inp.string_of(model), 'lit'))
                    continue
                if len(out) != len(val.items):
                    ok, model = exe.check(base + guards, want_model=True)
                    res.query('sat' if ok else 'unsat')
                    if ok:
                        pending.append(('value', 'literal decodes to %d characters, the escape table gives %d' % (len(val.items), len(out)), inp.string_of(model), 'lit'))
                    continue
                diff = z3.Or([a != b for a, b in zip(out, val.items)]) if out else z3.BoolVal(False)
                ok, model = exe.check(base + guards + [diff], want_model=True)
                res.query('sat' if ok else 'unsat')
                if ok:
                    pending.append(('value', 'literal decodes to a different string than the escape table gives', inp.string_of(model), 'lit'))
        total += nq
        if nret == 0:
            res.inconc('M12b: no path returns a literal')
        res.functions.append({'fn': 'Expression::parse_lit_str + closures (parse/expr.rs)', 'max_chars': L, 'quote': quote, 'paths': len(done), 'literals': nret,
                              'queries': nq, 'contracts': sorted(exe.stats.get('contracts_used', {}))})
        log('[C12] M12b quote %s L=%d: %d paths, %d literal paths, %d queries (%.1fs)' % (quote, L, len(done), nret, nq, time.time() - t0))
    return total, pending


def digit_lemmas(exe, inp, done):
    """The parser's per-character digit table T(c) (an if-then-else term over one input character, found inside the value of a
    decoded escape) equals the reference hex value for every hex digit: proved once for an arbitrary character, then instantiated
    for every input position.  Sound by construction: only proved equalities are returned."""
    d = Decoder(exe, [])
    cand = {}
    for q in done:
        if q.status != 'returned' or not (isinstance(q.result, Agg) and q.result.variant == 'Some'):
            continue
        e = exe.deref_all(q, q.result.fields[0])
        if not (isinstance(e, Agg) and isinstance(e.fields.get(0), SeqV)):
            continue
        for item in e.fields[0].items:
            todo = [item]
            while todo:
                t = todo.pop()
                if not isinstance(t, z3.ExprRef) or z3.is_int_value(t):
                    continue
                if z3.is_app_of(t, z3.Z3_OP_ITE):
                    vs = free_consts(t)
                    if len(vs) == 1:
                        cand[t.get_id()] = (t, vs[0])
                        continue
                todo.extend(t.children())
        if len(cand) >= 8:
            break
    lemmas = []
    proved = []
    for t, c in cand.values():
        if any(z3.eq(z3.substitute(t, (c, pc_)), pt) for pt, pc_ in proved):
            continue
        h = d.hexval(c)
        ok, _ = exe.check([h >= 0, t != h])
        if not ok:
            proved.append((t, c))
    for t, c in proved:
        for ci in inp.chars:
            lemmas.append(z3.Implies(d.hexval(ci) >= 0, z3.substitute(t, (c, ci)) == d.hexval(ci)))
    return lemmas


def free_consts(t):
    seen, out, todo = set(), [], [t]
    while todo:
        x = todo.pop()
        if x.get_id() in seen:
            continue
        seen.add(x.get_id())
        if z3.is_const(x) and x.decl().kind() == z3.Z3_OP_UNINTERPRETED:
            out.append(x)
        todo.extend(x.children())
    return out


def ref_decode(exe, base, body, quote):
    """the escape table of template string literals over symbolic characters -> [(guards, ('ok', [terms]) | ('invalid', why))]"""
    d = Decoder(exe, base)
    results = []
    todo = [(0, [], [])]
    simple = {ord('r'): 13, ord('n'): 10, ord('t'): 9, ord('b'): 8, ord('f'): 12, ord('v'): 11, ord('0'): 0}
    while todo:
        i, guards, out = todo.pop()
        if i >= len(body):
            results.append((guards, ('ok', out)))
            continue
        c = body[i]
        for g, tag in d.cases(guards, [(c == 92, 'esc'), (c != 92, 'lit')]):
            if tag == 'lit':
                todo.append((i + 1, g, out + [c]))
                continue
            if i + 1 >= len(body):
                results.append((g, ('invalid', 'backslash before the closing quote')))
                continue
            e = body[i + 1]
            opts = [(e == k, ('simple', v)) for k, v in simple.items()] + [(e == 120, ('x', 2)), (e == 117, ('u', 4))]
            opts.append((z3.Not(z3.Or([o[0] for o in opts])), ('identity', None)))
            for g2, (kind, v) in d.cases(g, opts):
                if kind == 'simple':
                    todo.append((i + 2, g2, out + [z3.IntVal(v)]))
                elif kind == 'identity':
                    todo.append((i + 2, g2, out + [e]))
                else:
                    n = v
                    if i + 2 + n > len(body):
                        results.append((g2, ('invalid', 'truncated \\%s escape' % kind)))
                        continue
                    hv = [d.hexval(x) for x in body[i + 2:i + 2 + n]]
                    val = hv[0]
                    for h in hv[1:]:
                        val = val * 16 + h
                    valid = z3.And([h >= 0 for h in hv] + [z3.Or(val < 0xD800, val > 0xDFFF)])
                    for g3, t3 in d.cases(g2, [(valid, 'ok'), (z3.Not(valid), 'bad')]):
                        if t3 == 'bad':
                            results.append((g3, ('invalid', '\\%s escape without %d hex digits / surrogate value' % (kind, n))))
                        else:
                            todo.append((i + 2 + n, g3, out + [val]))
    return results


def replay_lit(strings):
    """expression literals given verbatim (the witness is the literal's source text incl. quotes): the runtime must receive the table's value"""
    bad = []
    progs = ['<v>{{ %s }}</v>' % s for s in strings]
    comp = driver.compile_batch(progs, want=('gen_object', 'runtime'))
    for s, c in zip(strings, comp):
        if 'panic' in c:
            bad.append((s, 'panic: ' + c['panic']))
            continue
        diag = [d for d in c.get('diagnostics', []) if d['level'] >= 3]
        want = py_ref(s)
        if want is None:
            if not diag:
                bad.append((s, 'invalid escape accepted without a diagnostic'))
            continue
        if diag:
            bad.append((s, 'valid literal diagnosed: %s' % diag[0].get('kind', diag[0])))
            continue
        out = driver.node_eval(c['gen_object'], c['runtime'], [{'mode': 'tree', 'ref': 'null', 'envs': [{}]}])
        if 'load_error' in out:
            bad.append((s, 'generated code does not load: ' + out['load_error']))
            continue
        tree = out['results'][0][0][0]
        if '"text":' + json.dumps(want, ensure_ascii=False) not in tree:
            bad.append((s, 'the literal denotes %s, the runtime receives %s' % (json.dumps(want), tree[:200])))
    return bad


def py_ref(src):
    """concrete escape table (None = invalid)"""
    q, body = src[0], src[1:-1]
    out = []
    i = 0
    simple = {'r': '\r', 'n': '\n', 't': '\t', 'b': '\b', 'f': '\f', 'v': '\v', '0': '\0'}
    while i < len(body):
        c = body[i]
        if c != '\\':
            out.append(c)
            i += 1
            continue
        if i + 1 >= len(body):
            return None
        e = body[i + 1]
        if e in simple:
            out.append(simple[e])
            i += 2
        elif e in 'xu':
            n = 2 if e == 'x' else 4
            h = body[i + 2:i + 2 + n]
            if len(h) != n or any(ch not in '0123456789abcdefABCDEF' for ch in h):
                return None
            v = int(h, 16)
            if 0xD800 <= v <= 0xDFFF:
                return None
            out.append(chr(v))
            i += 2 + n
        else:
            out.append(e)
            i += 2
    return ''.join(out)


def main(tier):
    res = Result('C12', 'other')
    res.engines = ['M (MIR symbolic execution + z3; reference decoders over symbolic characters)']
    mod = Module(common.mir_dump('tc'))
    try:
        na, pend_a = m12a(res, mod, tier)
    except MirUnsupported as e:
        # the writer cannot be executed by M (e.g. it delegates to core's formatting machinery): nothing is proved; the
        # critical strings are still pushed through the real pipeline so that a known-bad writer is reported, not just "unknown"
        na, pend_a = 0, []
        res.inconc('M12a: gen_lit_str is outside the executor (%s)' % str(e)[:160])
        probe = ['\0' + x for x in '0179'] + [c + x for c in ('\0', '\x01', '\x7f', '\u2028', '\\', '"', 'é', '\U0001F600') for x in CRITICAL[:8]]
        bad = e2e(probe)
        res.coverage['traces_validated_against_impl'] = res.coverage.get('traces_validated_against_impl', 0) + len(probe)
        if bad:
            s0, ctx, got = bad[0]
            res.violation({'engine': 'replay', 'harness': 'M12a-fallback', 'class': 'e2e'},
                          'the string %r as %s reaches the runtime as %s (%d of %d probe strings differ)' % (s0, ctx, got[:120], len(bad), len(probe)), {'string': s0, 'context': ctx})
    nb, pend_b = m12b(res, mod, tier)
    # replay
    seen = set()
    for cls, what, s in pend_a:
        if cls in seen:
            continue
        seen.add(cls)
        cands = ([s] if s is not None else []) + [s[:1] + x for x in CRITICAL if s] + ['\0' + x for x in '0179'] + ['\\0', 'a\\', ' ', '\x7f', '\x01']
        bad = e2e(cands)
        res.coverage['traces_validated_against_impl'] = res.coverage.get('traces_validated_against_impl', 0) + len(cands)
        if bad:
            s0, ctx, got = bad[0]
            res.violation({'engine': 'M', 'harness': 'M12a', 'class': cls},
                          'gen_lit_str: %s; end to end: the string %r as %s reaches the runtime as %s' % (what, s0, ctx, got), {'string': s0, 'context': ctx})
        else:
            res.inconc('M12a: %s (witness %r) - not observable end to end' % (what, s))
    seen = set()
    for cls, what, s, _ in pend_b:
        if cls in seen:
            continue
        seen.add(cls)
        cands = [s] if s else []
        if s and len(s) >= 2 and s[-1] != s[0]:
            cands.append(s + s[0])
        bad = replay_lit([c for c in cands if len(c) >= 2 and c[0] == c[-1] and c[0] in '"\''])
        res.coverage['traces_validated_against_impl'] = res.coverage.get('traces_validated_against_impl', 0) + len(cands)
        if bad:
            res.violation({'engine': 'M', 'harness': 'M12b', 'class': cls}, 'parse_lit_str: %s; end to end: {{ %s }}: %s' % (what, bad[0][0], bad[0][1]), {'literal': bad[0][0]})
        else:
            res.inconc('M12b: %s (witness %r) - not observable end to end' % (what, s))
    # translator validation (Serval-style): fixed strings through the encoding's claim and the real pipeline
    fixed = ['a', '\0' + '1', '"\\', '\n\r\t', '\x7f ', '\U0001F600', 'é', '\x1f0', '{{', "'"]
    bad = e2e(fixed)
    res.coverage['traces_validated_against_impl'] = res.coverage.get('traces_validated_against_impl', 0) + len(fixed)
    for s0, ctx, got in bad[:3]:
        if not len(res.violations):
            res.inconc('translator validation: %r as %s reaches the runtime as %s although the model proves the writer right' % (s0, ctx, got))
    lits = ['"a\\n\\x41\\u00e9\\q"', "'\\0\\b\\f\\v'", '"\\x4"', '"\\ud800"', '"\\u12"']
    for s0, why in replay_lit(lits):
        if not len(res.violations):
            res.inconc('translator validation: {{ %s }}: %s although the model proves the parser right' % (s0, why))
    res.bounds = {'gen_lit_str': 'every string of <= %d Unicode scalar values (all code points x all neighbours)' % (3 if tier == 'thorough' else 2),
                  'parse_lit_str': 'every literal of <= %d characters incl. quotes, all code points' % 8}
    res.assumptions = ['String / Chars / push_str contracts (character sequences)', 'ParseState cursor contracts (ps_env; established for the compiled code by K16a)',
                       'reference: ECMAScript 2023 12.9.4 double-quoted StringLiteral, restricted to the forms every engine and strict mode accept',
                       'reference: the escape table of template string literals (documented in the parser source)']
    res.outside = ['entity decoding (entities.rs, 2231-entry table)', 'strings longer than the bound (the writer is a per-character map: no state across characters except \\0+digit, covered by L=2)',
                   'names emitted through other writers than gen_lit_str', 'composition over whole templates']
    res.coverage.update({'explanation': 'gen_lit_str and parse_lit_str executed from MIR over symbolic characters; reference decoders fork with the solver; every case decided by z3',
                         'obligations': na + nb, 'discharged': res.queries.get('unsat', 0), 'evaluations': na + nb, 'distinct_nontrivial': na + nb})
    return res.finish()


def replay(path):
    d = json.load(open(path))['replay']
    if 'string' in d:
        bad = e2e([d['string']])
    else:
        bad = replay_lit([d['literal']])
    print(bad)
    return 1 if bad else 0
