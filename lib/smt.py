"""Small helpers around the solvers: verdicts with timing, and cross-checking a query on the other installed
solvers (/usr/bin/z3 4.8.12 and cvc5 1.0) through SMT-LIB2 text.  An `(error` line or a disagreement is inconclusive."""
import subprocess
import time
import z3


class SolverDisagreement(Exception):
    pass


def decide(assertions, timeout_ms=60000):
    """-> ('sat', model) | ('unsat', None) | ('unknown', reason), seconds"""
    s = z3.Solver()
    s.set('timeout', timeout_ms)
    for a in assertions:
        s.add(a)
    t = time.time()
    r = s.check()
    dt = time.time() - t
    if r == z3.sat:
        return 'sat', s.model(), dt
    if r == z3.unsat:
        return 'unsat', None, dt
    return 'unknown', s.reason_unknown(), dt


def contains_op(e, kinds, seen=None):
    seen = set() if seen is None else seen
    if e.get_id() in seen:
        return False
    seen.add(e.get_id())
    if z3.is_app(e) and e.decl().kind() in kinds:
        return True
    return any(contains_op(c, kinds, seen) for c in e.children())


def decide_relaxed(assertions, hard_kinds=(z3.Z3_OP_TO_INT, z3.Z3_OP_IS_INT), timeout_ms=60000):
    """First ask the query without the assertions that mention hard operators (to_int ...).  Dropping assumptions only
    weakens the premise, so `unsat` of the relaxed query is `unsat` of the full one; otherwise ask the full query."""
    easy = [a for a in assertions if not contains_op(a, hard_kinds)]
    if len(easy) < len(assertions):
        v, m, dt = decide(easy, timeout_ms)
        if v == 'unsat':
            return v, m, dt
        v2, m2, dt2 = decide(assertions, timeout_ms)
        return v2, m2, dt + dt2
    return decide(assertions, timeout_ms)


def to_smt2(assertions, logic='ALL'):
    s = z3.Solver()
    for a in assertions:
        s.add(a)
    body = s.to_smt2()
    # z3 prints "(set-info :status ...)" and the benchmark without set-logic; prepend one that every solver accepts
    lines = [l for l in body.split('\n') if not l.startswith('(set-info')]
    return '(set-logic %s)\n' % logic + '\n'.join(lines)


def run_external(smt2, which, timeout=60):
    if which == 'z3-old':
        cmd = ['/usr/bin/z3', '-in', '-T:%d' % timeout]
    elif which == 'cvc5':
        cmd = ['cvc5', '--lang', 'smt2', '--strings-exp', '--tlimit=%d' % (timeout * 1000)]
    else:
        raise ValueError(which)
    try:
        r = subprocess.run(cmd, input=smt2, stdout=subprocess.PIPE, stderr=subprocess.PIPE, text=True, timeout=timeout + 10)
    except subprocess.TimeoutExpired:
        return 'timeout'
    out = (r.stdout + r.stderr)
    if '(error' in out:
        return 'error: ' + out.strip()[:200]
    for line in r.stdout.split('\n'):
        line = line.strip()
        if line in ('sat', 'unsat', 'unknown'):
            return line
    return 'error: no verdict ' + out.strip()[:200]


def cross_check(assertions, expect, solvers=('z3-old', 'cvc5'), timeout=60):
    """Re-ask the query on the other solvers; returns {solver: verdict}.  Raises SolverDisagreement when a solver
    gives the opposite definite verdict."""
    smt2 = to_smt2(assertions)
    res = {}
    for w in solvers:
        v = run_external(smt2, w, timeout)
        res[w] = v
        if v in ('sat', 'unsat') and v != expect:
            raise SolverDisagreement('%s says %s, z3 (python) says %s' % (w, v, expect))
    return res
