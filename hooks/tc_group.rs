// hooks for tc_group (included into the repo crate under cfg(any(kani, glass_easel_verif)))
