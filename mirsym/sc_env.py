"""Open-environment model for the stylesheet compiler: cssparser::Parser as a symbolic token forest, every effect on
the output as an event.  Used by C08 C09 C10 C17 C18 C19 (DESIGN §3.2)."""
import os
import re
import glob
import z3

from .core import Agg, SymEnum, Ref, SeqV, Opaque, UNIT, FnItem, Executor, Path
from .mir import MirUnsupported
from .contracts import contract, TABLE as STD_TABLE, some, NONE, ok, err, is_variant, payload, fork_variant, str_eq


def cssparser_token_variants():
    """Token variants in declaration order, read from the cssparser source the crate is built against."""
    cands = glob.glob(os.path.expanduser('~/.cargo/registry/src/*/cssparser-0.34*/src/tokenizer.rs'))
    if not cands:
        raise MirUnsupported('cssparser source not found')
    src = open(cands[0]).read()
    m = re.search(r'pub enum Token<\'a> \{(.*?)\n\}', src, re.S)
    body = m.group(1)
    # remove comments
    body = re.sub(r'//[^\n]*', '', body)
    variants, depth, cur = [], 0, ''
    for ch in body:
        if ch in '({':
            depth += 1
        elif ch in ')}':
            depth -= 1
        if ch == ',' and depth == 0:
            variants.append(cur.strip())
            cur = ''
        else:
            cur += ch
    if cur.strip():
        variants.append(cur.strip())
    table, fields = {}, {}
    for i, v in enumerate(variants):
        name = re.match(r'\w+', v).group(0)
        table[name] = i
        fm = re.search(r'\{(.*)\}', v, re.S)
        if fm:
            fields[name] = [re.match(r'\s*(\w+):', f).group(1) for f in fm.group(1).split(',') if f.strip()]
        elif '(' in v:
            fields[name] = ['0']
        else:
            fields[name] = []
    return table, fields


TOKEN_DISCR, TOKEN_FIELDS = cssparser_token_variants()

SC_ENUMS = {
    r'(^|::)Token$': TOKEN_DISCR,
    r'ParseErrorKind$': {'UnexpectedCharacter': 0x10001, 'IllegalImportPosition': 0x10002, 'HostSelectorCombination': 0x10003},
}


def token_name(v):
    if isinstance(v, Agg):
        return v.variant
    return None


# ------------------------------------------------------------------------------------------------ output events
SC_TABLE = []


def sc_contract(rx):
    def deco(f):
        SC_TABLE.append((rx, f))
        return f
    return deco


@sc_contract(r'^StyleSheetTransformer::append_token$')
def ev_append_token(exe, path, callee, args, dst_ty):
    path.event('append_token', args[1], args[3])
    return [('ret', path, UNIT)]


@sc_contract(r'^StyleSheetTransformer::append_token_space_preserved$')
def ev_append_token_sp(exe, path, callee, args, dst_ty):
    path.event('append_token_space_preserved', args[1], args[3])
    return [('ret', path, UNIT)]


@sc_contract(r'<CowRcStr<\'_> as Deref>::deref$|<cssparser::CowRcStr<\'_> as Deref>::deref$')
def cow_deref(exe, path, callee, args, dst_ty):
    return [('ret', path, args[0])]


def full_table():
    return SC_TABLE + STD_TABLE
