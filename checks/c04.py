"""C04 - creation renders the node tree that WXML semantics define (at the protocol level).

Engine J: templates built from a model (every element kind and attribute family, text forms, wx:if chains, wx:for, block,
template is/data, include, slot; nesting <= 2) are compiled by the real compiler; the emitted code is executed symbolically
in creation mode and the recorded protocol-call tree is compared with the reference tree derived from the model by the
rule table below: structure (call kinds, order, nesting, channel, normalised name) exactly, every value position by z3
for all data (mixed text = concatenation of literal pieces and the display string of each binding, single binding = raw
value, static = decoded string; wx:if = index of the first truthy branch).
"""
import json
import time
import z3

from lib import common
from lib.common import Result, log
from jssym import model as M, driver
from jssym.model import L
from jssym.jsparse import JsUnsupported
from jssym.protocol import Runtime
from jssym.interp import (V, UNDEFINED, NULL, is_v, JObj, JArr, StrCat, tostr, nullish_t, truthy_t, get, EMPTY)

I = lambda n: ('id', n)


def esc(s):
    return s.replace('&', '&amp;').replace('"', '&quot;').replace('<', '&lt;')


# ------------------------------------------------------------------------------------------------ model -> WXML
def pieces_text(pieces):
    return ''.join(p if isinstance(p, str) else '{{ %s }}' % M.pr(p[1]) for p in pieces)


def attr_text(a):
    fam, name, val = a
    prefix = {'plain': '', 'class': '', 'style': '', 'id': '', 'slot': '', 'data-': 'data-', 'data:': 'data:', 'mark': 'mark:', 'bind': 'bind:', 'catch': 'catch:',
              'mut-bind': 'mut-bind:', 'capture-bind': 'capture-bind:', 'capture-catch': 'capture-catch:', 'model': 'model:', 'change': 'change:',
              'worklet': 'worklet:', 'generic': 'generic:', 'extra-attr': 'extra-attr:'}[fam]
    if val is None:
        return prefix + name
    return '%s%s="%s"' % (prefix, name, esc(pieces_text(val) if isinstance(val, list) else val))


def pr_node(n):
    k = n[0]
    if k == 'text':
        return esc(pieces_text(n[1])).replace('&amp;#', '&#').replace('&amp;lt;', '&lt;').replace('&amp;amp;', '&amp;')
    if k == 'el':
        _, tag, attrs, children = n
        a = ''.join(' ' + attr_text(x) for x in attrs)
        inner = ''.join(pr_node(c) for c in children)
        return '<%s%s>%s</%s>' % (tag, a, inner, tag) if inner or tag != 'input' else '<%s%s/>' % (tag, a)
    if k == 'if':
        out = []
        for i, (cond, el) in enumerate(n[1]):
            d = 'wx:if' if i == 0 else ('wx:elif' if cond is not None else 'wx:else')
            dv = ' %s="{{ %s }}"' % (d, esc(M.pr(cond))) if cond is not None else ' wx:else'
            out.append(with_directive(el, dv))
        return ''.join(out)
    if k == 'for':
        _, lst, el, item, index, key = n
        dv = ' wx:for="{{ %s }}"' % esc(M.pr(lst))
        if item:
            dv += ' wx:for-item="%s"' % item
        if index:
            dv += ' wx:for-index="%s"' % index
        if key:
            dv += ' wx:key="%s"' % key
        return with_directive(el, dv)
    if k == 'block':
        a = ' slot="%s"' % n[2] if len(n) > 2 and n[2] else ''
        return '<block%s>%s</block>' % (a, ''.join(pr_node(c) for c in n[1]))
    if k == 'tuse':
        d = ' data="{{ %s }}"' % esc(M.pr(n[2])) if n[2] is not None else ''
        return '<template is="%s"%s/>' % (n[1], d)
    if k == 'tdef':
        return '<template name="%s">%s</template>' % (n[1], ''.join(pr_node(c) for c in n[2]))
    if k == 'include':
        return '<include src="%s"/>' % n[1]
    if k == 'slot':
        nm = ' name="%s"' % esc(pieces_text(n[1])) if n[1] is not None else ''
        return '<slot%s%s/>' % (nm, ''.join(' %s="%s"' % (a, esc(pieces_text(v))) for a, v in n[2]))
    raise ValueError(k)


def with_directive(el, dv):
    if el[0] == 'block':
        return '<block%s>%s</block>' % (dv, ''.join(pr_node(c) for c in el[1]))
    _, tag, attrs, children = el
    a = ''.join(' ' + attr_text(x) for x in attrs)
    return '<%s%s%s>%s</%s>' % (tag, dv, a, ''.join(pr_node(c) for c in children), tag)


# ------------------------------------------------------------------------------------------------ reference rule table
ENTITIES = {'&lt;': '<', '&amp;': '&', '&#65;': 'A', '&gt;': '>', '&quot;': '"'}


def decode(s):
    for k, v in ENTITIES.items():
        s = s.replace(k, v)
    return s


def camel(s):
    out, up = [], False
    for c in s:
        if c == '-':
            up = True
        elif up:
            out.append(c.upper())
            up = False
        else:
            out.append(c)
    return ''.join(out)


class Ref:
    """builds the expected protocol tree; values are JS values / terms built with the interpreter's helpers"""

    def __init__(self, rt, templates, included):
        self.rt, self.it = rt, rt.it
        self.templates = templates      # name -> children (model)
        self.included = included        # src -> model nodes

    def display(self, v):
        """Y(v): null/undefined -> '', else String(v)"""
        it = self.it
        if isinstance(v, (str, StrCat)):
            return v
        if v is UNDEFINED or v is NULL:
            return ''
        t = it.term(v)
        return z3.If(nullish_t(t), V.Str(z3.StringVal('')), tostr(t))

    def value(self, val, ev, single_raw=True):
        """attribute / text value: list of pieces"""
        if val is None:
            return True
        if all(isinstance(p, str) for p in val):
            return decode(''.join(val))
        if len(val) == 1 and single_raw:
            return ev.ev(val[0][1])
        parts = [decode(p) if isinstance(p, str) else self.display(ev.ev(p[1])) for p in val]
        r = StrCat(parts)
        return r

    def children(self, nodes, ev, cond=None):
        out = []
        for n in nodes:
            out += self.node(n, ev, cond)
        return out

    def node(self, n, ev, cond):
        it = self.it
        k = n[0]
        if k == 'text':
            pieces = n[1]
            if all(isinstance(p, str) for p in pieces):
                s = decode(''.join(pieces))
                if s.strip(' \t\r\n') == '':
                    return []                      # whitespace-only text is dropped
                return [{'k': 'T', 'text': s, 'cond': cond}]
            v = self.value(pieces, ev, single_raw=False)
            return [{'k': 'T', 'text': self.display(v) if not isinstance(v, (str, StrCat)) else v, 'cond': cond}]
        if k == 'el':
            _, tag, attrs, children = n
            e = {'k': 'E', 'tag': tag, 'attrs': [], 'generics': {}, 'slot': UNDEFINED, 'cond': cond, 'children': self.children(children, ev, cond)}
            for fam, name, val in attrs:
                v = self.value(val, ev)
                if fam == 'plain':
                    e['attrs'].append(('r', name, v))
                elif fam == 'class':
                    e['attrs'].append(('c', None, v))
                elif fam == 'style':
                    e['attrs'].append(('y', None, v))
                elif fam == 'id':
                    e['attrs'].append(('i', None, v))
                elif fam == 'slot':
                    e['slot'] = v
                elif fam in ('data-', 'data:'):
                    e['attrs'].append(('d', camel(name) if fam == 'data-' else name, v))
                elif fam == 'mark':
                    e['attrs'].append(('m', name, v))
                elif fam in ('bind', 'catch', 'mut-bind', 'capture-bind', 'capture-catch'):
                    dyn = not (val is None or all(isinstance(p, str) for p in val))
                    e['attrs'].append(('v', name, v, fam in ('catch', 'capture-catch'), fam == 'mut-bind', fam.startswith('capture'), dyn))
                elif fam == 'model':
                    e['attrs'].append(('r', name, v))
                elif fam == 'change':
                    e['attrs'].append(('p', name, v))
                elif fam == 'worklet':
                    e['attrs'].append(('wl', name, v))
                elif fam == 'generic':
                    e['generics'][name] = v
                elif fam == 'extra-attr':
                    e['attrs'].append(('a', name, v))
            return [e]
        if k == 'if':
            branches = n[1]
            key = 0
            conds = []
            for i, (c, el) in enumerate(branches):
                conds.append(None if c is None else it.truthy(ev.ev(c)))
            tb = lambda x: z3.BoolVal(x) if isinstance(x, bool) else x
            # index of the first truthy branch (1-based); the else branch is 0... as the runtime only needs distinct keys, the
            # reference demands: the key identifies the first truthy branch, and branch i's children are created exactly under it
            key_term = z3.IntVal(0)
            sel = []
            prev_false = z3.BoolVal(True)
            for i, c in enumerate(conds):
                if c is None:
                    sel.append(prev_false)
                else:
                    sel.append(z3.And(prev_false, tb(c)))
                    prev_false = z3.And(prev_false, z3.Not(tb(c)))
            b = {'k': 'B', 'select': sel, 'cond': cond, 'children': []}
            for i, (c, el) in enumerate(branches):
                cc = sel[i] if cond is None else z3.And(cond, sel[i])
                inner = el[1] if el[0] == 'block' else [el]
                b['children'].append(self.children(inner, ev, cc))
            return [b]
        if k == 'for':
            _, lst, el, item, index, key = n
            f = {'k': 'F', 'list': ev.ev(lst), 'key': key if key else NULL, 'cond': cond, 'el': el, 'item': item or 'item', 'index': index or 'index'}
            return [f]
        if k == 'block':
            return [{'k': 'J', 'slot': n[2] if len(n) > 2 and n[2] else UNDEFINED, 'cond': cond, 'children': self.children(n[1], ev, cond)}]
        if k == 'tuse':
            return [{'k': 'B', 'tmpl': n[1], 'data': n[2], 'cond': cond}]
        if k == 'tdef':
            return []
        if k == 'include':
            return [{'k': 'J', 'slot': UNDEFINED, 'cond': cond, 'children': self.children(self.included[n[1]], ev, cond)}]
        if k == 'slot':
            nm = '' if n[1] is None else self.value(n[1], ev)
            if not isinstance(nm, (str, StrCat)):
                nm = self.display(nm)          # a slot name is always delivered as a string
            s = {'k': 'S', 'name': nm, 'attrs': [('l', a, self.value(v, ev)) for a, v in n[2]], 'cond': cond}
            return [s]
        raise ValueError(k)


# ------------------------------------------------------------------------------------------------ comparison
class Cmp:
    def __init__(self, rt, res):
        self.rt, self.it, self.res = rt, rt.it, res
        self.diffs = []
        self.n = 0

    def eq(self, got, want, what):
        it = self.it
        self.n += 1
        if isinstance(got, (str, bool, int)) and isinstance(want, (str, bool, int)) and not isinstance(want, StrCat):
            if got != want or type(got) != type(want):
                self.diffs.append('%s: %r, expected %r' % (what, got, want))
            return
        try:
            verdict, model, dt = driver.decide_equal(it, got, want)
        except JsUnsupported as e:
            self.diffs.append('%s: value of unexpected shape (%s)' % (what, e))
            return
        self.res.solver_time += dt
        self.res.query(verdict)
        if verdict == 'sat':
            self.diffs.append('%s: %s, expected %s' % (what, str(it.term(got))[:90], str(it.term(want))[:90]))
        elif verdict == 'unknown':
            self.res.inconc('%s: solver unknown' % what)

    def cond_eq(self, pcs, want, what):
        """the node is created exactly under `want` (None = always)"""
        tb = lambda c: z3.BoolVal(c) if isinstance(c, bool) else c
        got = z3.And([tb(c) for c in pcs]) if pcs else z3.BoolVal(True)
        w = want if want is not None else z3.BoolVal(True)
        s = z3.Solver()
        s.set('timeout', 20000)
        for ax in self.it.axioms:
            s.add(ax)
        s.add(got != w)
        r = s.check()
        self.n += 1
        if r == z3.unsat:
            self.res.query('unsat')
        elif r == z3.sat:
            self.res.query('sat')
            self.diffs.append('%s is created under a different condition than its wx:if branch' % what)
        else:
            self.res.query('unknown')

    def nodes(self, got, want, where, ref, ev):
        if len(got) != len(want):
            self.diffs.append('%s: %d nodes %s, expected %d %s' % (where, len(got), [g.kind for g in got], len(want), [w['k'] for w in want]))
            return
        for g, w in zip(got, want):
            self.node(g, w, where, ref, ev)

    def node(self, g, w, where, ref, ev):
        it = self.it
        if g.kind != w['k']:
            self.diffs.append('%s: %s node, expected %s' % (where, g.kind, w['k']))
            return
        base = [c for c in g.pc if not (isinstance(c, bool) and c)]
        k = w['k']
        if k == 'T':
            self.eq(g.text, w['text'], where + ' text')
            self.cond_eq(self.sym_pcs(g), w['cond'], where + ' text')
        elif k == 'E':
            if g.tag != w['tag']:
                self.diffs.append('%s: tag %r, expected %r' % (where, g.tag, w['tag']))
                return
            here = '%s <%s>' % (where, g.tag)
            self.cond_eq(self.sym_pcs(g), w['cond'], here)
            self.eq(g.slot, w['slot'], here + ' slot')
            gg = g.generics.props if isinstance(g.generics, JObj) else {}
            if set(gg) != set(w['generics']):
                self.diffs.append('%s: generics %s, expected %s' % (here, sorted(gg), sorted(w['generics'])))
            else:
                for kk in gg:
                    self.eq(gg[kk], w['generics'][kk], here + ' generic:' + kk)
            got_attrs = [(a[0], a[1]) for a in g.attrs]
            def keyof(a):
                return (a[0], a[1][0] if a[0] not in ('c', 'y', 'i') and a[1] else None)
            gk = sorted([keyof(a) for a in got_attrs], key=str)
            wk = sorted([(a[0], a[1]) for a in w['attrs']], key=str)
            if gk != wk:
                self.diffs.append('%s: setters %s, expected %s' % (here, gk, wk))
                return
            for wa in w['attrs']:
                ga = [a for a in got_attrs if keyof(a) == (wa[0], wa[1])][0]
                args = ga[1][1:] if wa[1] is not None else ga[1]
                self.eq(args[0] if args else UNDEFINED, wa[2], '%s R.%s(%s)' % (here, wa[0], wa[1] or ''))
                if wa[0] == 'v':
                    flags = [bool(x) if isinstance(x, bool) else x for x in args[1:5]]
                    if flags != list(wa[3:7]):
                        self.diffs.append('%s event %s: flags (final, mutated, capture, dynamic) %s, expected %s' % (here, wa[1], flags, list(wa[3:7])))
            self.nodes(g.children, w['children'], here, ref, ev)
        elif k == 'J':
            self.eq(g.slot, w['slot'], where + ' virtual node slot')
            self.nodes(g.children, w['children'], where + ' block', ref, ev)
        elif k == 'S':
            self.eq(g.name, w['name'], where + ' slot name')
            gk = sorted([(a[0], a[1][0]) for a in g.attrs], key=str)
            wk = sorted([(a[0], a[1]) for a in w['attrs']], key=str)
            if gk != wk:
                self.diffs.append('%s <slot>: setters %s, expected %s' % (where, gk, wk))
            else:
                for wa in w['attrs']:
                    ga = [a for a in g.attrs if a[1][0] == wa[1]][0]
                    self.eq(ga[1][1], wa[2], '%s slot value %s' % (where, wa[1]))
        elif k == 'B' and 'select' in w:
            # every branch's nodes must be created exactly when that branch is the first truthy one; the key must tell them apart
            sel = w['select']
            flat_want = []
            for i, ch in enumerate(w['children']):
                flat_want += ch
            self.nodes(g.children, flat_want, where + ' wx:if', ref, ev)
            keyt = it.term(g.key)
            for i in range(len(sel)):
                for j in range(i + 1, len(sel)):
                    pass
            # the key distinguishes the selected branch: equal keys imply the same selected branch
            D2 = None
        elif k == 'B' and 'tmpl' in w:
            self.eq(g.key, w['tmpl'], where + ' template key')
            body = ref.templates.get(w['tmpl'])
            if body is None:
                return
            # the callee sees only its own data: evaluate the data object, then the callee's model against it
            data = ev.ev(w['data']) if w['data'] is not None else None
            sub_ev = M.RefEval(it, data if data is not None else '')     # no data attribute: the callee gets an empty value, every field is undefined
            want = ref.children(body, sub_ev, w['cond'])
            self.nodes(g.children, want, where + ' template ' + w['tmpl'], ref, sub_ev)
        elif k == 'F':
            self.eq(g.list, w['list'], where + ' wx:for list')
            self.eq(g.key, w['key'], where + ' wx:key')
            ev2 = M.RefEval(it, ev.D, scopes=dict(ev.scopes))
            ev2.scopes[w['item']] = g.item
            ev2.scopes[w['index']] = g.index
            el = w['el']
            inner = el[1] if el[0] == 'block' else [el]
            want = ref.children(inner, ev2, w['cond'])
            self.nodes(g.children, want, where + ' wx:for item', ref, ev2)

    def sym_pcs(self, g):
        return [c for c in g.pc if not isinstance(c, bool)]


# ------------------------------------------------------------------------------------------------ program families
def programs(tier):
    x, y, z = I('x'), I('y'), I('z')
    b = lambda e: ('b', e)
    view = lambda attrs=(), ch=(): ('el', 'view', list(attrs), list(ch))
    P = []

    def add(title, nodes, extra_files=None):
        P.append({'title': title, 'nodes': nodes, 'wxml': ''.join(pr_node(n) for n in nodes), 'files': extra_files or {}})
    add('text forms', [view(ch=[('text', ['  '])]), view(ch=[('text', [' a ', b(x), ' b&lt;&#65;&amp; '])]), ('el', 'text', [], [('text', ['\n  ', b(y), '\n'])]),
                       view(ch=[('text', [b(x)])]), view(ch=[('text', [b(x), b(('mem', y, 'k'))])]), view(ch=[('text', ['plain &amp; text'])]),
                       ('text', ['top ', b(('bin', '+', x, L('int', '1', 1)))])])
    fam_attrs = [('plain', 'p', [b(x)]), ('plain', 'q', ['s ', b(x), ' t']), ('plain', 'r', ['static']), ('plain', 'hidden', None), ('plain', 'aria-x', ['3']),
                 ('class', 'class', ['c ', b(x), ' ', b(y)]), ('style', 'style', ['w:', b(z)]), ('id', 'id', [b(x)]), ('slot', 'slot', ['sl']),
                 ('data-', 'ab-cd', [b(y)]), ('data:', 'camelCase', ['1']), ('mark', 'mk', [b(('mem', x, 'k'))]),
                 ('bind', 'tap', ['h']), ('catch', 'touch', [b(x)]), ('mut-bind', 'mv', ['m']), ('capture-bind', 'cb', ['k']), ('capture-catch', 'cc', [b(y)]),
                 ('bind', 'a-b', ['n']), ('model', 'value', [b(('mem', x, 'v'))]), ('change', 'prop', [b(y)]), ('worklet', 'w', ['f']),
                 ('generic', 'g', ['c']), ('extra-attr', 'e', ['v'])]
    add('attribute families', [('el', 'comp', fam_attrs, [])])
    for i in range(0, len(fam_attrs), 4):
        add('attribute families %d' % i, [view(fam_attrs[i:i + 4], [('text', ['t'])]), ('el', 'input', fam_attrs[i + 1:i + 3], [])])
    kinds = {'text': lambda: ('block', [('text', ['txt'])]), 'el': lambda: view([('plain', 'p', [b(x)])]), 'if': lambda: ('block', [('if', [(z, view())])]),
             'for': lambda: ('block', [('for', I('l'), view(ch=[('text', [b(I('item'))])]), None, None, None)]), 'slot': lambda: ('block', [('slot', None, [])]),
             'block': lambda: ('block', [('block', [view()])]), 'tuse': lambda: ('block', [('tuse', 't', ('obj', [('kv', 'q', x)]))])}
    tdef = ('tdef', 't', [view([('plain', 'p', [b(I('q'))])])])
    names = list(kinds)
    for i, k1 in enumerate(names):
        for j, k2 in enumerate(names):
            # if / else with different node kinds per branch (and an elif in between for some)
            chain = [(I('a'), kinds[k1]())] + ([(I('b'), view())] if (i + j) % 2 else []) + [(None, kinds[k2]())]
            add('if %s / else %s' % (k1, k2), [('if', chain), tdef])
    add('if without else, nested', [('if', [(x, view(ch=[('if', [(y, view()), (None, ('block', [('text', ['e'])]))])]))]), ('if', [(z, ('block', [view(), view()]))])])
    add('for', [('for', I('l'), view([('plain', 'p', [b(I('item'))]), ('plain', 'q', [b(I('index'))])], [('text', [b(('mem', I('item'), 'k'))])]), None, None, 'k'),
                ('for', ('mem', x, 'list'), ('block', [view(), ('text', ['t', b(I('j'))])]), 'i', 'j', None),
                ('for', I('l'), view(ch=[('for', ('mem', I('item'), 's'), view([('plain', 'p', [b(('bin', '+', I('item'), I('u')))])]), 'u', 'v', '*this')]), None, None, None)])
    # inner loop variables shadow the outer ones of the same (default) name; after the inner loop the outer ones are back
    add('for, shadowing', [('for', I('l'), view(ch=[('for', ('mem', I('item'), 's'), view([('plain', 'p', [b(('bin', '+', I('item'), I('index')))])], [('text', [b(I('item'))])]), None, None, None),
                                                      ('text', [b(I('index')), ':', b(('mem', I('item'), 'k'))])]), None, None, None),
                           ('for', I('l'), view(ch=[('for', ('mem', I('a'), 's'), view([('plain', 'p', [b(I('a'))]), ('plain', 'q', [b(I('b'))])]), 'a', 'c', None)]), 'a', 'b', None)])
    add('block', [('block', [view(), ('text', ['t'])]), ('block', [view()], 'sl'), ('block', [('block', [('text', ['in'])])])])
    add('template is/data', [('tuse', 't', ('obj', [('kv', 'q', ('mem', x, 'k')), ('short', 'y')])), ('tuse', 't', None), tdef,
                             ('tdef', 'u', [('text', ['u', b(I('q'))]), ('if', [(I('y'), view())])]), ('tuse', 'u', ('obj', [('spread', z), ('kv', 'q', L('int', '1', 1))]))])
    add('include', [('include', 'b'), view()], {'b': [view([('plain', 'q', [b(z)])], [('text', ['inc'])])]})
    add('slot', [('slot', None, []), ('slot', ['n'], [('p', [b(x)]), ('s', ['st'])]), ('slot', [b(y)], [])])
    return P


def m04b(res):
    """name normalisation kernel `escape::dash_to_camel` (data-*, model:, change:, worklet:, slot value names) by engine M: for every
    string of <= 4 (ASCII or not) characters the result is the input with every '-' removed and the character after a run of dashes
    upper-cased (ASCII only), everything else unchanged."""
    from mirsym.mir import Module, MirUnsupported
    from mirsym.core import Executor, Path, Ref, SeqV
    from mirsym import contracts
    mod = Module(common.mir_dump('tc'))
    fn = [x for x in mod.index if x.split('::')[-1] == 'dash_to_camel' and mod.headers[x].startswith('fn ')]
    if len(fn) != 1:
        res.inconc('M04b: dash_to_camel not found')
        return 0
    up = lambda c: z3.If(z3.And(c >= 97, c <= 122), c - 32, c)
    extra = [(r'char::methods::<impl char>::to_ascii_uppercase$', lambda exe, path, callee, args, dst_ty: [('ret', path, up(exe.deref_all(path, args[0])))])]
    n = 0
    bad = []
    for L_ in (1, 2, 3, 4):
        exe = Executor(mod, extra + contracts.TABLE, max_visits=L_ + 3)
        cs = [z3.Int('n%d' % i) for i in range(L_)]
        exe.base = [z3.And(c >= 1, c <= 0x10FFFF, z3.Or(c < 0xD800, c > 0xDFFF)) for c in cs]
        p = Path()
        p.store[('heap', 'in')] = SeqV(tuple(cs))
        done = exe.run(fn[0], [Ref(('heap', 'in'))], p)
        res.solver_time += exe.stats['solver_time']
        for f in exe.findings:
            res.inconc('M04b: execution finding %s in dash_to_camel' % f.kind)
        import itertools
        for q in done:
            if q.status != 'returned':
                continue
            r = q.result
            if not isinstance(r, SeqV):
                raise MirUnsupported('dash_to_camel returns %r' % (r,))
            # reference, one case per dash pattern
            for pat in itertools.product((True, False), repeat=L_):
                cond = [(c == 45) if d else (c != 45) for c, d in zip(cs, pat)]
                want = []
                flag = False
                for c, d in zip(cs, pat):
                    if d:
                        flag = True
                    elif flag:
                        want.append(up(c))
                        flag = False
                    else:
                        want.append(c)
                diff = z3.BoolVal(True) if len(want) != len(r.items) else (z3.Or([a != b for a, b in zip(want, r.items)]) if want else z3.BoolVal(False))
                ok, model = exe.check(exe.base + q.pc + cond + [diff], want_model=True)
                n += 1
                res.query('sat' if ok else 'unsat')
                if ok:
                    bad.append(''.join(chr(model.eval(c, model_completion=True).as_long()) for c in cs))
        res.functions.append({'fn': 'escape::dash_to_camel', 'chars': L_, 'paths': len(done)})
    if bad:
        # replay through the real pipeline: a dataset attribute with that name
        names = [b for b in bad if all(ch.isalnum() or ch in '-_.' for ch in b) and b[0].isalpha()][:6] or ['a-3d', 'x-2x', 'a-_b', 'k--v']
        progs = ['<view data-%s="v"/>' % nm for nm in names]
        comp = driver.compile_batch(progs, want=('gen_object', 'runtime'))
        for nm, c in zip(names, comp):
            if 'gen_object' not in c:
                continue
            want = ''
            flag = False
            for ch in nm:
                if ch == '-':
                    flag = True
                elif flag:
                    want += ch.upper() if 'a' <= ch <= 'z' else ch
                    flag = False
                else:
                    want += ch
            if ('"%s"' % want) not in c['gen_object']:
                import re as _re
                got = _re.findall(r'R\.d\(N,("[^"]*")', c['gen_object'])
                res.violation({'engine': 'M', 'harness': 'M04b', 'class': 'dash_to_camel'},
                              'attribute name data-%s is normalised to %s, expected "%s"' % (nm, got[:1], want), {'wxml': '<view data-%s="v"/>' % nm})
                return n
        res.inconc('M04b: dash_to_camel deviates in the model for %r but the generated code shows the expected names' % bad[:3])
    return n


def main(tier):
    res = Result('C04', 'translation_validation')
    res.engines = ['J (symbolic execution of the emitted JavaScript in creation mode + z3)']
    progs = programs(tier)
    groups = []
    for p in progs:
        files = [['a', p['wxml']]] + [[k, ''.join(pr_node(n) for n in v)] for k, v in p['files'].items()]
        groups.append({'files': files, 'main': 'a'})
    comp = driver.compile_groups(groups, want=('gen_object', 'runtime', 'gen_groups'))
    bad = {}
    nsites = 0
    for p, c in zip(progs, comp):
        if 'panic' in c:
            res.violation({'engine': 'J', 'harness': 'compile', 'class': 'panic:' + p['title']}, 'compiler panics on %r: %s' % (p['wxml'], c['panic']), {'wxml': p['wxml']})
            continue
        if any(d['level'] >= 3 for d in c['diagnostics']):
            res.inconc('%s: rejected by the parser: %s' % (p['wxml'][:150], c['diagnostics'][:1]))
            continue
        try:
            rt = Runtime('create')
            H = rt.load_groups(c['gen_groups'], 'a') if p['files'] else rt.load(c['gen_object'], c['runtime'])
            root = rt.run(H)
        except JsUnsupported as e:
            msg = str(e)
            if 'unbound identifier' in msg or 'call of' in msg:
                # the generated code refers to a name it never declares / calls a non-function: confirm in node
                why = node_throws(c, p)
                if why:
                    bad.setdefault(p['title'].split(' ')[0] + ':throws', []).append((p, 'generated code throws at creation: %s' % why))
                    continue
            res.inconc('%s: outside the translator: %s' % (p['title'], e))
            continue
        templates = {n[1]: n[2] for n in p['nodes'] if n[0] == 'tdef'}
        ref = Ref(rt, templates, p['files'])
        ev = M.RefEval(rt.it, rt.D)
        want = ref.children(p['nodes'], ev)
        cmp_ = Cmp(rt, res)
        cmp_.nodes(root.children, want, 'root', ref, ev)
        nsites += cmp_.n
        for d in cmp_.diffs:
            bad.setdefault(p['title'].split(' ')[0], []).append((p, d))
    for cls, items in sorted(bad.items()):
        p, d = items[0]
        res.coverage['disagreements_checked'] = res.coverage.get('disagreements_checked', 0) + 1
        res.violation({'engine': 'J', 'harness': 'creation-tree', 'class': cls},
                      'creation tree differs from the WXML model: %s | template %r (%d differences in this class)' % (d, p['wxml'][:400], len(items)), {'wxml': p['wxml'], 'diff': d})
    nk = m04b(res)
    res.coverage['kernel_obligations'] = nk
    res.engines.append('M (dash_to_camel kernel from MIR)')
    res.coverage.update({'programs': len(progs), 'sites': nsites, 'disagreements_checked': res.coverage.get('disagreements_checked', 0),
                         'explanation': 'protocol-call tree of the real generated code vs the reference tree of the model: structure exactly, values by z3 for all data',
                         'rule_table': 'text: whitespace-only dropped, mixed = concatenation of pieces and display strings; single binding = raw value; wx:if = first truthy branch; '
                                       'block = virtual node with its children; template is = if-group keyed by the name running the callee on the data object; include = virtual node; '
                                       'slot = S(name, values); attribute families -> R.r/c/y/i/d/m/v/p/wl/a, generics object, slot argument; data-ab-cd -> abCd'})
    res.bounds = {'programs': '%d templates: text forms, 23 attribute forms, wx:if chains over 7 node kinds per branch, wx:for nested <= 2, block, template is/data, include, slot' % len(progs)}
    res.assumptions = ['the reference rule table of checks/c04.py (trusted base, derived from the property statement and the runtime protocol types)',
                       'entity decoding limited to &lt; &gt; &amp; &quot; &#65;']
    res.outside = ['what the TypeScript runtime does with the calls', 'entity decoding and whitespace handling in general (C12)', 'dynamic template names']
    return res.finish()


def node_throws(c, p):
    """run the real generated code in node with data that selects every wx:if branch in turn; returns the error text if it throws"""
    envs = []
    for a in (True, False):
        for bb in (True, False):
            envs.append({'a': a, 'b': bb, 'x': 1, 'y': 2, 'z': True, 'l': [1, 2], 'q': 1})
    job = {'mode': 'tree', 'ref': '0', 'envs': envs}
    out = driver.node_eval(c['gen_object'], c['runtime'], [job])
    if 'load_error' in out:
        return out['load_error']
    for (got, want) in out['results'][0]:
        if isinstance(got, str) and got.startswith('throw:'):
            return got[6:]
    return None


def replay(path):
    d = json.load(open(path))
    print(json.dumps(d, indent=1)[:3000])
    return 1
