"""C13 (path algebra half) - references are resolved against the directory of the referring file with `.` / `..` normalised.

Engine M on `path::resolve(base, rel)` and `path::normalize(path)` (MIR of the current tree).  A path is a sequence of <= 4 (thorough 5)
*symbolic segments*; every segment is an arbitrary string without `/` (so it may be ".", "..", "" or a name - the solver ranges over all of
them, which covers the property's alphabet {a, b, ., .., empty} and every other name at once).  `str::split('/')`, `starts_with('/')`, `&rel[1..]`
and `[&str]::join("/")` act on the segment sequence by their documented meaning; `Vec<&str>` is the executor's own vector.
Decided for every pair of segment sequences: the returned path equals the reference resolver
    stack := [] if rel starts with '/' else fold(base); drop the last entry (the file name) ; stack := fold(stack, rel) ; join
    fold: "." keeps, ".." pops (an empty stack stays empty), anything else pushes (empty segments included)
as a sequence of segments, on every path and for every classification of the segments.
Replay: concrete (base, rel) pairs through the public group API - a template that imports `rel` from `base` must link to the file
registered under the reference resolver's result (`direct_dependencies`).
Outside (not decided, nothing for a solver to range over): import precedence, `<template is>` lookup order, dependency queries,
the `.wxml` / `.wxs` suffix handling, insertion-order independence of linking (hash order is C20).
"""
import itertools
import json
import time
import z3

from lib import common
from lib.common import Result, log
from mirsym.mir import Module, MirUnsupported
from mirsym.core import Executor, Path, Agg, Ref, SeqV, UNIT
from mirsym import contracts
from mirsym.contracts import some, NONE


def path_contracts():
    T = []

    def reg(rx):
        def deco(f):
            T.append((rx, f))
            return f
        return deco

    def segs(exe, path, v):
        v = contracts.strval(exe, path, v)
        if isinstance(v, Agg) and v.name == 'PathStr':
            return v.fields[0]
        raise MirUnsupported('not a path value: %r' % (v,))

    @reg(r'^core::str::<impl str>::split::<char>$')
    def split(exe, path, callee, args, dst_ty):
        if z3.simplify(args[1]).as_long() != ord('/'):
            raise MirUnsupported('split on another separator')
        return [('ret', path, Agg('SplitIter', None, {0: segs(exe, path, args[0]), 1: 0}))]

    @reg(r"^<std::str::Split<'_, char> as IntoIterator>::into_iter$")
    def into_iter(exe, path, callee, args, dst_ty):
        return [('ret', path, args[0])]

    @reg(r"^<std::str::Split<'_, char> as Iterator>::next$")
    def nxt(exe, path, callee, args, dst_ty):
        ref = args[0]
        it = exe.load(path, ref)
        items, i = it.fields[0], it.fields[1]
        if i >= len(items):
            return [('ret', path, NONE)]
        exe.store_at(path, ref.key, ref.proj, it.with_field(1, i + 1))
        return [('ret', path, some(items[i]))]

    @reg(r'^core::str::<impl str>::starts_with::<char>$')
    def starts_with(exe, path, callee, args, dst_ty):
        s = segs(exe, path, args[0])
        # "/x" = ["", "x"]: the string starts with '/' iff it has at least two segments and the first is empty
        return [('ret', path, z3.And(z3.BoolVal(len(s) >= 2), s[0] == z3.StringVal('')) if len(s) >= 2 else z3.BoolVal(False))]

    @reg(r'^<str as (std::ops::)?Index<(std::ops::)?RangeFrom<usize>>>::index$')
    def index_from(exe, path, callee, args, dst_ty):
        s = segs(exe, path, args[0])
        start = z3.simplify(args[1].fields[0])
        if z3.is_int_value(start) and start.as_long() == 0:
            return [('ret', path, Agg('PathStr', None, {0: tuple(s)}))]
        if not (z3.is_int_value(start) and start.as_long() == 1):
            raise MirUnsupported('slice from %s' % start)
        # only meaningful after starts_with('/') held: drop the leading empty segment
        exe.obligation(path, 'panic:slice of a path that does not start with /', z3.Not(z3.And(z3.BoolVal(len(s) >= 2), s[0] == z3.StringVal(''))) if len(s) >= 2 else z3.BoolVal(True))
        return [('ret', path, Agg('PathStr', None, {0: tuple(s[1:])}))]

    @reg(r'^core::str::<impl str>::strip_prefix::<char>$')
    def strip_prefix(exe, path, callee, args, dst_ty):
        s_ = segs(exe, path, args[0])
        if z3.simplify(args[1]).as_long() != ord('/'):
            raise MirUnsupported('strip_prefix of another character')
        if len(s_) < 2:
            return [('ret', path, NONE)]
        outs = []
        yes = path.clone()
        if exe.feasible(yes, [s_[0] == z3.StringVal('')]):
            yes.pc.append(s_[0] == z3.StringVal(''))
            outs.append(('ret', yes, some(Agg('PathStr', None, {0: tuple(s_[1:])}))))
        if exe.feasible(path, [s_[0] != z3.StringVal('')]):
            path.pc.append(s_[0] != z3.StringVal(''))
            outs.append(('ret', path, NONE))
        return outs

    @reg(r'^core::str::<impl str>::contains::<&str>$')
    def contains(exe, path, callee, args, dst_ty):
        s_ = segs(exe, path, args[0])
        pat = contracts.strval(exe, path, args[1])
        if not (isinstance(pat, z3.ExprRef) and z3.is_string_value(pat)):
            raise MirUnsupported('contains of %r' % (pat,))
        t = pat.as_string()
        if t.startswith('/') and '/' not in t[1:]:
            # "/xyz" occurs iff a segment other than the first starts with "xyz"
            rest = z3.StringVal(t[1:])
            return [('ret', path, z3.Or([z3.PrefixOf(rest, x) for x in s_[1:]]) if len(s_) > 1 else z3.BoolVal(False))]
        if '/' not in t:
            return [('ret', path, z3.Or([z3.Contains(x, pat) for x in s_]))]
        raise MirUnsupported('contains(%r) on a path' % t)

    @reg(r'^<str as ToString>::to_string$|^<str as ToOwned>::to_owned$|^<String as From<&str>>::from$')
    def to_string(exe, path, callee, args, dst_ty):
        return [('ret', path, contracts.strval(exe, path, args[0]))]

    @reg(r'^std::slice::<impl \[&str\]>::join::<&str>$|^alloc::slice::<impl \[&str\]>::join::<&str>$')
    def join(exe, path, callee, args, dst_ty):
        v = exe.deref_all(path, args[0])
        sep = contracts.strval(exe, path, args[1])
        if not (isinstance(sep, z3.ExprRef) and z3.is_string_value(sep) and sep.as_string() == '/'):
            raise MirUnsupported('join with %r' % (sep,))
        if not (isinstance(v, Agg) and v.name == 'Vec'):
            raise MirUnsupported('join of %r' % (v,))
        return [('ret', path, Agg('PathStr', None, {0: tuple(v.fields[i] for i in sorted(v.fields))}))]
    return T


def ref_fold(stack, segments):
    """symbolic reference fold: returns list of (guards, stack) cases"""
    cases = [([], list(stack))]
    for s in segments:
        new = []
        for g, st in cases:
            new.append((g + [s == z3.StringVal('.')], list(st)))
            new.append((g + [s == z3.StringVal('..')], st[:-1]))
            new.append((g + [s != z3.StringVal('.'), s != z3.StringVal('..')], st + [s]))
        cases = new
    return cases


def reference(base, rel):
    """-> [(guards, result segments)]"""
    out = []
    absolute = z3.And(z3.BoolVal(len(rel) >= 2), rel[0] == z3.StringVal('')) if len(rel) >= 2 else z3.BoolVal(False)
    if len(rel) >= 2:
        for g, st in ref_fold([], rel[1:]):
            out.append(([absolute] + g, st))
    for g1, st1 in ref_fold([], base):
        for g2, st2 in ref_fold(st1[:-1], rel):
            out.append(([z3.Not(absolute)] + g1 + g2, st2))
    return out


def py_resolve(base, rel):
    def fold(st, segs):
        for s in segs:
            if s == '.':
                continue
            if s == '..':
                if st:
                    st.pop()
            else:
                st.append(s)
        return st
    if rel.startswith('/'):
        st = []
        rel = rel[1:]
    else:
        st = fold([], base.split('/'))
    if st:
        st.pop()
    return '/'.join(fold(st, rel.split('/')))


XCHECK = []


def run_fn(mod, res, name, nargs, lens, pending):
    fn = [x for x in mod.index if x == name and mod.headers[x].startswith('fn ')]
    if len(fn) != 1:
        raise MirUnsupported('path::%s not found' % name)
    nq = 0
    for ls in lens:
        exe = Executor(mod, path_contracts() + contracts.TABLE, max_visits=max(ls) + 4, timeout_ms=20000)
        exe.merge = False
        paths = [tuple(z3.String('%s%d' % ('br'[k], i)) for i in range(n)) for k, n in enumerate(ls)]
        exe.base = [z3.Not(z3.Contains(s, z3.StringVal('/'))) for p_ in paths for s in p_]
        p = Path()
        args = []
        for k, segs_ in enumerate(paths):
            p.store[('heap', 'arg%d' % k)] = Agg('PathStr', None, {0: segs_})
            args.append(Ref(('heap', 'arg%d' % k)))
        done = exe.run(fn[0], args, p)
        res.solver_time += exe.stats['solver_time']
        for f in exe.findings:
            pending.append((name, 'exec:' + f.kind, f.model, paths))
        rets = [q for q in done if q.status == 'returned']
        if not rets:
            res.inconc('%s %s: no returning path' % (name, ls))
        for q in rets:
            r = q.result
            if not (isinstance(r, Agg) and r.name == 'PathStr'):
                raise MirUnsupported('%s returns %r' % (name, r))
            got = r.fields[0]
            # the path condition fixes the class of every segment the code looked at; segments it never classified are split here
            cases = [([], {})]
            for s_ in [x for p_ in paths for x in p_]:
                new_cases = []
                for g, cl in cases:
                    opts = []
                    for cname, cond in (('.', s_ == z3.StringVal('.')), ('..', s_ == z3.StringVal('..')), ('name', z3.And(s_ != z3.StringVal('.'), s_ != z3.StringVal('..')))):
                        ok, _ = exe.check(exe.base + q.pc + g + [cond])
                        nq += 1
                        if ok:
                            opts.append((cname, cond))
                    for cname, cond in opts:
                        new_cases.append((g + ([cond] if len(opts) > 1 else []), dict(cl, **{str(s_): cname})))
                cases = new_cases
            for g, cl in cases:
                def fold(st, segs_):
                    st = list(st)
                    for x in segs_:
                        c = cl[str(x)]
                        if c == '..':
                            st = st[:-1]
                        elif c == 'name':
                            st.append(x)
                    return st
                if nargs == 1:
                    wants = [([], fold([], paths[0]))]
                else:
                    base_, rel_ = paths
                    absolute = z3.And(z3.BoolVal(len(rel_) >= 2), rel_[0] == z3.StringVal('')) if len(rel_) >= 2 else z3.BoolVal(False)
                    wants = [([z3.Not(absolute)], fold(fold([], base_)[:-1], rel_))]
                    if len(rel_) >= 2:
                        wants.append(([absolute], fold([], rel_[1:])))
                for g2, want in wants:
                    nq += 1
                    if len(want) != len(got):
                        ok, model = exe.check(exe.base + q.pc + g + g2, want_model=True)
                    else:
                        diff = z3.Or([a != b for a, b in zip(got, want)]) if want else z3.BoolVal(False)
                        ok, model = exe.check(exe.base + q.pc + g + g2 + [diff], want_model=True)
                    res.query('sat' if ok else 'unsat')
                    if len(XCHECK) < 6 and len(want) == len(got) and want and not ok:
                        XCHECK.append((exe.base + q.pc + g + g2 + [diff], 'unsat'))
                    if ok and len(pending) < 20:
                        pending.append((name, 'value', model, paths))
        res.functions.append({'fn': 'path::%s' % name, 'segments': list(ls), 'paths': len(done)})
    return nq


def concrete(model, paths):
    out = []
    for segs_ in paths:
        out.append('/'.join(model.eval(s, model_completion=True).as_string() for s in segs_))
    return out


def e2e_many(pairs):
    """batch version of e2e -> first deviation text or None"""
    reqs, meta = [], []
    for base, rel in pairs:
        want = py_resolve(base, rel)
        if not want or any(ch in base + rel for ch in '"<>&{') or base.endswith('/') or not base or want == base:
            continue
        reqs.append({'files': [[base, '<import src="%s"/>' % rel], [want, '<view/>']], 'main': base, 'want': ['direct_dependencies']})
        meta.append((base, rel, want))
    if not reqs:
        return None
    r = common.replay(['tmpl'], stdin=json.dumps(reqs), timeout=120)
    for (base, rel, want), out in zip(meta, json.loads(r.stdout)):
        deps = out.get('direct_dependencies')
        if deps is None or isinstance(deps, dict):
            continue
        if deps != [want]:
            return 'file %r importing %r depends on %r, the reference resolver gives %r' % (base, rel, deps, want)
    return None


def candidate_pairs():
    import itertools
    rels = []
    for n in (1, 2, 3):
        for segs_ in itertools.product(('a', 'c', '.', '..'), repeat=n):
            rels.append('/'.join(segs_))
            rels.append('/' + '/'.join(segs_))
    return [(b, r) for b in ('p/q', 'p/q/r', 'x') for r in rels]


def e2e(base, rel):
    """a template at `base` that imports `rel`: the group API must report the reference resolver's target -> deviation text or None"""
    want = py_resolve(base, rel)
    if not want or any(ch in base + rel for ch in '"<>&{') or base.endswith('/') or not base:
        return None
    req = [{'files': [[base, '<import src="%s"/>' % rel], [want, '<view/>']], 'main': base, 'want': ['direct_dependencies']}]
    r = common.replay(['tmpl'], stdin=json.dumps(req), timeout=60)
    out = json.loads(r.stdout)[0]
    deps = out.get('direct_dependencies')
    if deps is None or isinstance(deps, dict):
        return None
    if deps != [want]:
        return 'file %r importing %r depends on %r, the reference resolver gives %r' % (base, rel, deps, want)
    return None


def main(tier):
    res = Result('C13', 'other')
    res.engines = ['M (MIR symbolic execution over symbolic segment sequences + z3 strings)']
    mod = Module(common.mir_dump('tc'))
    pending = []
    nmax = 5 if tier == 'thorough' else 4
    t = time.time()
    lens2 = [(a, b) for a in range(1, nmax) for b in range(1, nmax) if a + b <= nmax + 1]
    n = run_fn(mod, res, 'resolve', 2, lens2, pending)
    n += run_fn(mod, res, 'normalize', 1, [(k,) for k in range(1, nmax + 1)], pending)
    log('[C13] %d obligations, %d candidate deviations (%.1fs)' % (n, len(pending), time.time() - t))
    if tier == 'thorough':
        # the same queries on the other solvers (string theory: cvc5 and the older z3)
        from lib import smt
        for k, (asserts, verdict) in enumerate(XCHECK):
            try:
                res.coverage.setdefault('cross_solver', {})['value query %d' % k] = smt.cross_check(asserts, verdict, timeout=60)
            except smt.SolverDisagreement as e:
                res.inconc('cross-solver: %s' % e)
    del XCHECK[:]
    seen = set()
    for name, cls, model, paths in pending:
        if (name, cls) in seen or model is None:
            continue
        seen.add((name, cls))
        args = concrete(model, paths)
        why = None
        cands = [tuple(args)] if name == 'resolve' else []
        cands += [('a/b', '../c'), ('a/b/c', './d'), ('a/b', '/c/d'), ('a', '../../b'), ('a/b', 'c/../d'), ('x/a', '..//b'), ('a/b/c', '../../d')]
        for b_, r_ in cands:
            why = e2e(b_, r_)
            res.coverage['traces_validated_against_impl'] = res.coverage.get('traces_validated_against_impl', 0) + 1
            if why:
                break
        if not why:
            pairs = candidate_pairs()
            why = e2e_many(pairs)
            res.coverage['traces_validated_against_impl'] = res.coverage.get('traces_validated_against_impl', 0) + len(pairs)
        if why:
            res.violation({'engine': 'M', 'harness': 'M13-' + name, 'class': cls}, 'path::%s%r deviates from the reference resolver (%s); end to end: %s' % (name, tuple(args), cls, why),
                          {'base': args[0], 'rel': args[-1]})
        else:
            res.inconc('path::%s%r: %s in the model, not observable through the group API' % (name, tuple(args), cls))
    # translator validation: concrete pairs through the real resolver (group API) vs the reference
    agree = 0
    for b_, r_ in [('a/b', '../c'), ('a/b/c', './d'), ('a/b', '/c/d'), ('a', '../../b'), ('a/b', 'c/../d'), ('a/b/c', '../../d'), ('p/q', 'r')]:
        why = e2e(b_, r_)
        if why:
            if not res.violations:
                res.inconc('translator validation: %s although the model proves the resolver right' % why)
        else:
            agree += 1
    res.coverage['traces_validated_against_impl'] = res.coverage.get('traces_validated_against_impl', 0) + agree
    res.bounds = {'segments': 'base and rel with <= %d segments in total (+1), every segment an arbitrary string without "/"' % nmax}
    res.assumptions = ['str::split / starts_with / [1..] / join act on the segment sequence by their documented meaning', 'Vec push / pop (executor)']
    res.outside = ['import precedence and <template is> lookup order', 'dependency queries beyond the replayed import', 'suffix handling (.wxml / .wxs)', 'longer paths']
    res.coverage.update({'explanation': 'path::resolve / normalize executed from MIR over symbolic segment sequences; for every path and every case of the reference fold z3 decides equality of the segment sequences',
                         'obligations': n, 'discharged': res.queries.get('unsat', 0), 'evaluations': n, 'distinct_nontrivial': n})
    return res.finish()


def replay(path):
    d = json.load(open(path))['replay']
    why = e2e(d['base'], d['rel'])
    print(why)
    return 1 if why else 0
