"""Tokenizer + Pratt parser for the JavaScript subset the template compiler emits (DESIGN 3.3).
An unknown construct raises JsUnsupported (-> exit 2 / C02 syntax candidate), never a silent skip."""
import re


class JsUnsupported(Exception):
    pass


KEYWORDS = {'var', 'if', 'else', 'return', 'function', 'new', 'typeof', 'void', 'for', 'in', 'instanceof', 'true', 'false', 'null',
            'undefined', 'throw', 'this'}
PUNCT = ['>>>=', '...', '===', '!==', '>>>', '**=', '<<=', '>>=', '&&=', '||=', '??=', '=>', '==', '!=', '<=', '>=', '&&', '||', '??', '<<', '>>',
         '**', '++', '--', '+=', '-=', '*=', '/=', '%=', '&=', '|=', '^=', '(', ')', '{', '}', '[', ']', ',', ';', ':', '?', '.', '=',
         '<', '>', '+', '-', '*', '/', '%', '&', '|', '^', '~', '!']
ID_START = re.compile(r'[A-Za-z_$]')
ID_RX = re.compile(r'[A-Za-z_$][A-Za-z0-9_$]*')
NUM_RX = re.compile(r'0[xX][0-9a-fA-F]+|0[oO][0-7]+|0[bB][01]+|(?:\d+\.?\d*(?:[eE][+-]?\d+)?|\.\d+(?:[eE][+-]?\d+)?)')


def decode_string(body, quote):
    out, i = [], 0
    while i < len(body):
        c = body[i]
        if c != '\\':
            if c in '\n\r  ' and c in '\n\r':
                raise JsUnsupported('raw line terminator in string literal')
            out.append(c)
            i += 1
            continue
        d = body[i + 1] if i + 1 < len(body) else ''
        if d == 'u':
            if body[i + 2:i + 3] == '{':
                k = body.index('}', i)
                cp = int(body[i + 3:k], 16)
                if cp > 0x10FFFF:
                    raise JsUnsupported('code point escape out of range')
                out.append(chr(cp))
                i = k + 1
            else:
                out.append(chr(int(body[i + 2:i + 6], 16)))
                i += 6
        elif d == 'x':
            out.append(chr(int(body[i + 2:i + 4], 16)))
            i += 4
        elif d == '0' and not (body[i + 2:i + 3].isdigit()):
            out.append('\0')
            i += 2
        elif d.isdigit():
            # legacy octal / \8 \9: a SyntaxError in strict mode and in template strings
            raise JsUnsupported('legacy octal escape \\%s in string literal' % body[i + 1:i + 3])
        elif d in 'nrtbfv':
            out.append({'n': '\n', 'r': '\r', 't': '\t', 'b': '\b', 'f': '\f', 'v': '\v'}[d])
            i += 2
        elif d in '\n':
            i += 2
        else:
            out.append(d)
            i += 2
    return ''.join(out)


def tokenize(src):
    toks, i, n = [], 0, len(src)
    while i < n:
        c = src[i]
        if c in ' \t\n\r':
            i += 1
            continue
        if c == '/' and src[i + 1:i + 2] == '/':
            j = src.find('\n', i)
            i = n if j < 0 else j
            continue
        if c == '/' and src[i + 1:i + 2] == '*':
            j = src.find('*/', i + 2)
            if j < 0:
                raise JsUnsupported('unterminated comment')
            i = j + 2
            continue
        if c in '"\'':
            j = i + 1
            while j < n and src[j] != c:
                if src[j] == '\\':
                    j += 1
                j += 1
            if j >= n:
                raise JsUnsupported('unterminated string literal')
            toks.append(('str', decode_string(src[i + 1:j], c), i))
            i = j + 1
            continue
        m = NUM_RX.match(src, i)
        if m and (c.isdigit() or (c == '.' and src[i + 1:i + 2].isdigit())):
            raw = m.group(0)
            if ID_START.match(src[m.end():m.end() + 1] or ' '):
                raise JsUnsupported('identifier directly after numeric literal %r' % src[i:m.end() + 3])
            if re.fullmatch(r'0\d+', raw):
                raise JsUnsupported('legacy octal-like numeric literal %r' % raw)
            toks.append(('num', raw, i))
            i = m.end()
            continue
        m = ID_RX.match(src, i)
        if m:
            w = m.group(0)
            toks.append(('kw' if w in KEYWORDS else 'id', w, i))
            i = m.end()
            continue
        for p in PUNCT:
            if src.startswith(p, i):
                toks.append(('p', p, i))
                i += len(p)
                break
        else:
            raise JsUnsupported('unexpected character %r at %d: %r' % (c, i, src[max(0, i - 20):i + 20]))
    toks.append(('eof', '', n))
    return toks


BIN_PREC = {'??': 1, '||': 2, '&&': 3, '|': 4, '^': 5, '&': 6, '==': 7, '!=': 7, '===': 7, '!==': 7, '<': 8, '>': 8, '<=': 8, '>=': 8,
            'instanceof': 8, 'in': 8, '<<': 9, '>>': 9, '>>>': 9, '+': 10, '-': 10, '*': 11, '/': 11, '%': 11, '**': 12}


class Parser:
    def __init__(self, src):
        self.src = src
        self.t = tokenize(src)
        self.i = 0

    def peek(self, k=0):
        return self.t[self.i + k]

    def at(self, kind, val=None):
        t = self.t[self.i]
        return t[0] == kind and (val is None or t[1] == val)

    def atp(self, val):
        return self.at('p', val)

    def eat(self, kind, val=None):
        t = self.t[self.i]
        if t[0] != kind or (val is not None and t[1] != val):
            raise JsUnsupported('expected %s %r, got %r at %d: %r' % (kind, val, t[:2], t[2], self.src[max(0, t[2] - 30):t[2] + 30]))
        self.i += 1
        return t

    # ---------------------------------------------------------------- statements
    def program(self):
        out = []
        while not self.at('eof'):
            out.append(self.statement())
        return out

    def statement(self):
        if self.atp(';'):
            self.i += 1
            return ('empty',)
        if self.atp('{'):
            return self.block()
        if self.at('kw', 'var'):
            self.i += 1
            decls = []
            while True:
                name = self.eat('id')[1]
                init = None
                if self.atp('='):
                    self.i += 1
                    init = self.assign()
                decls.append((name, init))
                if self.atp(','):
                    self.i += 1
                    continue
                break
            self.semi()
            return ('var', decls)
        if self.at('kw', 'if'):
            self.i += 1
            self.eat('p', '(')
            c = self.expr()
            self.eat('p', ')')
            th = self.statement()
            el = None
            if self.at('kw', 'else'):
                self.i += 1
                el = self.statement()
            return ('if', c, th, el)
        if self.at('kw', 'return'):
            self.i += 1
            e = None
            if not (self.atp(';') or self.atp('}') or self.at('eof')):
                e = self.expr()
            self.semi()
            return ('return', e)
        if self.at('kw', 'throw'):
            self.i += 1
            e = self.expr()
            self.semi()
            return ('throw', e)
        if self.at('kw', 'for'):
            self.i += 1
            self.eat('p', '(')
            init = None if self.atp(';') else self.statement_noeat()
            self.eat('p', ';')
            cond = None if self.atp(';') else self.expr()
            self.eat('p', ';')
            upd = None if self.atp(')') else self.expr()
            self.eat('p', ')')
            body = self.statement()
            return ('for', init, cond, upd, body)
        if self.at('kw', 'function') and self.peek(1)[0] == 'id':
            self.i += 1
            name = self.eat('id')[1]
            fn = self.function_rest(False)
            return ('var', [(name, fn)])
        e = self.expr()
        self.semi()
        return ('expr', e)

    def statement_noeat(self):
        # `var i=0` inside for(...) without consuming the ';'
        if self.at('kw', 'var'):
            self.i += 1
            decls = []
            while True:
                name = self.eat('id')[1]
                init = None
                if self.atp('='):
                    self.i += 1
                    init = self.assign()
                decls.append((name, init))
                if self.atp(','):
                    self.i += 1
                    continue
                break
            return ('var', decls)
        return ('expr', self.expr())

    def semi(self):
        if self.atp(';'):
            self.i += 1
        elif self.atp('}') or self.at('eof'):
            pass
        elif '\n' in self.src[self.t[self.i - 1][2]:self.t[self.i][2]]:
            pass        # automatic semicolon insertion at a line break (only the hand-written WXS loader relies on it)
        else:
            t = self.peek()
            raise JsUnsupported('missing ; before %r at %d: %r' % (t[1], t[2], self.src[max(0, t[2] - 30):t[2] + 30]))

    def block(self):
        self.eat('p', '{')
        out = []
        while not self.atp('}'):
            out.append(self.statement())
        self.eat('p', '}')
        return ('block', out)

    # ---------------------------------------------------------------- expressions
    def expr(self):
        e = self.assign()
        if self.atp(','):
            items = [e]
            while self.atp(','):
                self.i += 1
                items.append(self.assign())
            return ('seq', items)
        return e

    def is_arrow_ahead(self):
        # at '(' : scan to the matching ')' and look for '=>'
        depth, j = 0, self.i
        while True:
            t = self.t[j]
            if t[0] == 'eof':
                return False
            if t[0] == 'p' and t[1] in '([{':
                depth += 1
            elif t[0] == 'p' and t[1] in ')]}':
                depth -= 1
                if depth == 0:
                    return self.t[j + 1][0] == 'p' and self.t[j + 1][1] == '=>'
            j += 1

    def assign(self):
        if self.atp('(') and self.is_arrow_ahead():
            return self.arrow()
        if self.at('id') and self.peek(1)[0] == 'p' and self.peek(1)[1] == '=>':
            name = self.eat('id')[1]
            self.eat('p', '=>')
            return self.arrow_body([name])
        left = self.cond()
        if self.atp('='):
            self.i += 1
            right = self.assign()
            if left[0] not in ('id', 'member', 'index'):
                raise JsUnsupported('assignment to non-lvalue')
            return ('assign', left, right)
        for op in ('+=', '-=', '*=', '/=', '%=', '&=', '|=', '^=', '<<=', '>>=', '>>>=', '**=', '&&=', '||=', '??='):
            if self.atp(op):
                raise JsUnsupported('compound assignment ' + op)
        return left

    def arrow(self):
        self.eat('p', '(')
        params = []
        while not self.atp(')'):
            params.append(self.eat('id')[1])
            if self.atp(','):
                self.i += 1
        self.eat('p', ')')
        self.eat('p', '=>')
        return self.arrow_body(params)

    def arrow_body(self, params):
        if self.atp('{'):
            body = self.block()[1]
            return ('fn', params, body, True)
        e = self.assign()
        return ('fn', params, [('return', e)], True)

    def function_rest(self, arrow):
        self.eat('p', '(')
        params = []
        while not self.atp(')'):
            params.append(self.eat('id')[1])
            if self.atp(','):
                self.i += 1
        self.eat('p', ')')
        body = self.block()[1]
        return ('fn', params, body, arrow)

    def cond(self):
        c = self.binary(0)
        if self.atp('?'):
            self.i += 1
            a = self.assign()
            self.eat('p', ':')
            b = self.assign()
            return ('cond', c, a, b)
        return c

    def binop_at(self):
        t = self.peek()
        if t[0] == 'p' and t[1] in BIN_PREC:
            return t[1]
        if t[0] == 'kw' and t[1] in ('instanceof', 'in'):
            return t[1]
        return None

    def binary(self, minp):
        left = self.unary()
        while True:
            op = self.binop_at()
            if op is None or BIN_PREC[op] <= minp - 1 and False:
                break
            p = BIN_PREC[op]
            if p < minp:
                break
            self.i += 1
            if op == '**':
                if left[0] == 'unary':
                    raise JsUnsupported('unary operand of ** without parentheses')
                right = self.binary(p)        # right associative
            else:
                right = self.binary(p + 1)
            if op in ('&&', '||', '??'):
                if op == '??' and (left[0] == 'logical' and left[1] in ('&&', '||') and not left[-1] == 'paren'):
                    raise JsUnsupported('?? mixed with && / || without parentheses')
                if op in ('&&', '||') and ((left[0] == 'logical' and left[1] == '??') or (right[0] == 'logical' and right[1] == '??')):
                    raise JsUnsupported('?? mixed with && / || without parentheses')
                left = ('logical', op, left, right)
            else:
                left = ('binary', op, left, right)
        return left

    def unary(self):
        t = self.peek()
        if t[0] == 'p' and t[1] in ('!', '-', '+', '~'):
            self.i += 1
            return ('unary', t[1], self.unary())
        if t[0] == 'kw' and t[1] in ('typeof', 'void'):
            self.i += 1
            return ('unary', t[1], self.unary())
        if t[0] == 'p' and t[1] in ('++', '--'):
            self.i += 1
            return ('update', t[1], self.unary(), True)
        e = self.postfix()
        if self.atp('++') or self.atp('--'):
            op = self.eat('p')[1]
            return ('update', op, e, False)
        return e

    def postfix(self):
        if self.at('kw', 'new'):
            self.i += 1
            callee = self.member_only()
            args = []
            if self.atp('('):
                args = self.args()
            e = ('new', callee, args)
        else:
            e = self.primary()
        while True:
            if self.atp('.'):
                self.i += 1
                t = self.peek()
                if t[0] not in ('id', 'kw'):
                    raise JsUnsupported('member name expected')
                self.i += 1
                e = ('member', e, t[1])
            elif self.atp('['):
                self.i += 1
                k = self.expr()
                self.eat('p', ']')
                e = ('index', e, k)
            elif self.atp('('):
                e = ('call', e, self.args())
            else:
                return e

    def member_only(self):
        e = self.primary()
        while self.atp('.'):
            self.i += 1
            e = ('member', e, self.eat('id')[1])
        return e

    def args(self):
        self.eat('p', '(')
        out = []
        while not self.atp(')'):
            if self.atp('...'):
                self.i += 1
                out.append(('spread', self.assign()))
            else:
                out.append(self.assign())
            if self.atp(','):
                self.i += 1
            elif not self.atp(')'):
                raise JsUnsupported('argument list')
        self.eat('p', ')')
        return out

    def primary(self):
        t = self.peek()
        if t[0] == 'num':
            self.i += 1
            raw = t[1]
            if raw[:2].lower() == '0x':
                v = int(raw, 16)
            elif raw[:2].lower() == '0o':
                v = int(raw[2:], 8)
            elif raw[:2].lower() == '0b':
                v = int(raw[2:], 2)
            else:
                v = float(raw) if re.search(r'[.eE]', raw) else int(raw)
            return ('num', v, raw)
        if t[0] == 'str':
            self.i += 1
            return ('str', t[1])
        if t[0] == 'id':
            self.i += 1
            return ('id', t[1])
        if t[0] == 'kw':
            if t[1] in ('true', 'false'):
                self.i += 1
                return ('bool', t[1] == 'true')
            if t[1] == 'null':
                self.i += 1
                return ('null',)
            if t[1] == 'undefined':
                self.i += 1
                return ('id', 'undefined')
            if t[1] == 'this':
                self.i += 1
                return ('id', 'this')
            if t[1] == 'function':
                self.i += 1
                if self.at('id'):
                    self.i += 1
                return self.function_rest(False)
        if self.atp('('):
            self.i += 1
            e = self.expr()
            self.eat('p', ')')
            if e[0] == 'logical':
                e = e + ('paren',)
            return e
        if self.atp('['):
            self.i += 1
            items = []
            while not self.atp(']'):
                if self.atp(','):
                    self.i += 1
                    items.append(None)       # hole
                    continue
                if self.atp('...'):
                    self.i += 1
                    items.append(('spread', self.assign()))
                else:
                    items.append(self.assign())
                if self.atp(','):
                    self.i += 1
                elif not self.atp(']'):
                    raise JsUnsupported('array literal')
            self.eat('p', ']')
            return ('arr', items)
        if self.atp('{'):
            self.i += 1
            props = []
            while not self.atp('}'):
                if self.atp('...'):
                    self.i += 1
                    props.append(('spread', self.assign()))
                else:
                    k = self.peek()
                    if k[0] in ('id', 'kw', 'str'):
                        self.i += 1
                        key = k[1]
                    elif k[0] == 'num':
                        self.i += 1
                        key = str(k[1])
                    else:
                        raise JsUnsupported('object key')
                    if self.atp(':'):
                        self.i += 1
                        props.append((key, self.assign()))
                    else:
                        if k[0] != 'id':
                            raise JsUnsupported('shorthand property with non-identifier key')
                        props.append((key, ('id', key)))
                if self.atp(','):
                    self.i += 1
                elif not self.atp('}'):
                    raise JsUnsupported('object literal')
            self.eat('p', '}')
            return ('obj', props)
        raise JsUnsupported('unexpected token %r at %d: %r' % (t[:2], t[2], self.src[max(0, t[2] - 30):t[2] + 30]))


def parse_program(src):
    return Parser(src).program()


def parse_expression(src):
    p = Parser(src)
    e = p.expr()
    if not p.at('eof'):
        raise JsUnsupported('trailing tokens after expression')
    return e
