// hooks for parse/mod.rs (included under cfg(any(kani, glass_easel_verif)))
#[allow(unused_imports)]
use super::*;

/// (line, utf16 column) of the end of `prefix` when counting starts at (0, 0): the specification of ParseState's bookkeeping
pub fn line_col_of(prefix: &str) -> (u32, u32) {
    let (mut line, mut col) = (0u32, 0u32);
    for c in prefix.chars() {
        if c == '\n' {
            line += 1;
            col = 0
        } else {
            col += c.len_utf16() as u32
        }
    }
    (line, col)
}

/// native twin of the K16a harnesses: run primitive `op` from the state "cursor at byte `cur`" and report
/// (cursor, line, col, expected line, expected col, cursor on a char boundary, cursor >= start)
pub fn primitive_step(s: &str, cur: usize, op: u8, arg: &str) -> (usize, u32, u32, u32, u32, bool, bool) {
    let mut ps = ParseState::new("", s, Position::default());
    let (l, c) = line_col_of(&s[..cur]);
    ps.cur_index = cur;
    ps.line = l;
    ps.utf16_col = c;
    match op {
        0 => {
            ps.next();
        }
        1 => {
            ps.skip_whitespace();
        }
        2 => {
            ps.skip_until_before(arg);
        }
        3 => {
            ps.skip_until_after(arg);
        }
        4 => {
            ps.consume_str(arg);
        }
        5 => {
            ps.next_char_as_str();
        }
        6 => {
            ps.skip_whitespace_with_js_comments();
        }
        _ => {
            let _: Option<()> = ps.try_parse(|ps| {
                ps.next();
                ps.skip_whitespace();
                None
            });
        }
    }
    let idx = ps.cur_index;
    let ok_b = s.is_char_boundary(idx);
    let (el, ec) = if ok_b { line_col_of(&s[..idx]) } else { (0, 0) };
    (idx, ps.line, ps.utf16_col, el, ec, ok_b, idx >= cur)
}

#[cfg(kani)]
mod harness {
    use super::super::*;
    use super::line_col_of;

    fn fail_stub(_s: &str, _b: usize, _e: usize) -> ! {
        panic!("slice_error_fail")
    }

    const N: usize = 4;

    // arbitrary valid UTF-8 text of <= N bytes and an arbitrary char-boundary cursor with the invariant established
    fn any_state(buf: &[u8; N]) -> Option<(&str, usize)> {
        let len: usize = kani::any();
        kani::assume(len <= N);
        let s = match std::str::from_utf8(&buf[..len]) {
            Ok(s) => s,
            Err(_) => return None,
        };
        let cur: usize = kani::any();
        kani::assume(cur <= len);
        if !s.is_char_boundary(cur) {
            return None;
        }
        Some((s, cur))
    }
    fn state_at<'a>(s: &'a str, cur: usize) -> ParseState<'a> {
        let mut ps = ParseState::new("", s, Position::default());
        let (l, c) = line_col_of(&s[..cur]);
        ps.cur_index = cur;
        ps.line = l;
        ps.utf16_col = c;
        ps
    }
    // the position invariant: cursor on a boundary, never moved backwards, (line, col) = recomputation from the text
    fn check_inv(ps: &ParseState, s: &str, start: usize) {
        let idx = ps.cur_index;
        assert!(idx <= s.len());
        assert!(idx >= start);
        assert!(s.is_char_boundary(idx));
        let (l, c) = line_col_of(&s[..idx]);
        assert!(ps.line == l && ps.utf16_col == c);
    }

    #[kani::proof]
    #[kani::unwind(6)]
    #[kani::stub(core::str::slice_error_fail, fail_stub)]
    fn k16a_next() {
        let buf: [u8; N] = kani::any();
        let Some((s, cur)) = any_state(&buf) else { return };
        let mut ps = state_at(s, cur);
        let r = ps.next();
        check_inv(&ps, s, cur);
        // progress lemma: next() strictly advances unless the input is ended
        assert!(r.is_none() == (cur == s.len()));
        assert!(r.is_none() || ps.cur_index > cur);
        kani::cover!(r == Some('\n'));
        kani::cover!(ps.cur_index == cur + 4);
        std::mem::forget(ps);
    }

    #[kani::proof]
    #[kani::unwind(6)]
    #[kani::stub(core::str::slice_error_fail, fail_stub)]
    fn k16a_skip_whitespace() {
        let buf: [u8; N] = kani::any();
        let Some((s, cur)) = any_state(&buf) else { return };
        let mut ps = state_at(s, cur);
        let r = ps.skip_whitespace();
        check_inv(&ps, s, cur);
        assert!(r.is_some() == (ps.cur_index > cur));
        kani::cover!(ps.cur_index == cur + 2);
        std::mem::forget(ps);
    }

    #[kani::proof]
    #[kani::unwind(5)]
    #[kani::stub(core::str::slice_error_fail, fail_stub)]
    fn k16a_next_char_as_str() {
        // 3 bytes (a 4-byte buffer runs out of memory): every 1-, 2- and 3-byte character and their combinations
        let b3: [u8; 3] = kani::any();
        let len: usize = kani::any();
        kani::assume(len <= 3);
        let Ok(s) = std::str::from_utf8(&b3[..len]) else { return };
        let cur: usize = kani::any();
        kani::assume(cur <= len);
        if !s.is_char_boundary(cur) {
            return;
        }
        let mut ps = state_at(s, cur);
        let r = ps.next_char_as_str();
        check_inv(&ps, s, cur);
        assert!(r.len() == ps.cur_index - cur);
        assert!((r.len() == 0) == (cur == s.len()));
        kani::cover!(r.len() == 3);
        std::mem::forget(ps);
    }

    #[kani::proof]
    #[kani::unwind(6)]
    #[kani::stub(core::str::slice_error_fail, fail_stub)]
    fn k16a_consume_str() {
        let buf: [u8; N] = kani::any();
        let Some((s, cur)) = any_state(&buf) else { return };
        let mut ps = state_at(s, cur);
        let which: bool = kani::any();
        let pat = if which { "\n" } else { "-" };
        let r = ps.consume_str(pat);
        check_inv(&ps, s, cur);
        assert!(r.is_some() == (ps.cur_index == cur + 1));
        kani::cover!(r.is_some() && which);
        std::mem::forget(ps);
    }

    #[kani::proof]
    #[kani::unwind(6)]
    #[kani::stub(core::str::slice_error_fail, fail_stub)]
    fn k16a_try_parse_restores() {
        let buf: [u8; N] = kani::any();
        let Some((s, cur)) = any_state(&buf) else { return };
        let mut ps = state_at(s, cur);
        let keep: bool = kani::any();
        let r: Option<()> = ps.try_parse(|ps| {
            ps.next();
            if keep {
                Some(())
            } else {
                None
            }
        });
        check_inv(&ps, s, cur);
        assert!(r.is_some() || ps.cur_index == cur);
        kani::cover!(!keep && cur < s.len());
        std::mem::forget(ps);
    }

    // skip_bytes over a multi-character range (through skip_until_after): "<x><c>-" with x in {'\n', 'a'} and c ANY scalar value
    // (covers a line break followed by a multi-byte / astral character in one skipped range)
    #[kani::proof]
    #[kani::unwind(8)]
    #[kani::stub(core::str::slice_error_fail, fail_stub)]
    fn k16a_skip_bytes_range() {
        let c: char = kani::any();
        kani::assume(c != '-');
        let nl: bool = kani::any();
        let mut buf = [0u8; 6];
        buf[0] = if nl { b'\n' } else { b'a' };
        let n = c.encode_utf8(&mut buf[1..5]).len();
        buf[1 + n] = b'-';
        let s = unsafe { std::str::from_utf8_unchecked(&buf[..n + 2]) };
        let mut ps = state_at(s, 0);
        let r = ps.skip_until_after("-");
        assert!(r.is_some());
        assert!(ps.cur_index == s.len());
        check_inv(&ps, s, 0);
        kani::cover!(nl && n == 4);
        kani::cover!(!nl && c == '\n');
        std::mem::forget(ps);
    }

    // skip_bytes over a multi-character range, cheaper route: consume_str(<the whole remaining text>) = skip_bytes(len)
    // text = "<x><c>" with x in {'\n', 'a'} and c ANY scalar value
    #[kani::proof]
    #[kani::unwind(8)]
    #[kani::stub(core::str::slice_error_fail, fail_stub)]
    fn k16a_skip_bytes_two_chars() {
        let c: char = kani::any();
        let nl: bool = kani::any();
        let mut buf = [0u8; 5];
        buf[0] = if nl { b'\n' } else { b'a' };
        let n = c.encode_utf8(&mut buf[1..5]).len();
        let s = unsafe { std::str::from_utf8_unchecked(&buf[..n + 1]) };
        let mut ps = state_at(s, 0);
        let r = ps.consume_str(s);
        assert!(r.is_some());
        assert!(ps.cur_index == s.len());
        check_inv(&ps, s, 0);
        kani::cover!(nl && n == 4);
        kani::cover!(!nl && c == '\n');
        std::mem::forget(ps);
    }

    // K15c: Position ordering is the lexicographic order on (line, utf16_col)
    #[kani::proof]
    fn k15c_position_order() {
        let a = Position { line: kani::any(), utf16_col: kani::any() };
        let b = Position { line: kani::any(), utf16_col: kani::any() };
        let want = (a.line, a.utf16_col).cmp(&(b.line, b.utf16_col));
        assert!(a.cmp(&b) == want);
        assert!(a.partial_cmp(&b) == Some(want));
        assert!((a == b) == (want == std::cmp::Ordering::Equal));
    }
}
