"""The mixed-text assembler `Value::parse_until_before` (static text + {{ bindings }} -> one Value), by engine M.

The MIR of the function is executed over a symbolic character sequence with
  * the `until` predicate as an uninterpreted function of the cursor,
  * `Value::parse_data_binding` as an environment that, at a `{{`, consumes an arbitrary non-empty stretch and returns either a binding
    (opaque expression E_k with its two brace locations) or an empty static value (the "empty / broken binding" outcomes),
  * `StrName::parse_next_entity` as "consumes one character, or a longer stretch starting with `&`, and returns the decoded text".
Decided on every path, for all inputs within the bound:
  shape     the result is Static, a single raw binding, or a left-nested `+` spine whose leaves are string pieces and
            ToStringWithoutUndefined(binding) - the only shape the stringifier and the generator accept (anything else panics or
            prints a different expression); the leaves are the pieces of the source in source order;                    (C01, C14)
  location  every string piece carries the location [position of its first character, position after its last), and the value of a
            piece is exactly the text consumed for it;                                                                     (C16)
  totality  no panic / unreachable / overflow assert, every loop iteration advances the cursor.                            (C01)
Violations are replayed through the real parser: the witness text is parsed and printed back (shape) and its static pieces are compared
with the source slice at their recorded location (hook `ast_text_locations`).
"""
import json
import os
import time
import z3

from lib import common, rustsrc
from lib.common import log
from mirsym.mir import MirUnsupported
from mirsym.core import Executor, Path, Agg, Ref, SeqV, Opaque, UNIT, Inconclusive
from mirsym import contracts, ps_env, targets
from mirsym.contracts import some, NONE

TAG = os.path.join(common.TC, 'src', 'parse', 'tag.rs')
EXPR = os.path.join(common.TC, 'src', 'parse', 'expr.rs')
until_at = z3.Function('until_at', z3.IntSort(), z3.BoolSort())


def layout():
    f = lambda path, e, v: {n: i for i, n in enumerate(rustsrc.variant_fields(path, e, v))}
    return {'Static': f(TAG, 'Value', 'Static'), 'Dynamic': f(TAG, 'Value', 'Dynamic'), 'Plus': f(EXPR, 'Expression', 'Plus'),
            'LitStr': f(EXPR, 'Expression', 'LitStr'), 'TS': f(EXPR, 'Expression', 'ToStringWithoutUndefined'), 'DataField': f(EXPR, 'Expression', 'DataField')}


def prange(a, b):
    return Agg('Range', None, {0: ps_env.position_at(a), 1: ps_env.position_at(b)})


def run(mod, L):
    lay = layout()
    inp = ps_env.Input(L)
    table, _ = ps_env.make_table(inp)
    T = []

    def reg(rx):
        def deco(f):
            T.append((rx, f))
            return f
        return deco

    @reg(r"^<impl Fn\(&mut ParseState\) -> bool as Fn<\(&mut ParseState<'_>,\)>>::call$")
    def until(exe, path, callee, args, dst_ty):
        return [('ret', path, until_at(z3.IntVal(ps_env.ps_state(path)[0])))]

    @reg(r'^Value::parse_data_binding$')
    def data_binding(exe, path, callee, args, dst_ty):
        idx, w, a = ps_env.ps_state(path)
        outs = []
        at_brace = z3.And(inp.n >= idx + 2, inp.chars[idx] == 123, inp.chars[idx + 1] == 123) if idx + 2 <= inp.L else z3.BoolVal(False)
        no = path.clone()
        if exe.feasible(no, [z3.Not(at_brace)]):
            no.pc.append(z3.Not(at_brace))
            outs.append(('ret', no, NONE))
        if idx + 2 > inp.L or not exe.feasible(path, [at_brace]):
            return outs
        path.pc.append(at_brace)
        def user_expr(shape, at):
            """the expression the user wrote inside the braces (its nodes carry a marker instead of a location)"""
            mark = Opaque('user_location', {'structural': True, 'at': at})
            df = lambda nm: Agg('Expression', 'DataField', {lay['DataField']['name']: SeqV((z3.IntVal(ord(nm)),)), lay['DataField']['location']: mark})
            if shape == 'field':
                return df('a')
            right = df('b') if shape == 'plus' else Agg('Expression', 'LitStr', {lay['LitStr']['value']: SeqV((z3.IntVal(ord('s')),)), lay['LitStr']['location']: mark})
            return Agg('Expression', 'Plus', {lay['Plus']['left']: df('a'), lay['Plus']['right']: right, lay['Plus']['location']: mark})
        for j in range(idx + 2, inp.L + 1):
            for kind in ('dynamic', 'dynamic:plus', 'dynamic:plus-lit', 'dynamic-unclosed', 'static'):
                if kind.startswith('dynamic') and kind != 'dynamic-unclosed' and j < idx + 4:
                    continue
                q = path.clone()
                if not exe.feasible(q, [inp.n >= j]):
                    continue
                q.pc.append(inp.n >= j)
                ps_env.set_ps(q, idx=j, warns=w + (0 if kind.startswith('dynamic') and kind != 'dynamic-unclosed' else 1))
                q.event('binding', kind, idx, j)
                if kind == 'static':
                    v = Agg('Value', 'Static', {lay['Static']['value']: SeqV(()), lay['Static']['location']: prange(idx, j)})
                else:
                    e = user_expr({'dynamic:plus': 'plus', 'dynamic:plus-lit': 'plus-lit'}.get(kind, 'field'), (idx, j))
                    right = prange(j - 2, j) if kind != 'dynamic-unclosed' else prange(j, j)
                    v = Agg('Value', 'Dynamic', {lay['Dynamic']['expression']: e, lay['Dynamic']['double_brace_location']: Agg('tuple', None, {0: prange(idx, idx + 2), 1: right}),
                                                 lay['Dynamic']['binding_map_keys']: NONE})
                outs.append(('ret', q, some(v)))
        return outs

    @reg(r'^StrName::parse_next_entity$')
    def next_entity(exe, path, callee, args, dst_ty):
        idx, w, a = ps_env.ps_state(path)
        outs = []
        if idx >= inp.L or not exe.feasible(path, [inp.n > idx]):
            exe.obligation(path, 'panic:parse_next_entity at the end of input', z3.BoolVal(True), {})
            return [('diverge', path)]
        path.pc.append(inp.n > idx)
        c = inp.chars[idx]
        # an entity reference: `&` + m-1 more characters decoded to one (opaque) character
        for m in (2, 3):
            if idx + m <= inp.L:
                q = path.clone()
                if exe.feasible(q, [c == 38, inp.n >= idx + m]):
                    q.pc += [c == 38, inp.n >= idx + m]
                    ps_env.set_ps(q, idx=idx + m)
                    dec = z3.Int('entity_%d_%d' % (idx, m))
                    q.pc.append(z3.And(dec >= 0, dec <= 0x10FFFF))
                    q.event('piece', idx, idx + m, dec)
                    outs.append(('ret', q, Agg('Cow', 'Owned', {0: SeqV((dec,))})))
        ps_env.set_ps(path, idx=idx + 1)
        path.event('piece', idx, idx + 1, c)
        outs.append(('ret', path, Agg('Cow', 'Borrowed', {0: SeqV((c,))})))
        return outs

    @reg(r'^CompactString::is_empty$|^String::is_empty$')
    def is_empty(exe, path, callee, args, dst_ty):
        s = contracts.strval(exe, path, args[0])
        if not isinstance(s, SeqV):
            raise MirUnsupported('is_empty of %r' % (s,))
        return [('ret', path, z3.BoolVal(len(s.items) == 0))]

    @reg(r"^<Cow<'_, str> as Deref>::deref$")
    def cow_deref(exe, path, callee, args, dst_ty):
        v = exe.deref_all(path, args[0])
        if isinstance(v, Agg) and v.name == 'Cow':
            return [('ret', path, v.fields[0])]
        return [('ret', path, v)]

    enums = {r'(^|::)Value$': rustsrc.enum_table(TAG, 'Value'), r'(^|::)Expression$': rustsrc.enum_table(EXPR, 'Expression')}
    exe = Executor(mod, T + table + contracts.TABLE, max_visits=2 * L + 4, enums=enums, timeout_ms=20000)
    exe.base = inp.base(ascii_only=False)
    exe.merge = False
    exe.boxes_on_heap = True
    fn = [x for x in mod.index if x.endswith('>::parse_until_before') and mod.headers[x].startswith('fn ') and 'impl Fn(&mut ParseState) -> bool' in mod.headers[x]
          and '-> Value' in mod.headers[x]]
    if len(fn) != 1:
        raise MirUnsupported('Value::parse_until_before not found (%d candidates)' % len(fn))
    p = Path()
    p.env['ps'] = (0, 0, None)
    p.store[('heap', 'ps')] = Agg('ParseState')
    done = exe.run(fn[0], [Ref(('heap', 'ps')), Opaque('until_closure', {'structural': True})], p)
    return exe, inp, done, lay


def leaves(exe, q, v, lay):
    """flatten the returned Value -> ('static', piece) | ('raw', expr) | ('spine', [leaf...]) | ('bad', why)
    leaf = ('str', SeqV, location) | ('ts', expr) ; anything else -> bad"""
    v = exe.deref_all(q, v)
    if not isinstance(v, Agg):
        return ('bad', 'result %r' % (v,))
    if v.variant == 'Static':
        return ('static', ('str', v.fields[lay['Static']['value']], v.fields[lay['Static']['location']]))
    def user_at(x):
        """(idx, j) if x is a node of an expression the user wrote"""
        if isinstance(x, Agg) and x.name == 'Expression':
            for fv in x.fields.values():
                if isinstance(fv, Opaque) and fv.tag == 'user_location':
                    return fv.info['at']
        return None
    e = exe.deref_all(q, v.fields[lay['Dynamic']['expression']])
    if user_at(e) is not None:
        return ('raw', user_at(e))
    out = []

    def leaf(x, leftmost):
        x = exe.deref_all(q, x)
        if user_at(x) is not None:
            return ('bad', 'a binding that is not wrapped in ToStringWithoutUndefined inside a concatenation')
        if isinstance(x, Agg) and x.variant == 'LitStr':
            return ('str', x.fields[lay['LitStr']['value']], x.fields[lay['LitStr']['location']])
        if isinstance(x, Agg) and x.variant == 'ToStringWithoutUndefined':
            inner = exe.deref_all(q, x.fields[lay['TS']['value']])
            if user_at(inner) is not None:
                return ('ts', user_at(inner))
            return ('bad', 'ToStringWithoutUndefined wraps %s' % (getattr(inner, 'variant', inner),))
        return ('bad', 'unexpected node %s' % (getattr(x, 'variant', x),))
    cur = e
    while True:
        if isinstance(cur, Agg) and cur.variant == 'Plus':
            out.append(leaf(cur.fields[lay['Plus']['right']], False))
            nxt = exe.deref_all(q, cur.fields[lay['Plus']['left']])
            if isinstance(nxt, Agg) and nxt.variant == 'Plus' and user_at(nxt) is None:
                cur = nxt
                continue
            out.append(leaf(nxt, True))
            break
        return ('bad', 'expression root %s' % (getattr(cur, 'variant', cur),))
    out.reverse()
    for l in out:
        if l[0] == 'bad':
            return l
    return ('spine', out)


def obligations(exe, inp, done, lay):
    """-> [(props, class, description, path, violated z3 Bool)]"""
    obs = []
    for q in done:
        if q.status != 'returned':
            continue
        shape = leaves(exe, q, q.result, lay)
        evs = [e for e in q.events if e[0] in ('binding', 'piece')]
        if shape[0] == 'bad':
            obs.append((['C01', 'C14'], 'shape', 'the assembled value has a shape the stringifier / generator do not accept: ' + shape[1], q, z3.BoolVal(True)))
            continue
        # expected leaf sequence from the events: maximal runs of pieces = one string leaf, dynamic bindings = ts / raw, static bindings = nothing
        want = []
        for e in evs:
            if e[0] == 'piece':
                # consecutive pieces form one string; an empty / broken binding between them contributes nothing and does not split it
                if want and want[-1][0] == 'str':
                    want[-1] = ('str', want[-1][1], e[2], want[-1][3] + [e[3]])
                else:
                    want.append(('str', e[1], e[2], [e[3]]))
            elif e[1] != 'static':
                want.append(('bind', e[2], e[3]))
        got = [shape[1]] if shape[0] == 'static' else ([('ts', shape[1])] if shape[0] == 'raw' else shape[1])
        got_norm = []
        for l in got:
            if l[0] == 'str':
                got_norm.append(l)
            else:
                got_norm.append(('bind', l[1]))
        # drop empty string leaves the code inserts as neutral elements (`"" + x`, `x + ""`): they carry no text
        nonempty = [l for l in got_norm if not (l[0] == 'str' and isinstance(l[1], SeqV) and len(l[1].items) == 0)]
        wseq = [('str', w[1], w[2], w[3]) if w[0] == 'str' else ('bind', (w[1], w[2])) for w in want]
        kinds_ok = len(nonempty) == len(wseq) and all(a[0] == b[0] for a, b in zip(nonempty, wseq))
        if not kinds_ok:
            obs.append((['C14', 'C01'], 'order', 'the pieces of the assembled value are not the pieces of the source in order: got %s, source has %s' % (
                [l[0] for l in nonempty], [w[0] for w in wseq]), q, z3.BoolVal(True)))
            continue
        for l, w in zip(nonempty, wseq):
            if l[0] == 'bind':
                if l[1] != w[1]:
                    obs.append((['C14'], 'order', 'binding %s appears where binding %s belongs' % (l[1], w[1]), q, z3.BoolVal(True)))
                continue
            val, loc = l[1], l[2]
            s_idx, e_idx, chars = w[1], w[2], w[3]
            if not isinstance(val, SeqV) or len(val.items) != len(chars):
                obs.append((['C14', 'C16'], 'text', 'a string piece holds %s characters, the source stretch [%d,%d) decodes to %d' % (
                    len(val.items) if isinstance(val, SeqV) else '?', s_idx, e_idx, len(chars)), q, z3.BoolVal(True)))
            else:
                obs.append((['C14', 'C16'], 'text', 'a string piece does not hold the text consumed for it', q, z3.Or([a != b for a, b in zip(val.items, chars)]) if chars else z3.BoolVal(False)))
            loc = exe.deref_all(q, loc)
            ws, we = ps_env.position_at(s_idx), ps_env.position_at(e_idx)
            try:
                st, en = loc.fields[0], loc.fields[1]
                bad = z3.Not(z3.And(st.fields[0] == ws.fields[0], st.fields[1] == ws.fields[1], en.fields[0] == we.fields[0], en.fields[1] == we.fields[1]))
            except Exception:
                bad = z3.BoolVal(True)
            obs.append((['C16'], 'location', 'the location of the string piece [%d,%d) is not [position of its first character, position after its last)' % (s_idx, e_idx), q, bad))
        # a spine needs every binding wrapped (raw only if it is the whole value) - established by leaves(); single raw binding must be alone
        if shape[0] == 'raw' and len(wseq) != 1:
            obs.append((['C14'], 'shape', 'a raw binding is returned although the source has %d pieces' % len(wseq), q, z3.BoolVal(True)))
    return obs


def witness_text(inp, model, q):
    """render the witness: characters from the model, with every binding stretch replaced by a well-formed `{{ a }}` / `{{ }}`"""
    n = model.eval(inp.n, model_completion=True).as_long()
    chars = [chr(model.eval(inp.chars[i], model_completion=True).as_long()) for i in range(n)]
    out = []
    i = 0
    bind = {e[2]: e for e in q.events if e[0] == 'binding'}
    while i < n:
        if i in bind:
            kind, j = bind[i][1], bind[i][3]
            out.append({'dynamic': '{{ a%d }}' % i, 'dynamic:plus': '{{ a%d + b }}' % i, 'dynamic:plus-lit': "{{ a%d + 's' }}" % i, 'dynamic-unclosed': '{{ a%d }}' % i}.get(kind, '{{ }}'))
            i = j
            continue
        ch = chars[i]
        out.append(ch if ch not in '<{&' and ch.isprintable() else 'x')
        i += 1
    return ''.join(out)


def replay_text(text):
    """parse `<v>text</v>` and `<v p="text"/>` with the real compiler: panic? does the printed template mean the same? are the
    static pieces where their location says?  -> description of a deviation or None"""
    from jssym import driver
    progs = ['<v>%s</v>' % text, '<v p="%s"/>' % text.replace('"', "'")]
    comp = driver.compile_batch(progs, want=('gen_object', 'stringify', 'text_locations'))
    for prog, c in zip(progs, comp):
        if 'panic' in c:
            return 'the compiler panics on %r: %s' % (prog, c['panic'])
        for (sl, sc, el, ec, value) in c.get('text_locations', []):
            lines = prog.split('\n')
            if sl != el or sl >= len(lines):
                continue
            u16 = lines[sl].encode('utf-16-le')
            src = u16[sc * 2:ec * 2].decode('utf-16-le', errors='ignore')
            if '&' in src:
                continue            # entity references: the slice is the spelling, not the value
            if src != value:
                return 'in %r the static piece %r is recorded at %d:%d-%d:%d where the source reads %r' % (prog, value, sl, sc, el, ec, src)
    return None


def run_property(res, mod, prop, tier):
    """decide the obligations that concern `prop`; replay violated classes"""
    L = 6 if tier == 'thorough' else 5
    t = time.time()
    exe, inp, done, lay = run(mod, L)
    res.solver_time += exe.stats['solver_time']
    n = 0
    bad = {}
    for f in exe.findings:
        if prop != 'C01':
            continue
        n += 1
        res.query('sat')
        bad.setdefault('exec:' + f.kind.split(',')[0], []).append((f.kind, f.path, f.model))
    rets = [q for q in done if q.status == 'returned']
    if not rets:
        res.inconc('mixed text: no returning path (vacuous)')
    for props, cls, desc, q, viol in obligations(exe, inp, done, lay):
        if prop not in props:
            continue
        n += 1
        v = z3.simplify(viol)
        if z3.is_false(v):
            res.query('unsat')
            continue
        ok, model = exe.check(exe.base + q.pc + [v], want_model=True)
        res.query('sat' if ok else 'unsat')
        if ok:
            bad.setdefault(cls, []).append((desc, q, model))
    log('[%s] mixed text (Value::parse_until_before) L=%d: %d paths, %d returned, %d obligations, %d violated classes (%.1fs)' % (
        prop, L, len(done), len(rets), n, len(bad), time.time() - t))
    res.functions.append({'fn': 'Value::parse_until_before (parse/tag.rs) + wrap_to_string', 'max_chars': L, 'paths': len(done), 'returned': len(rets), 'obligations': n,
                          'environment': ['until = uninterpreted function of the cursor', 'parse_data_binding = arbitrary stretch, binding / empty static',
                                          'parse_next_entity = one character or an entity reference of 2-3 characters'],
                          'contracts': sorted(exe.stats.get('contracts_used', {}))})
    for cls, items in sorted(bad.items()):
        confirmed = False
        for desc, q, model in items[:6]:
            if model is None:
                continue
            text = witness_text(inp, model, q)
            why = replay_text(text)
            res.coverage['traces_validated_against_impl'] = res.coverage.get('traces_validated_against_impl', 0) + 1
            if why:
                res.violation({'engine': 'M', 'harness': 'mixed-text', 'class': cls}, 'Value::parse_until_before: %s | %s' % (desc, why), {'text': text})
                confirmed = True
                break
        if not confirmed:
            res.inconc('mixed text: %s - witnesses do not reproduce through the real parser' % items[0][0])
    return n
