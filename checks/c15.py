"""C15 - diagnostics: locations valid, levels as documented (kernel level).

K16a/K15c (Kani): every Position the parser can hand to add_warning is ParseState::position() at some cursor; the position
invariant (cursor on a char boundary, (line, col) = recomputation from the consumed text, restored by a failing try_parse)
holds for every primitive from every state within the bound, and Position ordering is lexicographic.
M15b (engine M): ParseErrorKind::level executed from MIR with a symbolic kind: every kind has a level, and the kinds the
property lists as structural defects map to at least the documented level.
"Clean input is clean / every injected defect is flagged" quantifies over whole-parser runs and is outside.
"""
import json
import os
import z3

from lib import common, rustsrc
from lib.common import Result, log
from mirsym.mir import Module
from mirsym.core import Executor, Path, SymEnum, Agg, Ref
from mirsym import contracts

# minimum level of the diagnostics the property names (Note=1 Warn=2 Error=3 Fatal=4), as documented in parse/mod.rs
MIN_LEVEL = {
    'MissingEndTag': 2, 'IncompleteTag': 4, 'MissingExpressionEnd': 4, 'UnexpectedExpressionCharacter': 4, 'UnexpectedCharacter': 4,
    'InvalidAttributePrefix': 2, 'IllegalNamePrefix': 2, 'DuplicatedAttribute': 2, 'ChildNodesNotAllowed': 3, 'MissingSourcePath': 3,
    'MissingModuleName': 3, 'InvalidAttribute': 2, 'InvalidEndTag': 2, 'IllegalEntity': 3, 'IllegalEscapeSequence': 3,
    'UnmatchedBracket': 4, 'UnmatchedParenthesis': 4, 'IncompleteConditionExpression': 4, 'InvalidIdentifier': 4,
}


def m15b(res):
    src = os.path.join(common.TC, 'src', 'parse', 'mod.rs')
    kinds = rustsrc.enum_table(src, 'ParseErrorKind')
    levels = rustsrc.enum_table(src, 'ParseErrorLevel')
    mod = Module(common.mir_dump('tc'))
    fn = [n for n in mod.index if n.endswith('::level') and '_1: &ParseErrorKind' in mod.headers[n]]
    if len(fn) != 1:
        raise common.Inconclusive('ParseErrorKind::level not found in the MIR dump')
    exe = Executor(mod, contracts.TABLE, enums={r'ParseErrorKind$': kinds, r'ParseErrorLevel$': levels})
    k = z3.Int('kind')
    exe.base = [z3.Or([k == v for v in kinds.values()])]
    p = Path()
    p.store[('heap', 'kind')] = SymEnum('kind', 'ParseErrorKind', k, lambda var, i: None)
    done = exe.run(fn[0], [Ref(('heap', 'kind'))], p)
    res.solver_time += exe.stats['solver_time']
    for f in exe.findings:
        res.violation({'engine': 'M', 'harness': 'M15b', 'class': 'level-table'}, 'ParseErrorKind::level: %s' % f.kind, {})
    table = {}
    for q in done:
        if q.status != 'returned':
            continue
        lv = q.result
        lvn = lv.variant or lv.name
        for name, val in kinds.items():
            ok, _ = exe.check(exe.base + q.pc + [k == val])
            if ok:
                table[name] = levels[lvn]
    n = 0
    for name, val in kinds.items():
        n += 1
        if name not in table:
            res.query('sat')
            res.violation({'engine': 'M', 'harness': 'M15b', 'class': 'level-missing'}, 'diagnostic kind %s has no level' % name, {'kind': name})
            continue
        if name in MIN_LEVEL and table[name] < MIN_LEVEL[name]:
            res.query('sat')
            res.violation({'engine': 'M', 'harness': 'M15b', 'class': 'level-lowered:' + name},
                          'diagnostic %s has level %d, documented minimum %d' % (name, table[name], MIN_LEVEL[name]), {'kind': name})
        else:
            res.query('unsat')
    res.functions.append({'fn': 'ParseErrorKind::level', 'kinds': len(kinds), 'table': table})
    res.sample({'level_table': table})
    return n


DEFECTS = [
    # (template with one structural defect; %s = decoration inserted where children / content start)
    ('missing end tag', '<view>%s<text>a</text>'), ('unterminated tag', '<view %s'), ('unterminated binding', '<view>%s{{ a </view>'),
    ('trailing garbage in a binding', '<view>%s{{ a b }}</view>'), ('unknown wx: directive', '<view wx:nope="1">%s</view>'),
    ('unknown attribute prefix', '<view nope:x="1">%s</view>'), ('duplicated attribute', '<view a="1" a="2">%s</view>'),
    ('children under <include>', '<include src="b">%s<view/></include>'), ('children under <import>', '<import src="b">%s<view/></import>'),
    ('children under <template is>', '<template is="t">%s<view/></template>'), ('children under <slot>', '<slot>%s<view/></slot>'),
    ('text under <include>', '<include src="b">%stext</include>'),
    ('missing src', '<include>%s</include>'), ('missing module', '<wxs>%s</wxs>'), ('missing is / name', '<template>%s</template>'),
    ('wx:elif without wx:if', '<view wx:elif="{{ a }}">%s</view>'), ('wx:for-item without wx:for', '<view wx:for-item="x">%s</view>'),
]
DECORATIONS = ['', ' ', '<!-- c -->', '<!-- c -->\n ', '\n', '<!-- a --><!-- b -->']
CLEAN = ['<view a="1" b="{{ c }}">t{{ d }}<text>x</text><!-- c --></view>', '<block wx:for="{{ l }}" wx:key="k"><view wx:if="{{ a }}"/><view wx:else/></block>',
         '<include src="b"/><import src="c"/><template name="t"><slot name="n"/></template><template is="t" data="{{ {a} }}"/>',
         '<wxs module="m">var a = 1</wxs><view>{{ m.a }} &amp; &#65;</view>']


def defect_probe(res):
    """Supporting, NOT solver-decided (the clean / flagged half of C15 quantifies over whole-parser runs): each structural defect the property
    names, decorated with comments / whitespace where the content starts, must produce a diagnostic at Warn level or above; the clean
    templates must produce none.  A deviation is a concrete replayed input."""
    from jssym import driver
    cases = [(name, tmpl % (d if '<view %s' not in tmpl else '')) for name, tmpl in DEFECTS for d in DECORATIONS if not (d and '<view %s' in tmpl)]
    comp = driver.compile_batch([t for _, t in cases] + CLEAN, want=())
    nbad = 0
    for (name, t), c in zip(cases, comp):
        if 'panic' in c:
            continue
        if not any(d['level'] >= 2 for d in c.get('diagnostics', [])):
            nbad += 1
            if nbad == 1:
                res.violation({'engine': 'replay', 'harness': 'defect-probe', 'class': name}, 'structural defect "%s" is not diagnosed: %r produces %s' % (name, t, c.get('diagnostics')),
                              {'template': t})
    for t, c in zip(CLEAN, comp[len(cases):]):
        if any(d['level'] >= 2 for d in c.get('diagnostics', [])):
            res.violation({'engine': 'replay', 'harness': 'defect-probe', 'class': 'clean'}, 'a template that follows the documented syntax is diagnosed: %r -> %s' % (t, c['diagnostics'][:2]), {'template': t})
    res.coverage['defect_probe'] = {'defective_templates': len(cases), 'clean_templates': len(CLEAN), 'undiagnosed': nbad, 'note': 'concrete runs; supporting only'}
    res.coverage['traces_validated_against_impl'] = res.coverage.get('traces_validated_against_impl', 0) + len(cases) + len(CLEAN)


def main(tier):
    from kani import runner
    res = Result('C15', 'model_checking')
    res.engines = ['K (Kani harnesses on the ParseState primitives and Position ordering)', 'M (level table from MIR)']
    n = m15b(res)
    defect_probe(res)
    results = runner.run_for(res, 'C15', tier)
    checks = sum(r['checks'] for r in results)
    res.coverage.update({'states': max(1, checks), 'transitions': max(1, checks), 'traces_validated_against_impl': res.coverage.get('traces_validated_against_impl', 0),
                         'explanation': 'Kani: one inductive step of the position invariant per primitive from an arbitrary state (<= 4 UTF-8 bytes, any char-boundary cursor); '
                                        'engine M: level table with a symbolic kind', 'obligations': n + len(results)})
    res.bounds = {'text': '<= 4 arbitrary UTF-8 bytes (skip_bytes: "<newline|a><any scalar>")', 'unwinding': 'length + 2, unwinding assertions on'}
    res.assumptions = ['cur_index / line / utf16_col are written only by the primitives covered by the harnesses (ParseState fields are private to parse/mod.rs)',
                       'core::str::slice_error_fail stubbed to panic!()']
    res.outside = ['clean input produces no Warn+ diagnostic; every injected defect is flagged (whole-parser quantifier)', 'which location a given diagnostic gets']
    return res.finish()


def replay(path):
    print(open(path).read()[:2000])
    return 1
