// hooks for lib.rs of the template compiler (included under cfg(any(kani, glass_easel_verif)))
// public facade for the native replay CLI

pub fn get_var_name(id: usize) -> String {
    crate::proc_gen::verif::get_var_name(id)
}

pub fn parse_number(s: &str) -> (String, usize, usize) {
    crate::parse::expr::verif::parse_number(s)
}
