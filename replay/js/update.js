// C06 replay: create(D0); update(D1, U)  must render like  create(D1).
// stdin: {gen_object, runtime, names:[...], tries, seed}   stdout: {found: scenario|null, tried}
'use strict'
const input = JSON.parse(require('fs').readFileSync(0, 'utf8'))
const G = new Function(input.runtime + ';return (' + input.gen_object + ')')()

function mkSetters() {
  const s = {}
  for (const n of ['c', 'm', 'r', 'd', 'v', 'p', 'l', 'i', 'y', 's', 'a', 'wl']) {
    s[n] = function (node) { const args = Array.prototype.slice.call(arguments, 1); const key = n + ':' + (['c', 'y', 'i', 's'].includes(n) ? '' : String(args[0])); node.attrs[key] = args.map(show).join('|') }
  }
  s.setFnFilter = function () {}; s.setEventListenerWrapper = function () {}
  return s
}
function show(v) {
  if (typeof v === 'function') return 'fn'
  if (v === undefined) return 'undefined'
  if (typeof v === 'number' && Object.is(v, -0)) return '-0'
  try { return JSON.stringify(v, (k, x) => (typeof x === 'function' ? 'fn' : x === undefined ? '__undef' : x)) } catch (e) { return String(v) }
}
function run(tmplRes, node, isCreation, sv, st) {
  // runs DefineChildren `cb` against node.children (creating or updating in place)
}
function children(cb, parent, isCreation, env) {
  let idx = 0
  const make = (k, extra) => Object.assign({ k, attrs: {}, children: [] }, extra)
  const T = (text, init) => {
    if (isCreation) { const n = make('T', { text: text === undefined ? '' : String(text) }); parent.children.push(n); if (init) init(n) } else { const n = parent.children[idx++]; if (n && text !== undefined) n.text = String(text) }
  }
  const E = (tag, generics, init, ch, slot) => {
    if (isCreation) { const n = make('E', { tag }); parent.children.push(n); init(n, true); children(ch, n, true, env) } else { const n = parent.children[idx++]; if (!n) return; init(n, false); children(ch, n, false, env) }
  }
  const B = (key, f) => {
    if (isCreation) { const n = make('B', { key }); parent.children.push(n); children(f, n, true, env) } else {
      const n = parent.children[idx++]; if (!n) return
      if (n.key !== key) { n.key = key; n.children = []; children(f, n, true, env) } else children(f, n, false, env)
    }
  }
  const itemsOf = (list) => (Array.isArray(list) ? list.map((x, i) => [x, i]) : typeof list === 'string' ? Array.from(list).map((x, i) => [x, i]) : typeof list === 'number' ? Array.from({ length: Math.max(0, list | 0) }, (_, i) => [i, i]) : list && typeof list === 'object' ? Object.keys(list).map((k) => [list[k], k]) : [])
  const F = (list, key, tree, lpath, cb2) => {
    const items = itemsOf(list)
    const mk = (item, index) => { const c = make('FI', { index }); const sub = children((isC, T_, E_, B_, F_, S_, J_) => cb2(true, item, index, undefined, undefined, lpath ? [...lpath, index] : null, T_, E_, B_, F_, S_, J_), c, true, env); return c }
    if (isCreation) { const n = make('F', {}); parent.children.push(n); for (const [item, index] of items) n.children.push(mk(item, index)) } else {
      const n = parent.children[idx++]; if (!n) return
      const old = n.children
      const next = []
      // splice update (spliceArrayDataOnPath with a keyed list): the tree is Object.create([true, ...]) as tmpl/index.ts builds it; the
      // inserted items are created, the old items are moved: same item, unmarked item tree, index changed (index tree = true)
      const proto = tree && typeof tree === 'object' ? Object.getPrototypeOf(tree) : null
      if (Array.isArray(proto) && SPLICE.count > 0 && items.length === old.length + SPLICE.count) {
        for (let i = 0; i < items.length; i++) {
          const [item, index] = items[i]
          if (i < SPLICE.count) { next.push(mk(item, index)); continue }
          const c = old[i - SPLICE.count]
          const indexChanged = c.index !== index
          c.index = index
          children((isC, T_, E_, B_, F_, S_, J_) => cb2(false, item, index, tree[index], indexChanged ? true : undefined, lpath ? [...lpath, index] : null, T_, E_, B_, F_, S_, J_), c, false, env)
          next.push(c)
        }
        n.children = next
        return
      }
      for (let i = 0; i < items.length; i++) {
        const [item, index] = items[i]
        if (i < old.length) {
          const c = old[i]
          const u = tree === true || tree === undefined ? tree : tree[index]
          const indexChanged = c.index !== index
          c.index = index
          children((isC, T_, E_, B_, F_, S_, J_) => cb2(false, item, index, u, indexChanged ? true : undefined, lpath ? [...lpath, index] : null, T_, E_, B_, F_, S_, J_), c, false, env)
          next.push(c)
        } else next.push(mk(item, index))
      }
      n.children = next
    }
  }
  const S = (name, init, slot) => { if (isCreation) { const n = make('S', { name: name === undefined || name === null ? '' : String(name) }); parent.children.push(n); if (init) init(n) } else { const n = parent.children[idx++]; if (n && name !== undefined) n.name = String(name); if (n && init) init(n) } }
  const J = (ch, slot) => { if (isCreation) { const n = make('J', {}); parent.children.push(n); children(ch, n, true, env) } else { const n = parent.children[idx++]; if (n) children(ch, n, false, env) } }
  cb(isCreation, T, E, B, F, S, J, undefined, undefined)
}
function create(data) { const root = { k: 'ROOT', attrs: {}, children: [] }; const res = G('')(mkSetters(), true, data, undefined); children(res.C, root, true, {}); return root }
function update(root, data, tree) { const res = G('')(mkSetters(), false, data, tree); children(res.C, root, false, {}) }
function render(n) { return n.k + (n.tag ? ':' + n.tag : '') + (n.text !== undefined ? '=' + n.text : '') + (n.name !== undefined ? '~' + n.name : '') + (n.key !== undefined ? '#' + String(n.key) : '') + JSON.stringify(n.attrs) + '[' + n.children.map(render).join(',') + ']' }

const SPLICE = { count: 0 }
// ---- scenario search: D0 from a structured pool, one leaf change, exact / coarsened tree
let seed = input.seed || 1
const rnd = () => { seed = (seed * 1103515245 + 12345) & 0x7fffffff; return seed / 0x7fffffff }
const pick = (a) => a[Math.floor(rnd() * a.length)]
const obj = () => ({ k: { m: 1, j: 'x', x: 1, y: 2 }, j: 'x', x: 3, y: 4, f: (v) => v, sub: [{ k: 1, j: 'x', x: 1, y: 2 }, { k: 2, j: 'y', x: 5, y: 6 }], 0: 7, 1: 8 })
const pool = [() => 0, () => 1, () => 'x', () => 'y', () => true, () => false, obj, () => [{ k: 1, x: 1, y: 2, j: 'x', sub: [1, 2] }, { k: 2, x: 3, y: 4, j: 'y', sub: [3] }], () => null, () => undefined, () => (v) => v, () => (v) => (v ? 'x' : 'y'), () => (v) => ({ k: v, j: v, 0: v })]
function leafPaths(v, pre, out, depth) { if (depth > 3) return; out.push(pre); if (v && typeof v === 'object') for (const k of Object.keys(v)) leafPaths(v[k], pre.concat([k]), out, depth + 1) }
function clone(v) { if (Array.isArray(v)) return v.map(clone); if (v && typeof v === 'object') { const o = {}; for (const k of Object.keys(v)) o[k] = clone(v[k]); return o } return v }
function mutate(v) { if (typeof v === 'number') return v + 1; if (typeof v === 'string') return v === 'x' ? 'y' : 'x'; if (typeof v === 'boolean') return !v; if (v === null || v === undefined) return 1; if (typeof v === 'function') return (a) => 'z'; if (Array.isArray(v)) return v.concat([{ k: 9, x: 9, y: 9, j: 'x', sub: [] }]); return Object.assign(clone(v), { x: (v.x || 0) + 1, y: 0 }) }
let tried = 0, found = null
const names = input.names.concat(['list'])
for (let t = 0; t < (input.tries || 2000) && !found; t++) {
  const D0 = {}
  for (const n of names) D0[n] = n === 'list' ? pool[7]() : pick(pool)()
  const paths = []
  for (const n of names) leafPaths(D0[n], [n], paths, 0)
  const p = pick(paths)
  const D1 = clone(D0)
  // clone drops functions' identity only; fine
  for (const n of names) if (typeof D0[n] === 'function') D1[n] = D0[n]
  let cur = D1
  for (let i = 0; i < p.length - 1; i++) cur = cur[p[i]]
  if (cur === null || cur === undefined) continue
  cur[p[p.length - 1]] = mutate(cur[p[p.length - 1]])
  // exact tree, or coarsened at a random prefix
  const cut = rnd() < 0.5 ? p.length : 1 + Math.floor(rnd() * p.length)
  const U = {}
  let u = U
  for (let i = 0; i < cut; i++) { if (i === cut - 1) u[p[i]] = true; else { u[p[i]] = {}; u = u[p[i]] } }
  tried++
  let a, b
  try { const r0 = create(D0); update(r0, D1, U); a = render(r0); b = render(create(D1)) } catch (e) { continue }
  if (a !== b) found = { D0: show(D0), changed_path: p, tree: JSON.stringify(U), after_update: a, fresh_create: b }
}
// ---- second phase: splice scenarios (an item is inserted in front of a keyed list; the other items keep their values and trees but move)
for (let t = 0; t < 40 && !found; t++) {
  const D0 = {}
  for (const n of names) D0[n] = n === 'list' ? pool[7]() : pick(pool)()
  const D1 = clone(D0)
  for (const n of names) if (typeof D0[n] === 'function') D1[n] = D0[n]
  D1.list = [{ k: 7, x: 7, y: 7, j: 'y', sub: [7] }].concat(D0.list.map(clone))
  const U = { list: Object.create([true]) }
  tried++
  let a, b
  try { const r0 = create(D0); SPLICE.count = 1; update(r0, D1, U); SPLICE.count = 0; a = render(r0); b = render(create(D1)) } catch (e) { SPLICE.count = 0; continue }
  if (a !== b) found = { D0: show(D0), scenario: 'splice: one item inserted at index 0 of `list` (tree = Object.create([true]))', after_update: a, fresh_create: b }
}
console.log(JSON.stringify({ found, tried }))
