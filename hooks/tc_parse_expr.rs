// hooks for parse/expr.rs (included under cfg(any(kani, glass_easel_verif)))
#[allow(unused_imports)]
use super::*;

/// Run the crate-private `Expression::parse_number` on `s`.
/// Returns (debug print of the result, consumed bytes, number of warnings).
pub fn parse_number(s: &str) -> (String, usize, usize) {
    let mut ps = crate::parse::ParseState::new("", s, crate::parse::Position::default());
    let r = Expression::parse_number(&mut ps);
    let warnings = ps.warnings().count();
    let desc = match r.as_deref() {
        None => "None".to_string(),
        Some(Expression::LitInt { value, location }) => format!(
            "LitInt {} @{}:{}-{}:{}",
            value, location.start.line, location.start.utf16_col, location.end.line, location.end.utf16_col
        ),
        Some(Expression::LitFloat { value, location }) => format!(
            "LitFloat {:?} @{}:{}-{}:{}",
            value, location.start.line, location.start.utf16_col, location.end.line, location.end.utf16_col
        ),
        Some(_) => "Other".to_string(),
    };
    (desc, ps.cur_index, warnings)
}
