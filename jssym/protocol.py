"""Recorder runtime: executes a generated template object symbolically against the DefineChildren protocol and returns
the protocol-call tree (DESIGN 3.3 step 3).  Helper functions X Y Z P Q come from the real get_runtime_string()."""
import re
import z3

from .jsparse import JsUnsupported
from .interp import (Interp, Env, JObj, JArr, ArrLit, ObjLit, Closure, Native, CondVal, UNDEFINED, NULL, HOLE_PY, V, is_v, UNDEF, EMPTY)


class Node:
    def __init__(self, kind, pc, **kw):
        self.kind = kind
        self.pc = list(pc)
        self.children = []
        self.attrs = []
        self.__dict__.update(kw)

    def dump(self, ind=0):
        head = '%s%s %s' % ('  ' * ind, self.kind, {k: v for k, v in self.__dict__.items() if k not in ('kind', 'pc', 'children', 'attrs', 'closures')})
        out = [head + ('  pc=%d' % len(self.pc) if self.pc else '')]
        for a in self.attrs:
            out.append('%s  @%s %s' % ('  ' * ind, a[0], [str(x)[:60] for x in a[1]]))
        for c in self.children:
            out.append(c.dump(ind + 1))
        return '\n'.join(out)


def strip_wxs_loader(src):
    """`var D = (() => {...})()` (the hand-written WXS loader) -> modelled natively"""
    i = src.find('\nvar D = (() => {')
    if i < 0:
        return src
    j = src.find('\n})()\n', i)
    if j < 0:
        raise JsUnsupported('WXS loader text changed')
    return src[:i] + '\nvar D=__WXS_LOADER__\n' + src[j + len('\n})()\n'):]


class Runtime:
    def __init__(self, mode='create', scope_hint=''):
        self.it = Interp()
        self.mode = mode              # 'create' | 'update'
        self.root = Node('ROOT', [])
        self.fresh_n = 0
        self.scopes = []              # symbolic scope values introduced by F / slots (for reporting)
        self.binding_closures = []

    def fresh(self, name):
        self.fresh_n += 1
        return z3.Const('%s_%d' % (name, self.fresh_n), V)

    # ---------------------------------------------------------------- globals
    def globals(self):
        it = self.it

        def obj_create(it_, this, args):
            o = JObj()
            o.null_proto = True
            return o

        def obj_assign(it_, this, args):
            tgt = args[0]
            srcs = args[1:]
            if isinstance(tgt, Closure):
                o = JObj({'__call__': tgt})
                for s in srcs:
                    for k in s.order:
                        o.set(k, s.props[k])
                return o
            if isinstance(tgt, JObj) and all(isinstance(s, JObj) for s in srcs):
                # plain objects of the generated code (template tables): concrete merge
                if all(not is_v(v) for s in [tgt] + list(srcs) for v in s.props.values()) or tgt.tag == 'tmpl':
                    for s in srcs:
                        for k in s.order:
                            tgt.set(k, s.props[k])
                    return tgt
            # data-level object literal with spreads: canonical segments
            segs = []
            for s in [tgt] + list(srcs):
                if isinstance(s, JObj):
                    segs.append(('props', [(k, s.props[k]) for k in s.order]))
                elif isinstance(s, ObjLit):
                    segs += s.segs
                else:
                    segs.append(('spread', s))
            return ObjLit(segs)

        def obj_values(it_, this, args):
            o = args[0]
            if isinstance(o, JObj):
                return JArr([o.props[k] for k in o.order])
            if isinstance(o, ObjLit):
                # Q.b(Object.assign({b:U.b}, X(U.o), {})): values of the known props + "any value of the spread"
                items = []
                for kind, x in o.segs:
                    if kind == 'props':
                        items += [v for _, v in x]
                    else:
                        items.append(('anyvalue', x))
                return JArr(items)
            raise JsUnsupported('Object.values of %r' % (o,))
        Object = JObj({'create': Native('Object.create', obj_create), 'assign': Native('Object.assign', obj_assign),
                       'values': Native('Object.values', obj_values)})

        def string_fn(it_, this, args):
            from .interp import tostr, StrCat
            if isinstance(args[0], (str, StrCat)):
                return args[0]
            return tostr(it_.term(args[0]))

        def wxs_loader(it_, this, args):
            # D(path, (require, exports, module)=>{...}) -> () => module object (opaque symbolic value per module)
            name = args[0]
            mod = z3.Const('wxs_' + re.sub(r'\W', '_', str(name)), V)
            return Native('wxs_module', lambda it2, this2, a2, _m=mod: _m)
        return {'Object': Object, 'String': Native('String', string_fn), '__WXS_LOADER__': Native('D', wxs_loader), 'Array': Native('Array', None)}

    # ---------------------------------------------------------------- protocol natives
    def children_natives(self, parent, C):
        it = self.it
        rt = self

        def T(it_, this, args):
            n = Node('T', it.pc, text=args[0] if args else UNDEFINED)
            n.parent = parent
            parent.children.append(n)
            if len(args) > 1 and isinstance(args[1], Closure) and rt.mode == 'create':
                tok = JObj(tag='N')
                tok.node = n
                it.call(args[1], [tok])
            return UNDEFINED

        def E(it_, this, args):
            tag, generics, init, children = args[0], args[1], args[2], args[3]
            n = Node('E', it.pc, tag=tag, generics=generics, slot=args[4] if len(args) > 4 else UNDEFINED,
                     slot_value_names=args[5] if len(args) > 5 else UNDEFINED)
            n.parent = parent
            parent.children.append(n)
            tok = JObj(tag='N')
            tok.node = n
            it.call(init, [tok, C])
            rt.run_children(children, n, C)
            return UNDEFINED

        def B(it_, this, args):
            n = Node('B', it.pc, key=args[0])
            n.parent = parent
            parent.children.append(n)
            rt.run_children(args[1], n, C)
            return UNDEFINED

        def F(it_, this, args):
            lst, key, tree, lpath, cb = args[0], args[1], args[2], args[3], args[4]
            n = Node('F', it.pc, list=lst, key=key, tree=tree, lvalue=lpath)
            n.parent = parent
            parent.children.append(n)
            item, index = rt.fresh('item'), rt.fresh('index')
            if rt.mode == 'create':
                itree, xtree = UNDEFINED, UNDEFINED
            else:
                itree, xtree = rt.fresh('itemtree'), rt.fresh('indextree')
            def item_path(lp):
                # runtime contract: lvaluePath ? [...lvaluePath, index] : null
                if isinstance(lp, JArr):
                    return JArr(list(lp.items) + [index])
                if lp is NULL or lp is UNDEFINED:
                    return NULL
                if isinstance(lp, CondVal):
                    return CondVal(lp.c, item_path(lp.a), item_path(lp.b))
                return ('itempath', lp, index)
            ilv = item_path(lpath)
            n.item, n.index, n.item_tree, n.index_tree, n.item_lvalue = item, index, itree, xtree, ilv
            nat = rt.children_natives(n, C)
            it.call(cb, [C, item, index, itree, xtree, ilv, nat['T'], nat['E'], nat['B'], nat['F'], nat['S'], nat['J']])
            return UNDEFINED

        def S(it_, this, args):
            n = Node('S', it.pc, name=args[0] if args else UNDEFINED, slot=args[2] if len(args) > 2 else UNDEFINED)
            n.parent = parent
            parent.children.append(n)
            if len(args) > 1 and isinstance(args[1], Closure):
                tok = JObj(tag='N')
                tok.node = n
                it.call(args[1], [tok])
            return UNDEFINED

        def J(it_, this, args):
            n = Node('J', it.pc, slot=args[1] if len(args) > 1 else UNDEFINED)
            n.parent = parent
            parent.children.append(n)
            rt.run_children(args[0], n, C)
            return UNDEFINED
        return {k: Native(k, f) for k, f in (('T', T), ('E', E), ('B', B), ('F', F), ('S', S), ('J', J))}

    def run_children(self, cb, node, C, slot_values=None, slot_trees=None):
        nat = self.children_natives(node, C)
        if slot_values is None:
            # a component's children may read slot values: V = symbolic object, W = its update trees
            slot_values = self.fresh('slotvalues')
            slot_trees = UNDEFINED if self.mode == 'create' else self.fresh('slottrees')
            node.slot_values, node.slot_trees = slot_values, slot_trees
        self.it.call(cb, [C, nat['T'], nat['E'], nat['B'], nat['F'], nat['S'], nat['J'], slot_values, slot_trees])

    def wrapper(self):
        it = self.it

        def setter(name):
            def f(it_, this, args):
                tok = args[0]
                node = getattr(tok, 'node', None)
                if node is None:
                    raise JsUnsupported('setter %s on a non-node' % name)
                node.attrs.append((name, args[1:], list(it.pc)))
                return UNDEFINED
            return Native('R.' + name, f)
        names = ['c', 'm', 'r', 'd', 'v', 'p', 'l', 'i', 'y', 's', 'a', 'wl']
        R = JObj({n: setter(n) for n in names})
        R.set('setFnFilter', Native('setFnFilter', lambda it_, this, args: UNDEFINED))
        R.set('setEventListenerWrapper', Native('setEventListenerWrapper', lambda it_, this, args: UNDEFINED))
        return R

    # ---------------------------------------------------------------- entry
    def load(self, gen_object_src, runtime_src):
        """evaluate the runtime helpers and the template object; returns the table H of template functions"""
        g = self.globals()
        _, env = self.it.run_program(strip_wxs_loader(runtime_src), g)
        g2 = dict(g)
        for name in ('X', 'Y', 'Z', 'P', 'Q', 'D'):
            if name in env.vars:
                g2[name] = env.vars[name]
        self.helper_env = g2
        val, _ = self.it.run_program(gen_object_src, g2)
        if not isinstance(val, JObj) or '_' not in val.props:
            raise JsUnsupported('template object has an unexpected shape')
        H = val.props['_']
        self.template_calls = []
        for name in list(H.order):
            f = H.props[name]
            if isinstance(f, Closure):
                def wrap(it_, this, args, _f=f, _n=name):
                    self.template_calls.append((_n, args[2] if len(args) > 2 else UNDEFINED, args[3] if len(args) > 3 else UNDEFINED, list(it_.pc)))
                    return it_.call(_f, args)
                H.props[name] = Native('template:' + name, wrap)
        return H

    def load_groups(self, groups_src, main):
        """evaluate the all-templates bundle `(()=>{var G={};...;return G})()` and return the template table of `main`"""
        g = self.globals()
        val, _ = self.it.run_program(strip_wxs_loader(groups_src), g)
        if not isinstance(val, JObj) or main not in val.props:
            raise JsUnsupported('group bundle has an unexpected shape')
        t = val.props[main]
        if not isinstance(t, JObj) or '_' not in t.props:
            raise JsUnsupported('template object has an unexpected shape')
        H = t.props['_']
        self.template_calls = []
        return H

    def run(self, H, name='', data=None, tree=None):
        tmpl = H.props.get(name)
        if not isinstance(tmpl, (Closure, Native)):
            raise JsUnsupported('no template %r' % name)
        D = data if data is not None else z3.Const('D', V)
        C = self.mode == 'create'
        U = UNDEFINED if C else (tree if tree is not None else z3.Const('U', V))
        self.D, self.U = D, U
        R = self.wrapper()
        res = self.it.call(tmpl, [R, C, D, U])
        if not isinstance(res, JObj) or 'C' not in res.props:
            raise JsUnsupported('template function result has an unexpected shape')
        self.binding_map = res.props.get('B', UNDEFINED)
        self.run_children(res.props['C'], self.root, C)
        return self.root
