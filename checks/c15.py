"""C15 - diagnostics: locations valid, levels as documented (kernel level).

K16a/K15c (Kani): every Position the parser can hand to add_warning is ParseState::position() at some cursor; the position
invariant (cursor on a char boundary, (line, col) = recomputation from the consumed text, restored by a failing try_parse)
holds for every primitive from every state within the bound, and Position ordering is lexicographic.
M15b (engine M): ParseErrorKind::level executed from MIR with a symbolic kind: every kind has a level, and the kinds the
property lists as structural defects map to at least the documented level.
"Clean input is clean / every injected defect is flagged" quantifies over whole-parser runs and is outside.
"""
import json
import os
import z3

from lib import common, rustsrc
from lib.common import Result, log
from mirsym.mir import Module
from mirsym.core import Executor, Path, SymEnum, Agg, Ref
from mirsym import contracts

# minimum level of the diagnostics the property names (Note=1 Warn=2 Error=3 Fatal=4), as documented in parse/mod.rs
MIN_LEVEL = {
    'MissingEndTag': 2, 'IncompleteTag': 4, 'MissingExpressionEnd': 4, 'UnexpectedExpressionCharacter': 4, 'UnexpectedCharacter': 4,
    'InvalidAttributePrefix': 2, 'IllegalNamePrefix': 2, 'DuplicatedAttribute': 2, 'ChildNodesNotAllowed': 3, 'MissingSourcePath': 3,
    'MissingModuleName': 3, 'InvalidAttribute': 2, 'InvalidEndTag': 2, 'IllegalEntity': 3, 'IllegalEscapeSequence': 3,
    'UnmatchedBracket': 4, 'UnmatchedParenthesis': 4, 'IncompleteConditionExpression': 4, 'InvalidIdentifier': 4,
}


def m15b(res):
    src = os.path.join(common.TC, 'src', 'parse', 'mod.rs')
    kinds = rustsrc.enum_table(src, 'ParseErrorKind')
    levels = rustsrc.enum_table(src, 'ParseErrorLevel')
    mod = Module(common.mir_dump('tc'))
    fn = [n for n in mod.index if n.endswith('::level') and '_1: &ParseErrorKind' in mod.headers[n]]
    if len(fn) != 1:
        raise common.Inconclusive('ParseErrorKind::level not found in the MIR dump')
    exe = Executor(mod, contracts.TABLE, enums={r'ParseErrorKind$': kinds, r'ParseErrorLevel$': levels})
    k = z3.Int('kind')
    exe.base = [z3.Or([k == v for v in kinds.values()])]
    p = Path()
    p.store[('heap', 'kind')] = SymEnum('kind', 'ParseErrorKind', k, lambda var, i: None)
    done = exe.run(fn[0], [Ref(('heap', 'kind'))], p)
    res.solver_time += exe.stats['solver_time']
    for f in exe.findings:
        res.violation({'engine': 'M', 'harness': 'M15b', 'class': 'level-table'}, 'ParseErrorKind::level: %s' % f.kind, {})
    table = {}
    for q in done:
        if q.status != 'returned':
            continue
        lv = q.result
        lvn = lv.variant or lv.name
        for name, val in kinds.items():
            ok, _ = exe.check(exe.base + q.pc + [k == val])
            if ok:
                table[name] = levels[lvn]
    n = 0
    for name, val in kinds.items():
        n += 1
        if name not in table:
            res.query('sat')
            res.violation({'engine': 'M', 'harness': 'M15b', 'class': 'level-missing'}, 'diagnostic kind %s has no level' % name, {'kind': name})
            continue
        if name in MIN_LEVEL and table[name] < MIN_LEVEL[name]:
            res.query('sat')
            res.violation({'engine': 'M', 'harness': 'M15b', 'class': 'level-lowered:' + name},
                          'diagnostic %s has level %d, documented minimum %d' % (name, table[name], MIN_LEVEL[name]), {'kind': name})
        else:
            res.query('unsat')
    res.functions.append({'fn': 'ParseErrorKind::level', 'kinds': len(kinds), 'table': table})
    res.sample({'level_table': table})
    return n


DEFECTS = [
    # (template with one structural defect; %s = decoration inserted where children / content start)
    ('missing end tag', '<view>%s<text>a</text>'), ('unterminated tag', '<view %s'), ('unterminated binding', '<view>%s{{ a </view>'),
    ('trailing garbage in a binding', '<view>%s{{ a b }}</view>'), ('unknown wx: directive', '<view wx:nope="1">%s</view>'),
    ('unknown attribute prefix', '<view nope:x="1">%s</view>'), ('duplicated attribute', '<view a="1" a="2">%s</view>'),
    ('children under <include>', '<include src="b">%s<view/></include>'), ('children under <import>', '<import src="b">%s<view/></import>'),
    ('children under <template is>', '<template is="t">%s<view/></template>'), ('children under <slot>', '<slot>%s<view/></slot>'),
    ('text under <include>', '<include src="b">%stext</include>'),
    ('missing src', '<include>%s</include>'), ('missing module', '<wxs>%s</wxs>'), ('missing is / name', '<template>%s</template>'),
    ('wx:elif without wx:if', '<view wx:elif="{{ a }}">%s</view>'), ('wx:for-item without wx:for', '<view wx:for-item="x">%s</view>'),
]
DECORATIONS = ['', ' ', '<!-- c -->', '<!-- c -->\n ', '\n', '<!-- a --><!-- b -->']
CLEAN = ['<view a="1" b="{{ c }}">t{{ d }}<text>x</text><!-- c --></view>', '<block wx:for="{{ l }}" wx:key="k"><view wx:if="{{ a }}"/><view wx:else/></block>',
         '<include src="b"/><import src="c"/><template name="t"><slot name="n"/></template><template is="t" data="{{ {a} }}"/>',
         '<wxs module="m">var a = 1</wxs><view>{{ m.a }} &amp; &#65;</view>']


def defect_probe(res):
    """Supporting, NOT solver-decided (the clean / flagged half of C15 quantifies over whole-parser runs): each structural defect the property
    names, decorated with comments / whitespace where the content starts, must produce a diagnostic at Warn level or above; the clean
    templates must produce none.  A deviation is a concrete replayed input."""
    from jssym import driver
    cases = [(name, tmpl % (d if '<view %s' not in tmpl else '')) for name, tmpl in DEFECTS for d in DECORATIONS if not (d and '<view %s' in tmpl)]
    comp = driver.compile_batch([t for _, t in cases] + CLEAN, want=())
    nbad = 0
    for (name, t), c in zip(cases, comp):
        if 'panic' in c:
            continue
        if not any(d['level'] >= 2 for d in c.get('diagnostics', [])):
            nbad += 1
            if nbad == 1:
                res.violation({'engine': 'replay', 'harness': 'defect-probe', 'class': name}, 'structural defect "%s" is not diagnosed: %r produces %s' % (name, t, c.get('diagnostics')),
                              {'template': t})
    for t, c in zip(CLEAN, comp[len(cases):]):
        if any(d['level'] >= 2 for d in c.get('diagnostics', [])):
            res.violation({'engine': 'replay', 'harness': 'defect-probe', 'class': 'clean'}, 'a template that follows the documented syntax is diagnosed: %r -> %s' % (t, c['diagnostics'][:2]), {'template': t})
    res.coverage['defect_probe'] = {'defective_templates': len(cases), 'clean_templates': len(CLEAN), 'undiagnosed': nbad, 'note': 'concrete runs; supporting only'}
    res.coverage['traces_validated_against_impl'] = res.coverage.get('traces_validated_against_impl', 0) + len(cases) + len(CLEAN)


def m15d(res, tier):
    """M15d (clean input is not flagged, number-literal kernel): `Expression::parse_number` from MIR over every well-formed decimal literal
    `d{k} . d{m}` (k up to 21 digits - beyond i64 -, m <= 2) and `d{k}`: the scanner accepts it (returns an expression, consumes all of it,
    raises no diagnostic).  `str::parse::<f64>` is the environment; its Err answer on a well-formed literal is excluded (core is trusted)."""
    import z3
    from mirsym.mir import Module
    from mirsym import targets
    from mirsym.core import Agg
    mod = Module(common.mir_dump('tc'))
    nq = 0
    bad = []
    shapes = [(1, 1), (3, 2), (19, 1), (20, 1), (21, 2), (20, 0)] if tier != 'thorough' else [(k, m) for k in (1, 2, 18, 19, 20, 21, 22) for m in (0, 1, 2)]
    for k, m in shapes:
        L = k + (1 + m if m else 0)
        ex = []

        def base(inp_chars):
            cs = []
            for i in range(L):
                c = inp_chars[i]
                if i == k and m:
                    cs.append(c == 46)
                elif i == 0 and k > 1:
                    cs.append(z3.And(c >= 49, c <= 57))      # no leading zero (that is the legacy octal form)
                else:
                    cs.append(z3.And(c >= 48, c <= 57))
            return cs
        # run_ps_client builds the Input: constrain through a wrapper that knows the char variables
        from mirsym import ps_env
        orig = ps_env.Input.base

        def patched(self, ascii_only=True):
            return orig(self, ascii_only=ascii_only) + base(self.chars) + [self.n == L]
        ps_env.Input.base = patched
        try:
            exe, inp, fn, done = targets.run_ps_client(mod, r'376:1: 376:16>::parse_number$', L)
        finally:
            ps_env.Input.base = orig
        res.solver_time += exe.stats['solver_time']
        rets = [q for q in done if q.status == 'returned']
        if not rets:
            res.inconc('M15d %d.%d: no returning path' % (k, m))
        for f in exe.findings:
            bad.append(('exec:' + f.kind, inp.string_of(f.model) if f.model is not None else None))
        for q in rets:
            idx, warns, _ = q.env['ps']
            r = q.result
            none = isinstance(r, Agg) and r.variant == 'None'
            f64_err = any(e[0] == 'parse_f64' and e[-1] is None for e in q.events)      # environment: dec2flt refuses the slice (excluded: core is trusted on well-formed literals)
            if f64_err:
                continue
            if (none or warns or idx != L):
                okm, model = exe.check(exe.base + q.pc, want_model=True)
                nq += 1
                res.query('sat' if okm else 'unsat')
                if okm:
                    bad.append(('rejected' if none or warns else 'partly-consumed', inp.string_of(model)))
            else:
                nq += 1
                res.query('unsat')
        res.functions.append({'fn': 'Expression::parse_number (clean decimal literals)', 'shape': '%d digits%s' % (k, ' . %d digits' % m if m else ''), 'paths': len(done)})
    log('[C15] M15d: %d obligations over %d literal shapes, %d candidate rejections' % (nq, len(shapes), len(bad)))
    seen = set()
    for cls, lit in bad:
        if cls in seen or not lit:
            continue
        seen.add(cls)
        # replay: the literal in a binding must compile without a Warn+ diagnostic
        from jssym import driver
        c = driver.compile_batch(['<v a="{{ %s }}">{{ %s }}</v>' % (lit, lit)], want=('gen_object',))[0]
        res.coverage['traces_validated_against_impl'] = res.coverage.get('traces_validated_against_impl', 0) + 1
        diag = [d for d in c.get('diagnostics', []) if d['level'] >= 2] if 'panic' not in c else [{'kind': 'panic: ' + c['panic']}]
        if diag:
            res.violation({'engine': 'M', 'harness': 'M15d', 'class': cls}, 'the well-formed template {{ %s }} is flagged: %s' % (lit, diag[0].get('kind')), {'literal': lit})
        else:
            # e.g. the model's "parse::<f64> fails" branch: not reproducible, and not a claim about core
            res.coverage.setdefault('m15d_unreproduced', []).append([cls, lit])
    return nq


def main(tier):
    from kani import runner
    res = Result('C15', 'model_checking')
    res.engines = ['K (Kani harnesses on the ParseState primitives and Position ordering)', 'M (level table from MIR)']
    n = m15b(res)
    n += m15d(res, tier)
    defect_probe(res)
    results = runner.run_for(res, 'C15', tier)
    checks = sum(r['checks'] for r in results)
    res.coverage.update({'states': max(1, checks), 'transitions': max(1, checks), 'traces_validated_against_impl': res.coverage.get('traces_validated_against_impl', 0),
                         'explanation': 'Kani: one inductive step of the position invariant per primitive from an arbitrary state (<= 4 UTF-8 bytes, any char-boundary cursor); '
                                        'engine M: level table with a symbolic kind', 'obligations': n + len(results)})
    res.bounds = {'text': '<= 4 arbitrary UTF-8 bytes (skip_bytes: "<newline|a><any scalar>")', 'unwinding': 'length + 2, unwinding assertions on'}
    res.assumptions = ['cur_index / line / utf16_col are written only by the primitives covered by the harnesses (ParseState fields are private to parse/mod.rs)',
                       'core::str::slice_error_fail stubbed to panic!()']
    res.outside = ['clean input produces no Warn+ diagnostic (decided only for decimal number literals, M15d); every injected defect is flagged (whole-parser quantifier)', 'which location a given diagnostic gets']
    return res.finish()


def replay(path):
    print(open(path).read()[:2000])
    return 1
