"""Reusable engine-M runs on template-compiler kernels (shared by C01, C03, C12, C16)."""
import re
import z3

from .mir import Module, MirUnsupported
from .core import Executor, Path, Agg, Ref, SymEnum, Inconclusive
from . import contracts, ps_env


TC_ENUMS = {}


def run_ps_client(mod, fn_pattern, L, family=None, ascii_only=True, max_visits=None, extra_base=(), timeout_ms=20000,
                  extra_contracts=(), merge=True):
    """Execute a `fn(&mut ParseState) -> T` kernel on a symbolic input of at most L characters.
    family: optional list of per-position constraints builders (lambda c -> z3 Bool) / fixed prefix string."""
    inp = ps_env.Input(L)
    table, call_closure = ps_env.make_table(inp)
    exe = Executor(mod, list(extra_contracts) + table + contracts.TABLE, max_visits=max_visits or (L + 3), enums=TC_ENUMS,
                   timeout_ms=timeout_ms)
    exe.base = inp.base(ascii_only=ascii_only) + list(extra_base)
    exe.merge = merge
    if family is not None:
        prefix, cls = family
        for i, ch in enumerate(prefix):
            exe.base.append(inp.chars[i] == ord(ch))
        if cls is not None:
            for c in inp.chars[len(prefix):]:
                exe.base.append(cls(c))
    fn = mod.find(fn_pattern)
    p = Path()
    p.env['ps'] = (0, 0, None)
    p.store[('heap', 'ps')] = Agg('ParseState')
    done = exe.run(fn.name, [Ref(('heap', 'ps'))], p)
    return exe, inp, fn, done


def alnum(c):
    return z3.Or(z3.And(c >= 48, c <= 57), z3.And(c >= 97, c <= 122), z3.And(c >= 65, c <= 90))


def digit(c):
    return z3.And(c >= 48, c <= 57)


def hexdigit(c):
    return z3.Or(z3.And(c >= 48, c <= 57), z3.And(c >= 97, c <= 102), z3.And(c >= 65, c <= 70))


def octdigit(c):
    return z3.And(c >= 48, c <= 55)
