"""C11 - emitted l-value paths address exactly the value the expression reads.

Engine J: the emitted path argument (4th argument of the property setter for `model:`, 4th argument of F for wx:for
lists, last argument of R.v / R.p for script references) is evaluated symbolically to a key sequence and z3 decides, for
all data / indices / conditions, that it equals the key sequence of the model expression's access chain (through wx:for
items by the runtime contract item path = list path ++ [index]; through ?: as ite); non-assignable expressions must
carry no path.  Equality of key sequences is get-put.
"""
import json
import random
import time
import z3

from lib import common
from lib.common import Result, log
from jssym import model as M, driver, guards
from jssym.model import L
from jssym.jsparse import JsUnsupported
from jssym.protocol import Runtime
from jssym.interp import (V, UNDEFINED, NULL, UNDEF, NULLV, is_v, JArr, ArrLit, CondVal, HOLE_PY, arr_push, ARR_EMPTY)

a, b, c, d = ('id', 'a'), ('id', 'b'), ('id', 'c'), ('id', 'd')


def esc(s):
    return s.replace('&', '&amp;').replace('"', '&quot;').replace('<', '&lt;')


def chains(root):
    return [root, ('mem', root, 'x'), ('mem', ('mem', root, 'x'), 'y'), ('idx', root, b), ('idx', ('mem', root, 'x'), ('mem', b, 'k')),
            ('mem', ('idx', root, L('int', '0', 0)), 'y'), ('idx', ('idx', root, b), c), ('idx', root, L('str', "'s t'", 's t'))]


def non_assignable(root):
    return [('bin', '+', root, L('int', '1', 1)), L('int', '5', 5), L('str', "'s'", 's'), ('call', ('mem', root, 'f'), []), ('un', '!', root),
            ('arr', [root]), ('mem', ('call', root, [b]), 'x'), ('bin', '||', ('mem', root, 'x'), b)]


def programs(tier):
    progs = []
    for e in chains(a) + non_assignable(a) + [('cond', c, ('mem', a, 'x'), ('mem', b, 'y')), ('cond', c, ('mem', a, 'x'), L('int', '1', 1)),
                                              ('cond', ('mem', c, 'k'), ('idx', a, d), b)]:
        progs.append({'wxml': '<input model:value="{{ %s }}"/>' % esc(M.pr(e)), 'site': 'model', 'expr': e, 'env': {}})
    # a conditional with a tail: `(c ? a : b).z` is the path of `a.z` or of `b.z` (also nested conditionals and dynamic tails)
    ck = ('cond', c, a, b)
    for e in [('mem', ck, 'z'), ('idx', ('mem', ck, 'rows'), d), ('mem', ('idx', ck, d), 'w'), ('mem', ('cond', c, ('mem', a, 'x'), b), 'z'),
              ('mem', ('cond', c, ('cond', d, a, b), ('id', 'e')), 'z'), ('mem', ('cond', c, a, ('cond', d, b, ('id', 'e'))), 'z')]:
        progs.append({'wxml': '<input model:value="{{ %s }}"/>' % esc(M.pr(e)), 'site': 'model', 'expr': e, 'env': {}})
    # wx:for lists and items
    for le in chains(('id', 'l')) + [('call', ('id', 'f'), [a]), ('arr', [a, b]), ('cond', c, ('mem', ('id', 'l'), 'x'), ('id', 'm')),
                                     ('mem', ('cond', c, ('id', 'l'), ('id', 'm')), 'list')]:
        for ie in [('id', 'item'), ('mem', ('id', 'item'), 'x'), ('idx', ('id', 'item'), a), ('id', 'index'), ('bin', '+', ('id', 'item'), L('int', '1', 1))]:
            progs.append({'wxml': '<block wx:for="{{ %s }}"><input model:value="{{ %s }}"/></block>' % (esc(M.pr(le)), esc(M.pr(ie))),
                          'site': 'for+model', 'list': le, 'expr': ie, 'env': {}})
    # a list that is a data path in one branch and a script-module member in the other: the compiler may drop the path altogether
    # ("cannot decide"), but whatever it emits must be right in both branches
    for le in [('cond', c, ('id', 'l'), ('mem', ('id', 'm'), 'list')), ('cond', c, ('mem', ('id', 'm'), 'list'), ('mem', ('id', 'l'), 'x'))]:
        for ie in [('mem', ('id', 'item'), 'x'), ('id', 'item')]:
            progs.append({'wxml': '<wxs module="m">module.exports={list:[1]}</wxs><block wx:for="{{ %s }}"><input model:value="{{ %s }}"/></block>' % (esc(M.pr(le)), esc(M.pr(ie))),
                          'site': 'for+model', 'list': le, 'expr': ie, 'env': {}, 'script': True, 'allow_absent': True})
    # nested loops
    for inner in [('mem', ('id', 'item'), 'sub'), ('idx', ('id', 'item'), a), ('id', 'item'), ('mem', ('id', 'q'), 'r')]:
        for ie in [('id', 'j'), ('mem', ('id', 'j'), 'y'), ('mem', ('id', 'item'), 'x'), ('idx', ('id', 'j'), ('id', 'index'))]:
            progs.append({'wxml': '<block wx:for="{{ l.m }}"><block wx:for="{{ %s }}" wx:for-item="j" wx:for-index="k"><input model:value="{{ %s }}"/></block></block>'
                          % (esc(M.pr(inner)), esc(M.pr(ie))), 'site': 'for2+model', 'list': ('mem', ('id', 'l'), 'm'), 'list2': inner, 'expr': ie, 'env': {}})
    # script references and data handlers in event / change bindings
    for e in [('mem', ('id', 'm'), 'f'), ('mem', ('mem', ('id', 'm'), 'o'), 'g'), ('id', 'm'), ('mem', a, 'f'), ('bin', '||', ('mem', ('id', 'm'), 'f'), a)]:
        progs.append({'wxml': '<wxs module="m">module.exports={f:1}</wxs><view bind:tap="{{ %s }}" change:p="{{ %s }}"/>' % (esc(M.pr(e)), esc(M.pr(e))),
                      'site': 'script', 'expr': e, 'env': {}})
    return progs


def enc(it, p):
    """path value -> V term (None/absent -> Null; sequences -> arr_push chain; conditionals -> ite)"""
    if p is None:
        return NULLV
    if isinstance(p, tuple) and p and p[0] == 'cond':
        return z3.If(p[1], enc(it, p[2]), enc(it, p[3]))
    acc = ARR_EMPTY
    for x in p:
        acc = arr_push(acc, it.term(x))
    return acc


def emitted_path(it, v):
    if v is UNDEFINED or v is NULL or v is None:
        return None
    if isinstance(v, JArr):
        # an elision in a path array is a segment `undefined` (never the path of anything): compared like any other wrong segment
        return [UNDEFINED if x is HOLE_PY else x for x in v.items]
    if isinstance(v, ArrLit):
        if len(v.segs) == 1 and v.segs[0][0] == 'elems':
            return list(v.segs[0][1])
        if not v.segs:
            return []
        raise JsUnsupported('path array with a symbolic spread: %r' % (v,))
    if isinstance(v, CondVal):
        return ('cond', v.c, emitted_path(it, v.a), emitted_path(it, v.b))
    if isinstance(v, tuple) and v and v[0] == 'itempath':
        raise JsUnsupported('item path derived from a non-literal list path')
    raise JsUnsupported('unexpected path value %r' % (v,))


class RefPaths:
    def __init__(self, it, ref, env):
        self.it, self.ref, self.env = it, ref, env     # env: name -> ('item', general path list | None) | ('index',) | ('script', path, module)

    def general(self, e):
        """general l-value path of e (prefix 0 for data, 2/path/module for script members) or None"""
        it = self.it
        k = e[0]
        if k == 'id':
            n = e[1]
            if n in self.env:
                kind = self.env[n]
                if kind[0] == 'item':
                    return kind[1]
                if kind[0] == 'script':
                    return [2, kind[1], kind[2]]     # names the module
                return None
            return [0, n]
        if k == 'mem':
            p = self.general(e[1])
            return None if p is None else append(p, e[2])
        if k == 'idx':
            p = self.general(e[1])
            return None if p is None else append(p, self.ref.ev(e[2]))
        if k == 'cond':
            pa, pb = self.general(e[2]), self.general(e[3])
            if pa is None and pb is None:
                return None
            cv = it.truthy(self.ref.ev(e[1]))
            if isinstance(cv, bool):
                return pa if cv else pb
            return ('cond', cv, pa, pb)
        return None

    def model(self, e):
        """model path: the general path of a data-rooted chain without its 0 prefix"""
        p = self.general(e)
        return self.strip(p)

    def strip(self, p):
        if p is None:
            return None
        if isinstance(p, tuple) and p[0] == 'cond':
            return ('cond', p[1], self.strip(p[2]), self.strip(p[3]))
        if p and p[0] == 0:
            return list(p[1:])
        return None                     # script-rooted values cannot be written through model:


def main(tier):
    res = Result('C11', 'translation_validation')
    res.engines = ['J (symbolic evaluation of the emitted path expressions + z3)']
    progs = programs(tier)
    comp = driver.compile_batch([p['wxml'] for p in progs], want=('gen_object', 'runtime'))
    nsites = 0
    bad = {}
    for p, cmp_ in zip(progs, comp):
        if 'panic' in cmp_:
            res.violation({'engine': 'J', 'harness': 'compile', 'class': 'panic'}, 'compiler panics on %r: %s' % (p['wxml'], cmp_['panic']), {'wxml': p['wxml']})
            continue
        if any(dg['level'] >= 3 for dg in cmp_['diagnostics']):
            res.coverage.setdefault('rejected', []).append(p['wxml'])
            continue
        try:
            rt = Runtime('create')
            H = rt.load(cmp_['gen_object'], cmp_['runtime'])
            root = rt.run(H)
            sites = site_paths(rt, root, p)
        except JsUnsupported as e:
            res.inconc('%s: outside the translator: %s' % (p['wxml'], e))
            continue
        if not sites:
            res.inconc('%s: no path site found' % p['wxml'])
            continue
        for desc, got, want in sites:
            nsites += 1
            it = rt.it
            if p.get('allow_absent') and got is None:
                res.query('unsat')
                continue
            g, w = enc(it, got), enc(it, want)
            s = z3.Solver()
            s.set('timeout', 20000)
            for ax in it.axioms:
                s.add(ax)
            s.add(g != w)
            t = time.time()
            r = s.check()
            res.solver_time += time.time() - t
            if r == z3.unsat:
                res.query('unsat')
                if nsites % 17 == 1:
                    res.sample({'wxml': p['wxml'], 'site': desc, 'path': str(got)[:120], 'verdict': 'unsat'})
            elif r == z3.unknown:
                res.query('unknown')
                res.inconc('%s [%s]: solver unknown' % (p['wxml'], desc))
            else:
                res.query('sat')
                bad.setdefault((p['site'], desc.split(':')[0]), []).append((p, desc, got, want, cmp_))
    for key, items in sorted(bad.items(), key=str):
        p, desc, got, want, cmp_ = items[0]
        ok = confirm(p, cmp_)
        res.coverage['disagreements_checked'] = res.coverage.get('disagreements_checked', 0) + 1
        if ok:
            res.violation({'engine': 'J', 'harness': 'path', 'class': '%s/%s' % key},
                          'l-value path mismatch: %s [%s]: emitted %s, the expression reads %s; %s (%d programs of this class)' % (
                              p['wxml'], desc, show(got), show(want), ok, len(items)), {'wxml': p['wxml'], 'node': ok})
        else:
            res.inconc('%s [%s]: path differs in the model (emitted %s, expected %s) but get-put holds in node' % (p['wxml'], desc, show(got), show(want)))
    res.coverage.update({'programs': len(progs), 'sites': nsites, 'disagreements_checked': res.coverage.get('disagreements_checked', 0),
                         'explanation': 'per path site: emitted key sequence == key sequence of the access chain, for all data, indices and conditions (z3)'})
    res.bounds = {'chains': 'static/dynamic members, length <= 3', 'loops': 'wx:for nested <= 2, list = chain / call / literal / conditional',
                  'conditionals': 'one level', 'scripts': 'inline wxs module members'}
    res.assumptions = ['runtime contract: item l-value path = list path ++ [index]', 'get-put follows from equality of key sequences',
                       'general paths carry the prefix 0 (data) or 2,<template path>,<module> (script)']
    res.outside = ['what replaceDataOnPath / event wrappers do with the path (TypeScript)']
    return res.finish()


def show(p):
    return str(p)[:160]


def site_paths(rt, root, p):
    it = rt.it
    out = []
    fs = [n for n in driver.walk(root) if n.kind == 'F']
    env = {}
    ref = M.RefEval(it, rt.D)
    rp = RefPaths(it, ref, env)
    if p.get('script'):
        env['m'] = ('script', 'a', 'm')
        ref.scopes['m'] = z3.Const('wxs_a_m', V)
    if p['site'].startswith('for'):
        if not fs:
            return out
        f1 = fs[0]
        want_list = rp.general(p['list'])
        out.append(('for list: 4th argument of F', emitted_path(it, f1.lvalue), want_list))
        ref.scopes['item'], ref.scopes['index'] = f1.item, f1.index
        env['item'] = ('item', None if want_list is None else (('cond',) if False else append(want_list, f1.index)))
        env['index'] = ('index',)
        if p['site'].startswith('for2') and len(fs) > 1:
            f2 = fs[1]
            want2 = rp.general(p['list2'])
            out.append(('inner for list: 4th argument of F', emitted_path(it, f2.lvalue), want2))
            ref.scopes['j'], ref.scopes['k'] = f2.item, f2.index
            env['j'] = ('item', None if want2 is None else append(want2, f2.index))
            env['k'] = ('index',)
    if p['site'] == 'script':
        mod = [v for k_, v in rt.it.closure_ids.items()]  # noqa
        env['m'] = ('script', 'a', 'm')
        ref.scopes['m'] = z3.Const('wxs_a_m', V)
        for n in driver.walk(root):
            for at in n.attrs:
                if at[0] == 'v':
                    got = at[1][6] if len(at[1]) > 6 else None
                    out.append(('event: last argument of R.v', emitted_path(it, got), script_only(rp.general(p['expr']))))
                if at[0] == 'p':
                    got = at[1][2] if len(at[1]) > 2 else None
                    out.append(('change: last argument of R.p', emitted_path(it, got), script_only(rp.general(p['expr']))))
        return out
    for n in driver.walk(root):
        for at in n.attrs:
            if at[0] == 'r' and at[1] and at[1][0] == 'value':
                got = at[1][2] if len(at[1]) > 2 else None
                out.append(('model: 4th argument of the property setter', emitted_path(it, got), rp.model(p['expr'])))
    return out


def append(path, x):
    if isinstance(path, tuple) and path and path[0] == 'cond':
        return ('cond', path[1], None if path[2] is None else append(path[2], x), None if path[3] is None else append(path[3], x))
    return list(path) + [x]


def script_only(p):
    """event / change bindings only carry a path for script members"""
    if p is None:
        return None
    if isinstance(p, tuple) and p[0] == 'cond':
        return ('cond', p[1], script_only(p[2]), script_only(p[3]))
    return p if (p and p[0] == 2) else None


def confirm(p, cmp_):
    """node: get-put on concrete data - write a sentinel at the emitted path and re-evaluate the expression"""
    import os
    import subprocess
    inp = json.dumps({'gen_object': cmp_['gen_object'], 'runtime': cmp_['runtime'], 'ref': M.js_ref(p['expr']), 'site': p['site'],
                      'list': M.js_ref(p['list']) if 'list' in p else None, 'list2': M.js_ref(p['list2']) if 'list2' in p else None})
    r = subprocess.run(['node', os.path.join(common.VERIF, 'replay', 'js', 'paths.js')], input=inp, stdout=subprocess.PIPE, stderr=subprocess.PIPE,
                       text=True, timeout=120)
    if r.returncode != 0:
        raise common.Inconclusive('node path replay failed: ' + r.stderr[-300:])
    out = json.loads(r.stdout)
    return out.get('found')


def replay(path):
    dd = json.load(open(path))
    print(json.dumps(dd, indent=1)[:3000])
    return 1
