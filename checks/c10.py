"""C10 - rpx conversion is arithmetically right; other dimensions are rebuilt field for field.

Engine M on the MIR of `write_maybe_rpx_dimension` (stylesheet compiler): value, ratio, has_sign, int_value and unit
are symbolic; `append_token` is an event.  Decided by z3:
 (a) unit gate + field-for-field pass-through,
 (b) accuracy of value*100/ratio in the standard rounding-error model of f32 (|delta| <= 2^-24 per operation),
 (c) the re-derived int_value flags the token as an integer only when the value is one up to rounding.
Serialisation of numbers (cssparser ToCss) is outside the claim.
"""
import json
import z3
from mirsym.core import zstr

from lib import common, smt
from lib.common import Result, log
from mirsym.mir import Module
from mirsym.core import Executor, Agg, Ref, SymEnum, Path, Inconclusive
from mirsym import sc_env

U = z3.RealVal(1) / 2**24           # unit roundoff of f32
EPS = z3.RealVal(1) / 2**23         # f32::EPSILON
TOL = z3.RealVal(3) / 2**24         # 1.5 * EPSILON: any two-rounding evaluation order passes


def setup(mod, float_mode):
    env = sc_env.Css(lmax=1)
    exe = env.executor(mod, [])
    exe.float_mode = float_mode
    exe.solver.set('timeout', 3000)
    exe.unknown_feasible = True
    p = env.new_path(exe)
    lay = sc_env.layout()
    value = exe.fresh_float('value')
    ratio = z3.Real('opt_rpx_ratio')
    has_sign = z3.Bool('has_sign')
    unit = z3.String('unit')
    int_some = z3.Bool('int_is_some')
    int_val = z3.Int('int_value')
    int_value = SymEnum('intv', 'Option', z3.If(int_some, z3.IntVal(1), z3.IntVal(0)), lambda var, i: int_val)
    pos = Agg('Position', None, {0: z3.Int('line'), 1: z3.Int('col')})
    p.store[('heap', 'next')] = Agg('StepToken', None, {0: Agg('Token', 'Dimension', {0: has_sign, 1: value, 2: int_value, 3: unit}), 1: pos})
    p.store[('heap', 'unit')] = unit
    fn = mod.find(r'^write_maybe_rpx_dimension$')
    args = [Ref(('heap', 'input')), Ref(('heap', 'ss')), Ref(('heap', 'next')), has_sign, value, int_value, Ref(('heap', 'unit'))]
    sym = dict(value=value, ratio=ratio, has_sign=has_sign, unit=unit, int_some=int_some, int_val=int_val, pos=pos,
               int_value=int_value)
    return exe, p, fn, args, sym


def absr(x):
    return z3.If(x >= 0, x, -x)


def main(tier):
    res = Result('C10', 'other')
    res.engines = ['M (MIR symbolic execution; f32 in the real rounding-error model, NRA)']
    mod = Module(common.mir_dump('sc'))
    exe, p0, fn, args, s = setup(mod, 'real')
    value, ratio = s['value'], s['ratio']
    lo_v, hi_v = (2.0**-20, 2.0**40) if tier == 'quick' else (2.0**-60, 2.0**80)
    lo_r, hi_r = (2.0**-10, 2.0**20) if tier == 'quick' else (2.0**-30, 2.0**30)
    rng = [absr(value) >= lo_v, absr(value) <= hi_v, ratio >= lo_r, ratio <= hi_r]
    # the tokenizer's contract for integer literals N: value = N rounded to f32, int_value = Some(N clamped to i32)
    N = z3.Int('literal_int')
    s['N'] = N
    tokenizer = z3.Implies(s['int_some'], z3.And(absr(value - z3.ToReal(N)) <= U * absr(z3.ToReal(N)),
                                                 z3.Implies(z3.And(N >= -2**24, N <= 2**24), value == z3.ToReal(N)),
                                                 s['int_val'] == z3.If(N > 2**31 - 1, 2**31 - 1, z3.If(N < -2**31, -2**31, N))))
    exe.base = list(rng) + [tokenizer]
    done = exe.run(fn.name, args, p0)
    res.solver_time += exe.stats['solver_time']
    res.functions.append({'fn': 'write_maybe_rpx_dimension(&mut StepParser, &mut StyleSheetTransformer, &StepToken, bool, f32, Option<i32>, &CowRcStr)',
                          'mir_lines': fn.text_lines, 'contracts': sorted(exe.stats.get('contracts_used', {})),
                          'inlined': ['StepToken::wrap']})
    res.bounds = {'|value|': [lo_v, hi_v], 'ratio': [lo_r, hi_r],
                  'float_model': 'each f32 operation = exact result * (1+delta), |delta| <= 2^-24 (normal range, no overflow/underflow inside the stated ranges)'}
    res.assumptions = ['append_token is an event (its argument terms are compared)', 'f32::round / abs by their definition (exact)',
                       'CowRcStr deref/clone/into are identities on the string value', 'rpx_ratio > 0 (property quantifier)',
                       'tokenizer contract: for an integer literal N, value = N rounded to f32 and int_value = Some(N clamped to i32); otherwise int_value = None']
    res.outside = ['re-serialisation of numbers by cssparser ToCss (6 significant digits; known lossy for integers > 6 digits, see DESIGN §8)',
                   'subnormal / overflowing products outside the stated ranges', 'tokenisation of the number text']
    returned = [p for p in done if p.status == 'returned']
    log('[C10] %d paths, %d returned, %d execution findings' % (len(done), len(returned), len(exe.findings)))
    for f in exe.findings:
        res.inconc('execution finding %s in write_maybe_rpx_dimension' % f.kind)
    queries = []
    is_rpx = s['unit'] == z3.StringVal('rpx')
    seen_convert = seen_pass = False
    for p in returned:
        evs = [e for e in p.events if e[0] == 'out']
        if len(evs) != 1 or evs[0][2] != 'token' or evs[0][1] != 'normal':
            queries.append(('exactly-one-append_token', exe.base + p.pc, 'events', p, None))
            continue
        tok_st, src = evs[0][3], evs[0][4]
        tok = tok_st.fields[0]
        position = tok_st.fields[1]
        if not (isinstance(tok, Agg) and tok.variant == 'Dimension'):
            queries.append(('token-is-dimension', exe.base + p.pc, 'events', p, None))
            continue
        t_sign, t_value, t_int, t_unit = tok.fields[0], tok.fields[1], tok.fields[2], tok.fields[3]
        # position provenance: the emitted token carries the position of the input token
        pos_same = z3.And(position.fields[0] == s['pos'].fields[0], position.fields[1] == s['pos'].fields[1])
        queries.append(('position', exe.base + p.pc + [z3.Not(pos_same)], 'position', p, None))
        converted = z3.is_string_value(t_unit) and zstr(t_unit) == 'vw'
        if converted:
            seen_convert = True
            # (a) the converting branch is taken only for rpx, has_sign passes through, src carries the original
            queries.append(('gate: converted => unit==rpx', exe.base + p.pc + [z3.Not(is_rpx)], 'gate', p, None))
            queries.append(('sign passes', exe.base + p.pc + [t_sign != s['has_sign']], 'sign', p, None))
            src_ok = isinstance(src, Agg) and src.variant == 'Some' and isinstance(src.fields[0], Agg) and src.fields[0].variant == 'Dimension'
            if not src_ok:
                queries.append(('src is Some(Dimension)', exe.base + p.pc, 'src', p, None))
            else:
                sf = src.fields[0].fields
                same = z3.And(sf[0] == s['has_sign'], sf[1] == value, sf[3] == s['unit'])
                queries.append(('src carries the original token', exe.base + p.pc + [z3.Not(same)], 'src', p, None))
            # (b) accuracy
            exact = value * 100 / ratio
            queries.append(('accuracy 1.5eps', exe.base + p.pc + [absr(t_value - exact) > TOL * absr(exact)], 'accuracy', p, t_value))
            queries.append(('sign of value kept', exe.base + p.pc + [z3.Or(z3.And(value > 0, t_value <= 0), z3.And(value < 0, t_value >= 0))], 'accuracy', p, t_value))
            # (c) int_value: cssparser prints the f32 `value`; int_value only decides whether ".0" is appended, so the
            #     only obligation is that the token is flagged as an integer only when the value is one (up to rounding)
            if isinstance(t_int, Agg) and t_int.variant == 'Some':
                rnd = z3.If(t_value >= 0, z3.ToReal(z3.ToInt(t_value + z3.RealVal('1/2'))), -z3.ToReal(z3.ToInt(-t_value + z3.RealVal('1/2'))))
                queries.append(('int_value Some => value within 2eps of an integer', exe.base + p.pc + [absr(rnd - t_value) > 2 * EPS], 'int', p, t_value))
            elif not (isinstance(t_int, Agg) and t_int.variant == 'None'):
                queries.append(('int_value shape', exe.base + p.pc, 'int', p, None))
        else:
            seen_pass = True
            queries.append(('gate: untouched => unit!=rpx', exe.base + p.pc + [is_rpx], 'gate', p, None))
            same = [t_sign == s['has_sign'], t_value == value, t_unit == s['unit']]
            ok_int = isinstance(t_int, SymEnum) and t_int.sid == s['int_value'].sid
            if not ok_int:
                queries.append(('int_value passed through', exe.base + p.pc, 'passthrough', p, None))
            queries.append(('pass-through field for field', exe.base + p.pc + [z3.Not(z3.And(same))], 'passthrough', p, None))
            if not (isinstance(src, Agg) and src.variant == 'None'):
                queries.append(('no src name for untouched tokens', exe.base + p.pc, 'src', p, None))
    # reachability witnesses (vacuity guard): both branches must exist
    if not (seen_convert and seen_pass):
        res.inconc('vacuity: converting branch seen=%s, pass-through branch seen=%s' % (seen_convert, seen_pass))

    for desc, asserts, cls, p, term in queries:
        verdict, model, dt = smt.decide_relaxed(asserts, timeout_ms=60000)
        res.solver_time += dt
        res.query(verdict)
        if verdict == 'unknown':
            res.inconc('query %s: solver unknown (%s)' % (desc, model))
            continue
        if tier == 'thorough' and cls in ('gate', 'passthrough', 'sign'):
            try:
                res.coverage.setdefault('cross_solver', {})[desc] = smt.cross_check(asserts, verdict, timeout=60)
            except smt.SolverDisagreement as e:
                res.inconc('query %s: %s' % (desc, e))
                continue
        if verdict == 'unsat':
            res.sample({'query': desc, 'verdict': 'unsat'})
            continue
        # sat -> replay through the public API
        confirm(res, exe, desc, cls, asserts, model, s)
    # translator validation: concrete values through both the encoding and the real from_css
    validate(res, exe, returned, s)
    res.coverage.update({
        'explanation': 'engine M executes the MIR of write_maybe_rpx_dimension with symbolic value/ratio/sign/int/unit; '
                       'z3 decides gate, pass-through, provenance, accuracy (real rounding-error model) and int_value obligations for all inputs in the stated ranges',
        'obligations': len(queries), 'discharged': res.queries.get('unsat', 0),
        'evaluations': len(queries), 'distinct_nontrivial': len(queries), 'paths': len(done),
    })
    return res.finish()


def f32(x):
    import struct
    return struct.unpack('f', struct.pack('f', x))[0]


def real_of(model, t):
    v = model.eval(t, model_completion=True)
    if z3.is_rational_value(v):
        return v.numerator_as_long() / v.denominator_as_long()
    if z3.is_algebraic_value(v):
        a = v.approx(20)
        return a.numerator_as_long() / a.denominator_as_long()
    raise Inconclusive('cannot read model value %s' % v)


def run_css(value_txt, ratio, unit='rpx'):
    req = [{'css': 'a{b:%s%s}' % (value_txt, unit), 'options': {'rpx_ratio': ratio}}]
    r = common.replay(['css'], stdin=json.dumps(req))
    out = json.loads(r.stdout)[0]
    return out


def confirm(res, exe, desc, cls, asserts, model, s):
    """replay a sat verdict through StyleSheetTransformer::from_css; only reproduced deviations are violations."""
    import re
    key = {'engine': 'M', 'harness': 'M10', 'class': cls}
    if cls in ('accuracy', 'int'):
        # prefer a witness whose deviation survives the 6-digit print of the output
        v = f32(real_of(model, s['value']))
        r = f32(real_of(model, s['ratio']))
        first = (v, r)
        if z3.is_true(model.eval(s['int_some'], model_completion=True)):
            first = (model.eval(s['N'], model_completion=True).as_long(), r)      # spelled as an integer literal
        cands = [first, (7.5, 750.0), (75.0, 750.0), (3.0, 750.0), (1.0, 100.0), (1.0, 3.0), (-33.5, 7.0), (123456.0, 750.0),
                 (0.25, 1000.0), (1.5, 1.0), (640.0, 2.0)]
        for (v, r) in cands:
            if v == 0 or r <= 0:
                continue
            out = run_css(repr(v), r)
            m = re.match(r'a\{b:(-?[0-9.eE+\-]+)vw\}', out.get('normal', ''))
            if not m:
                continue
            v = float(v)
            got = float(m.group(1))
            expect_f32 = f32(f32(f32(v) * f32(100.0)) / f32(r))       # the property's formula, evaluated in f32
            shown = float('%.6g' % expect_f32)                          # cssparser prints at most 6 significant digits
            exact = f32(v) * 100.0 / f32(r)
            if abs(got - shown) > 1e-9 * abs(shown) and abs(got - exact) > 1e-6 * abs(exact):
                res.violation(key, 'rpx conversion: %r rpx with ratio %r gives %rvw, expected %r' % (v, r, got, shown),
                              {'css': 'a{b:%rrpx}' % v, 'ratio': r, 'output': out.get('normal')})
                return
        res.inconc('query %s is sat in the model but the deviation is not observable through from_css (6-digit print)' % desc)
        return
    # gate / pass-through / src / position: replay a unit through the real code and compare the text
    unit = zstr(model.eval(s['unit'], model_completion=True))
    if not re.fullmatch(r'[a-zA-Z][a-zA-Z0-9]*', unit or ''):
        unit = 'px' if cls != 'gate' else 'rpx'
    for u in (unit, 'rpx', 'px', 'RPX', 'rp', 'rpxx', 'vw', 'em'):
        out = run_css('75', 750.0, u)
        exp = 'a{b:10vw}' if u == 'rpx' else 'a{b:75%s}' % u
        if out.get('normal') != exp:
            res.violation(key, 'dimension 75%s is emitted as %r (expected %r)' % (u, out.get('normal'), exp), {'css': 'a{b:75%s}' % u, 'ratio': 750})
            return
    res.inconc('query %s is sat in the model but does not reproduce through from_css' % desc)


def validate(res, exe, returned, s):
    """Serval-style: the encoding's prediction vs the real code on boundary values."""
    import re
    cases = [(75.0, 750.0, 'rpx'), (1.0, 3.0, 'rpx'), (-20.0, 750.0, 'rpx'), (0.5, 375.0, 'rpx'), (12.0, 750.0, 'px'),
             (750.0, 750.0, 'rpx'), (100000.0, 1.5, 'rpx'), (3.0, 750.0, 'RPX'),
             # magnitudes the serialiser prints with an exponent (one and several significant digits)
             (7.5e-7, 750.0, 'rpx'), (1e-7, 100.0, 'rpx'), (0.001, 1000000.0, 'rpx'), (1.5e-7, 100.0, 'rpx'), (2.5e20, 0.5, 'rpx'), (1e-9, 1.0, 'px'), (5e21, 1.0, 'px')]
    agree = 0
    for v, r, unit in cases:
        out = run_css(repr(v), r, unit)
        pred = None
        for p in returned:
            ev = [e for e in p.events if e[0] == 'out'][0]
            tok = ev[3].fields[0]
            verdict, model, dt = smt.decide(exe.base[2:4] + p.pc + [z3.Not(s['int_some']), s['value'] == z3.RealVal(repr(v)), s['ratio'] == z3.RealVal(repr(r)),
                                                         s['unit'] == z3.StringVal(unit)] +
                                            [d == 0 for d in p.env.get('deltas', ())])
            if verdict == 'sat':
                tv = real_of(model, tok.fields[1])
                tu = zstr(model.eval(tok.fields[3], model_completion=True))
                pred = (tv, tu)
        m = re.match(r'a\{b:(-?[0-9.eE+\-]+)([a-zA-Z]+)\}', out.get('normal', ''))
        if pred is None or not m:
            res.inconc('translator validation: no prediction / output for %r%s (%r)' % (v, unit, out))
            continue
        got, gu = float(m.group(1)), m.group(2)
        if gu == pred[1] and abs(got - pred[0]) > 1e-3 * abs(pred[0]):
            # far outside the 6-significant-digit print of the serialiser: the emitted number is wrong (serialisation is not proved, but
            # a concrete wrong output is a replayed violation)
            res.violation({'engine': 'replay', 'harness': 'M10-validate', 'class': 'serialisation'},
                          'dimension %r%s with ratio %r is emitted as %r: the value %g differs from %g' % (v, unit, r, out.get('normal'), got, pred[0]),
                          {'css': 'a{b:%r%s}' % (v, unit), 'ratio': r})
            continue
        if gu != pred[1] or abs(got - pred[0]) > 2e-5 * abs(pred[0]):
            res.inconc('translator validation: %r%s ratio %r: encoding predicts %r, real output %r' % (v, unit, r, pred, out.get('normal')))
        else:
            agree += 1
    res.coverage['traces_validated_against_impl'] = agree


def replay(path):
    d = json.load(open(path))
    rp = d['replay']
    req = [{'css': rp['css'], 'options': {'rpx_ratio': rp.get('ratio', 750)}}]
    r = common.replay(['css'], stdin=json.dumps(req))
    print(r.stdout.strip())
    return 1
