"""C14 - stringify is a faithful inverse of parse (behavioural equivalence of bindings).

Engine J: for every program t of the families of C03 / C05 / C06 (plus stringifier-specific shapes) both t and
print(parse(t)) are compiled by the real compiler; the two emitted programs are executed symbolically (creation and update
mode, same symbolic data) and every protocol site is compared pairwise: structure exactly, value terms and guards by z3 for
all data / scope values / update trees.  Supporting, not solver-decided: the re-parsed text has no diagnostic above Note
and printing is a fixpoint after one round.
"""
import json
import time
import z3

from lib import common
from lib.common import Result, log
from jssym import model as M, driver
from jssym.model import L
from jssym.jsparse import JsUnsupported
from jssym.protocol import Runtime
from jssym.interp import V, UNDEFINED, NULL, is_v, JArr, JObj, Closure, Native, CondVal, ArrLit, ObjLit
from checks import c05, c06, c03

I = lambda n: ('id', n)


def esc(s):
    return s.replace('&', '&amp;').replace('"', '&quot;').replace('<', '&lt;')


def programs(tier, seed):
    out = []
    for p in c05.programs(tier):
        out.append(p['wxml'])
    for p in c06.programs('quick', seed)[::3]:
        out.append(p['wxml'])
    es = c03.programs('quick', seed)
    for e in es[:len(es):9 if tier != 'thorough' else 2]:
        t = M.pr(e)
        out.append('<view a="{{ %s }}">x{{ %s }}y</view>' % (esc(t), esc(t)))
    # parenthesisation on re-print: every binary operator nested in every binary operator, on either side (and in ?:)
    x_, y_, z_ = ('id', 'a'), ('id', 'b'), ('id', 'c')
    pairs = []
    for o1 in M.BIN_OPS:
        for o2 in M.BIN_OPS:
            pairs.append(('bin', o1, x_, ('bin', o2, y_, z_)))
            pairs.append(('bin', o1, ('bin', o2, x_, y_), z_))
    for o in M.BIN_OPS:
        pairs += [('cond', ('bin', o, x_, y_), y_, z_), ('cond', x_, ('bin', o, y_, z_), z_), ('cond', x_, y_, ('cond', z_, x_, y_)), ('un', '!', ('bin', o, x_, y_)),
                  ('bin', o, ('cond', x_, y_, z_), z_), ('bin', o, x_, ('cond', x_, y_, z_))]
    seenp = set()
    for k in range(0, len(pairs), 4):
        chunk = [p for p in pairs[k:k + 4] if M.pr(p) not in seenp]
        seenp.update(M.pr(p) for p in chunk)
        if chunk:
            out.append('<view %s/>' % ' '.join('p%d="{{ %s }}"' % (i, esc(M.pr(p))) for i, p in enumerate(chunk)))
    # literal receivers: a number literal before `.` needs its parentheses on re-print (`1.a` is not `(1).a`)
    one, half, seven = M.L('int', '1', 1), M.L('float', '1.5', 1.5), M.L('int', '7', 7)
    recv = [('mem', one, 'a'), ('idx', one, x_), ('mem', half, 'a'), ('call', ('mem', seven, 'toFixed'), []), ('mem', ('un', '-', y_), 'a'), ('mem', M.L('str', "'s'", 's'), 'length'),
            ('bin', '+', ('mem', one, 'a'), y_), ('mem', ('arr', [x_]), 'length'), ('mem', ('obj', [('kv', 'k', x_)]), 'k')]
    out.append('<view %s/>' % ' '.join('p%d="{{ %s }}"' % (i, esc(M.pr(p))) for i, p in enumerate(recv)))
    # mixed text: every expression form as the first / a later part of an attribute value and of a text node
    a_, b_, c_, y_ = ('id', 'a'), ('id', 'b'), ('id', 'c'), ('id', 'y')
    lit = M.L('str', "'s'", 's')
    mixed = c03.forms(a_, b_, c_) + [('bin', '+', a_, lit), ('bin', '+', lit, a_), ('bin', '+', ('bin', '+', a_, lit), b_), ('bin', '+', a_, ('bin', '+', lit, b_)),
                                     ('bin', '+', lit, lit), lit, ('cond', a_, lit, b_), ('bin', '||', a_, lit)]
    for e in mixed[::1 if tier == 'thorough' else 2] + mixed[-8:]:
        t = esc(M.pr(e))
        out.append('<view p="{{ %s }}{{ y }}" q="s{{ %s }}" r="{{ y }}{{ %s }}t">{{ %s }}{{ y }}u</view>' % (t, t, t, t))
    # stringifier-specific shapes: mixed text, text that looks like a binding, entities, quotes, childless scope elements
    out += [
        '<view a="p{{ x }}q{{ y }}" b="{{ \'a\' + b }}" c="{{ a + \'s\' }}">a{{ b }}c{{ \'d\' }}e</view>',
        '<view a="{{ \'{\' + \'{\' }}">&#123;&#123; x }} &lt;b&gt; &amp;amp; {{ "&quot;" }}</view>',
        '<comp><view slot:a data:x="{{ a }}"/></comp><block wx:for="{{ list }}">{{ item }}:{{ index }}</block>',
        '<comp><child slot:a slot:b p="{{ a + b }}"/><child slot:b/></comp><view wx:for="{{ l }}" wx:for-item="a" p="{{ a }}" q="{{ b }}"/>',
        '<block wx:for="{{ l1 }}"><!-- only a comment --></block><block wx:for="{{ l2 }}"><view p="{{ item.x + index }}"/></block>',
        '<block wx:for="{{ l1 }}" wx:for-item="u" wx:for-index="v"></block><view wx:for="{{ l2 }}" wx:for-item="v" p="{{ u }}" q="{{ v }}" r="{{ index }}"/>',
        '<view wx:if="{{ a }}" p="{{ x }}">1</view><view wx:elif="{{ b }}">2</view><view wx:else>{{ c }}</view>',
        '<template name="t"><view p="{{ q }}"/></template><template is="t" data="{{ {q: a.b, ...c} }}"/><slot name="{{ n }}" v="{{ w }}"/>',
        '<view class="a {{ b }} c" style="x:{{ y }};z" id="{{ i }}" data-k="{{ d }}" mark:m="{{ m }}" bind:tap="{{ h }}" model:v="{{ mv.x }}" hidden/>',
        '<wxs module="m">module.exports={f:1}</wxs><view p="{{ m.f(a) }}" wx:for="{{ m.g }}">{{ item }}</view>',
    ]
    return out


def main(tier):
    res = Result('C14', 'translation_validation')
    res.engines = ['J (pairwise symbolic comparison of the code generated for t and for print(parse(t)))']
    progs = programs(tier, res.seed)
    first = driver.compile_batch(progs, want=('gen_object', 'runtime', 'stringify'))
    printed = []
    keep = []
    for t, c in zip(progs, first):
        if 'panic' in c:
            res.violation({'engine': 'J', 'harness': 'compile', 'class': 'panic'}, 'compiler panics on %r: %s' % (t, c['panic']), {'wxml': t})
            continue
        if any(d['level'] >= 3 for d in c['diagnostics']) or not isinstance(c.get('stringify'), str):
            continue
        keep.append((t, c))
        printed.append(c['stringify'])
    second = driver.compile_batch(printed, want=('gen_object', 'runtime', 'stringify'))
    nsites = 0
    bad = {}
    support = {'reparse_diagnostics_above_note': [], 'not_a_fixpoint': []}
    for (t, c1), t2, c2 in zip(keep, printed, second):
        if 'panic' in c2:
            res.violation({'engine': 'J', 'harness': 'compile', 'class': 'panic-reprinted'}, 'compiler panics on the re-printed template %r: %s' % (t2, c2['panic']), {'wxml': t, 'printed': t2})
            continue
        if any(d['level'] >= 2 for d in c2['diagnostics']):
            support['reparse_diagnostics_above_note'].append({'wxml': t, 'printed': t2, 'diag': c2['diagnostics'][:2]})
        if c2.get('stringify') != t2:
            support['not_a_fixpoint'].append({'wxml': t, 'printed': t2, 'printed_again': c2.get('stringify')})
        for mode in ('create', 'update'):
            try:
                ra, rb = Runtime(mode), Runtime(mode)
                Ha = ra.load(c1['gen_object'], c1['runtime'])
                Hb = rb.load(c2['gen_object'], c2['runtime'])
                names = [n for n in Ha.order]
                if list(Hb.order) != names:
                    bad.setdefault('template-set', []).append((t, t2, 'templates defined: %s vs %s' % (names, list(Hb.order))))
                    continue
                for name in names:
                    ra, rb = Runtime(mode), Runtime(mode)
                    Ha = ra.load(c1['gen_object'], c1['runtime'])
                    Hb = rb.load(c2['gen_object'], c2['runtime'])
                    roota, rootb = ra.run(Ha, name=name), rb.run(Hb, name=name)
                    diffs, n = compare(ra, rb, roota, rootb, res)
                    nsites += n
                    for d in diffs:
                        bad.setdefault(d[0], []).append((t, t2, '%s (%s mode, template %r)' % (d[1], mode, name)))
            except JsUnsupported as e:
                res.inconc('%r: outside the translator: %s' % (t[:100], e))
                break
    for cls, items in sorted(bad.items()):
        t, t2, desc = items[0]
        res.coverage['disagreements_checked'] = res.coverage.get('disagreements_checked', 0) + 1
        res.violation({'engine': 'J', 'harness': 'reprint', 'class': cls},
                      're-printed template behaves differently: %s | original %r | printed %r (%d programs)' % (desc, t[:300], t2[:300], len(items)),
                      {'wxml': t, 'printed': t2})
    from checks import mixed
    from mirsym.mir import Module
    res.coverage['kernel_obligations'] = mixed.run_property(res, Module(common.mir_dump('tc')), 'C14', tier)
    res.engines.append('M (mixed-text assembler Value::parse_until_before from MIR)')
    res.coverage.update({'programs': len(keep), 'sites': nsites, 'disagreements_checked': res.coverage.get('disagreements_checked', 0),
                         'supporting_not_solver_decided': {k: v[:5] for k, v in support.items()}, 'supporting_counts': {k: len(v) for k, v in support.items()},
                         'explanation': 'pairwise: structure of the protocol trees exactly; value terms, guards and paths by z3 for all data / scope values / update trees'})
    res.bounds = {'programs': 'families of C03 (sampled), C05, C06 (sampled) + 10 stringifier-specific shapes', 'mangling': 'default printing only'}
    res.assumptions = ['both programs are run with the same symbolic data and the same fresh scope symbols (identical structure gives identical names)']
    res.outside = ['textual fixpoint and re-parse diagnostics (recorded as supporting data only: nothing for a solver to range over)', 'scope-name mangling', 'ill-formed templates']
    return res.finish()


def flat(node, out):
    out.append(node)
    for c in node.children:
        flat(c, out)
    return out


def compare(ra, rb, a, b, res):
    """-> (list of (class, description), number of compared sites)"""
    na, nb = flat(a, []), flat(b, [])
    diffs = []
    if [x.kind for x in na] != [x.kind for x in nb]:
        return [('structure', 'node kinds differ: %s vs %s' % ([x.kind for x in na][:12], [x.kind for x in nb][:12]))], 0
    it = ra.it
    axioms = ra.it.axioms + rb.it.axioms
    n = 0

    def same(x, y, what, cls):
        nonlocal n
        n += 1
        if isinstance(x, (str, bool, int, float)) and isinstance(y, (str, bool, int, float)):
            if x != y or type(x) != type(y):
                diffs.append((cls, '%s: %r vs %r' % (what, x, y)))
            return
        if isinstance(x, (Closure, Native)) and isinstance(y, (Closure, Native)):
            return
        if isinstance(x, JObj) and isinstance(y, JObj) and not x.props and not y.props:
            return
        try:
            tx, ty = it.term(x), it.term(y)
        except JsUnsupported:
            if type(x) is not type(y):
                diffs.append((cls, '%s: values of different shape' % what))
            return
        s = z3.Solver()
        s.set('timeout', 20000)
        for ax in axioms:
            s.add(ax)
        s.add(tx != ty)
        t0 = time.time()
        r = s.check()
        res.solver_time += time.time() - t0
        if r == z3.unsat:
            res.query('unsat')
        elif r == z3.unknown:
            res.query('unknown')
            res.inconc('%s: solver unknown' % what)
        else:
            res.query('sat')
            diffs.append((cls, '%s: %s vs %s' % (what, str(tx)[:100], str(ty)[:100])))

    def guard(node, pcs):
        base = len(node.parent.pc) if getattr(node, 'parent', None) is not None else 0
        rel = pcs[base:]
        tb = lambda c: z3.BoolVal(c) if isinstance(c, bool) else c
        return z3.And([tb(c) for c in rel]) if rel else z3.BoolVal(True)

    def same_bool(x, y, what):
        nonlocal n
        n += 1
        s = z3.Solver()
        s.set('timeout', 20000)
        for ax in axioms:
            s.add(ax)
        s.add(x != y)
        r = s.check()
        if r == z3.unsat:
            res.query('unsat')
        elif r == z3.unknown:
            res.query('unknown')
        else:
            res.query('sat')
            diffs.append(('guard', '%s: guards differ' % what))
    for x, y in zip(na, nb):
        k = x.kind
        if k == 'E':
            if x.tag != y.tag:
                diffs.append(('structure', 'tag %r vs %r' % (x.tag, y.tag)))
                continue
            same(x.slot, y.slot, '<%s> slot' % x.tag, 'value')
            key = lambda a_: (a_[0], a_[1][0] if a_[1] and isinstance(a_[1][0], str) else None)
            ka, kb = [key(a_) for a_ in x.attrs], [key(a_) for a_ in y.attrs]
            if ka != kb:
                # in update mode a binding without dependencies may or may not be re-applied: a one-sided setter call is fine if
                # what it sets is a constant
                def constant(a_):
                    from z3 import z3util
                    try:
                        return all(not z3util.get_vars(it.term(v)) for v in a_[1] if not isinstance(v, (str, bool, int, float)))
                    except JsUnsupported:
                        return False
                only_a = [a_ for a_ in x.attrs if key(a_) not in kb]
                only_b = [a_ for a_ in y.attrs if key(a_) not in ka]
                if ra.mode != 'update' or not all(constant(a_) for a_ in only_a + only_b):
                    diffs.append(('structure', '<%s>: setter calls differ: %s vs %s' % (x.tag, ka, kb)))
                    continue
            pairs = [(a1, [a2 for a2 in y.attrs if key(a2) == key(a1)]) for a1 in x.attrs]
            for a1, cands in pairs:
                if not cands:
                    continue
                a2 = cands[0]
                if len(a1[1]) != len(a2[1]):
                    diffs.append(('structure', '<%s> R.%s: argument count differs' % (x.tag, a1[0])))
                    continue
                for u, v in zip(a1[1], a2[1]):
                    same(u, v, '<%s> R.%s(%s)' % (x.tag, a1[0], a1[1][0] if a1[1] else ''), 'value')
                same_bool(guard_of(x, a1[2]), guard_of(y, a2[2]), '<%s> R.%s' % (x.tag, a1[0]))
        elif k == 'T':
            same(x.text, y.text, 'text', 'value')
            same_bool(guard(x, x.pc), guard(y, y.pc), 'text')
        elif k == 'B':
            same(x.key, y.key, 'branch key', 'value')
        elif k == 'F':
            same(x.list, y.list, 'wx:for list', 'value')
            same(x.key, y.key, 'wx:key', 'value')
            same(x.tree, y.tree, 'wx:for tree', 'guard')
            same(x.lvalue if not isinstance(x.lvalue, JArr) else ArrLit([('elems', x.lvalue.items)]),
                 y.lvalue if not isinstance(y.lvalue, JArr) else ArrLit([('elems', y.lvalue.items)]), 'wx:for path', 'path')
        elif k == 'S':
            same(x.name, y.name, 'slot name', 'value')
            for a1, a2 in zip(x.attrs, y.attrs):
                for u, v in zip(a1[1], a2[1]):
                    same(u, v, 'slot value', 'value')
    return diffs, n


def guard_of(node, pcs):
    rel = pcs[len(node.pc):]
    tb = lambda c: z3.BoolVal(c) if isinstance(c, bool) else c
    return z3.And([tb(c) for c in rel]) if rel else z3.BoolVal(True)


def replay(path):
    d = json.load(open(path))
    print(json.dumps(d, indent=1)[:3000])
    return 1
