"""Model expressions: AST, WXML-expression printers (minimal / full parentheses), JS reference printer for node,
and the reference evaluation to SMT terms (the conventions are the statement of C03)."""
import z3

from .interp import (V, UNDEF, NULLV, EMPTY, NOOP, get, typeof_, callf, binf, unf, nullish_t, strict_eq_t, ArrLit, ObjLit, HOLE_PY,
                     UNDEFINED, NULL, is_v)

UN_OPS = ['!', '~', '+', '-', 'typeof', 'void']
BIN_OPS = ['*', '/', '%', '+', '-', '<<', '>>', '>>>', '<', '>', '<=', '>=', 'instanceof', '==', '!=', '===', '!==', '&', '^', '|', '&&', '||', '??']
PREC = {'??': 3, '||': 3, '&&': 4, '|': 5, '^': 6, '&': 7, '==': 8, '!=': 8, '===': 8, '!==': 8, '<': 9, '>': 9, '<=': 9, '>=': 9,
        'instanceof': 9, '<<': 10, '>>': 10, '>>>': 10, '+': 11, '-': 11, '*': 12, '/': 12, '%': 12}


def prec(e):
    k = e[0]
    if k == 'cond':
        return 2
    if k == 'bin':
        return PREC[e[1]]
    if k == 'un':
        return 14
    return 17


def pr(e, full=False):
    """WXML / JS source of a model expression"""
    k = e[0]
    if k == 'id':
        return e[1]
    if k == 'lit':
        return e[2]
    if k == 'un':
        op = e[1]
        inner = pr(e[2], full)
        need = prec(e[2]) < 14 or full and e[2][0] not in ('id', 'lit')
        if e[2][0] == 'un' and e[2][1] in ('+', '-') and op in ('+', '-'):
            need = True
        if e[2][0] == 'lit' and inner.startswith(('-', '+')) and op in ('+', '-'):
            need = True
        s = '(' + inner + ')' if need else inner
        return op + (' ' if op in ('typeof', 'void') else '') + s
    if k == 'bin':
        op = e[1]
        p = PREC[op]

        def side(x, right):
            s = pr(x, full)
            px = prec(x)
            need = px < p or (px == p and right) or (full and x[0] not in ('id', 'lit'))
            if x[0] == 'bin' and ((op == '??' and x[1] in ('||', '&&')) or (op in ('||', '&&') and x[1] == '??')):
                need = True
            if x[0] == 'cond':
                need = True
            return '(' + s + ')' if need else s
        sp = ' ' if op in ('instanceof',) or True else ''
        return side(e[2], False) + sp + op + sp + side(e[3], True)
    if k == 'cond':
        def part(x, test):
            s = pr(x, full)
            need = (test and prec(x) <= 2) or (full and x[0] not in ('id', 'lit'))
            return '(' + s + ')' if need else s
        return part(e[1], True) + ' ? ' + part(e[2], False) + ' : ' + part(e[3], False)
    if k == 'mem':
        s = pr(e[1], full)
        if prec(e[1]) < 17 or (e[1][0] == 'lit' and e[1][1] in ('int', 'float')):
            s = '(' + s + ')'
        return s + '.' + e[2]
    if k == 'idx':
        s = pr(e[1], full)
        if prec(e[1]) < 17:
            s = '(' + s + ')'
        return s + '[' + pr(e[2], full) + ']'
    if k == 'call':
        s = pr(e[1], full)
        if prec(e[1]) < 17:
            s = '(' + s + ')'
        return s + '(' + ', '.join(pr(a, full) for a in e[2]) + ')'
    if k == 'arr':
        parts = []
        for it in e[1]:
            if it is None:
                parts.append('')
            elif it[0] == 'spread':
                parts.append('...' + pr(it[1], full))
            else:
                parts.append(pr(it, full))
        s = ', '.join(parts)
        if e[1] and e[1][-1] is None:
            s += ','
        return '[' + s + ']'
    if k == 'obj':
        parts = []
        for p_ in e[1]:
            if p_[0] == 'spread':
                parts.append('...' + pr(p_[1], full))
            elif p_[0] == 'short':
                parts.append(p_[1])
            else:
                parts.append('%s: %s' % (p_[1], pr(p_[2], full)))
        return '{' + ', '.join(parts) + '}'
    raise ValueError(k)


def js_ref(e):
    """JavaScript text of the *reference semantics*: free identifiers are data fields (_d), member reads are null-safe
    (_m), calls go through _c (non-function callee -> undefined, plain function call); operators are JavaScript's own."""
    k = e[0]
    if k == 'id':
        return '_d(%r)' % e[1]
    if k == 'lit':
        return '(' + e[2] + ')'
    if k == 'un':
        return '(%s %s)' % (e[1], js_ref(e[2]))
    if k == 'bin':
        return '(%s %s %s)' % (js_ref(e[2]), e[1], js_ref(e[3]))
    if k == 'cond':
        return '(%s ? %s : %s)' % (js_ref(e[1]), js_ref(e[2]), js_ref(e[3]))
    if k == 'mem':
        return '_m(%s, %r)' % (js_ref(e[1]), e[2])
    if k == 'idx':
        return '_m(%s, %s)' % (js_ref(e[1]), js_ref(e[2]))
    if k == 'call':
        return '_c(%s, [%s])' % (js_ref(e[1]), ', '.join(js_ref(a) for a in e[2]))
    if k == 'arr':
        parts = []
        for it in e[1]:
            if it is None:
                parts.append('')
            elif it[0] == 'spread':
                parts.append('..._s(' + js_ref(it[1]) + ')')
            else:
                parts.append(js_ref(it))
        s = ', '.join(parts)
        if e[1] and e[1][-1] is None:
            s += ','
        return '[' + s + ']'
    if k == 'obj':
        parts = []
        for p_ in e[1]:
            if p_[0] == 'spread':
                parts.append('...' + js_ref(p_[1]))
            elif p_[0] == 'short':
                parts.append('%s: _d(%r)' % (p_[1], p_[1]))
            else:
                parts.append('%s: %s' % (p_[1], js_ref(p_[2])))
        return '({' + ', '.join(parts) + '})'
    raise ValueError(k)


def free_ids(e, acc=None):
    acc = acc if acc is not None else []
    k = e[0]
    if k == 'id':
        if e[1] not in acc:
            acc.append(e[1])
    elif k in ('un',):
        free_ids(e[2], acc)
    elif k == 'bin':
        free_ids(e[2], acc)
        free_ids(e[3], acc)
    elif k == 'cond':
        for x in e[1:]:
            free_ids(x, acc)
    elif k == 'mem':
        free_ids(e[1], acc)
    elif k == 'idx':
        free_ids(e[1], acc)
        free_ids(e[2], acc)
    elif k == 'call':
        free_ids(e[1], acc)
        for a in e[2]:
            free_ids(a, acc)
    elif k == 'arr':
        for it in e[1]:
            if it is not None:
                free_ids(it[1] if it[0] == 'spread' else it, acc)
    elif k == 'obj':
        for p_ in e[1]:
            if p_[0] == 'short':
                if p_[1] not in acc:
                    acc.append(p_[1])
            elif p_[0] == 'spread':
                free_ids(p_[1], acc)
            else:
                free_ids(p_[2], acc)
    return acc


class RefEval:
    """reference value of a model expression as an SMT term, using the interpreter's value helpers"""

    def __init__(self, it, D, scopes=None):
        self.it = it
        self.D = D
        self.scopes = scopes or {}

    def ev(self, e):
        it = self.it
        k = e[0]
        if k == 'id':
            if e[1] in self.scopes:
                return self.scopes[e[1]]
            if isinstance(self.D, ObjLit):
                # data given as an object literal (template data): a plain property is read directly, unless a later spread may override it
                segs = self.D.segs
                if all(kind == 'props' for kind, _ in segs):
                    vals = [v for kind, props in segs for (kk, v) in props if kk == e[1]]
                    return vals[-1] if vals else UNDEFINED
            g = get(it.term(self.D), V.Str(z3.StringVal(e[1])))
            it.get_axioms(g, None, V.Str(z3.StringVal(e[1])))
            return g
        if k == 'lit':
            return lit_value(e)
        if k == 'un':
            v = self.ev(e[2])
            op = e[1]
            if op == '!':
                c = it.truthy(v)
                return (not c) if isinstance(c, bool) else V.Bool(z3.Not(c))
            if op == 'void':
                return UNDEFINED
            if op == 'typeof':
                if isinstance(v, str):
                    return 'string'
                if isinstance(v, bool):
                    return 'boolean'
                if isinstance(v, (int, float)):
                    return 'number'
                if v is UNDEFINED:
                    return 'undefined'
                if v is NULL or isinstance(v, (ArrLit, ObjLit)):
                    return 'object'
                return it.typeof_term(it.term(v))
            if op in ('-', '+') and isinstance(v, (int, float)) and not isinstance(v, bool):
                return -v if op == '-' else v
            return unf(op)(it.term(v))
        if k == 'bin':
            op = e[1]
            a = self.ev(e[2])
            if op in ('&&', '||', '??'):
                b = self.ev(e[3])
                if op == '??':
                    if is_v(a):
                        c = z3.simplify(nullish_t(a))
                        if z3.is_true(c):
                            return b
                        if z3.is_false(c):
                            return a
                        return it.ite(c, b, a)
                    return b if (a is UNDEFINED or a is NULL) else a
                c = it.truthy(a)
                if op == '&&':
                    if isinstance(c, bool):
                        return b if c else a
                    return it.ite(c, b, a)
                if isinstance(c, bool):
                    return a if c else b
                return it.ite(c, a, b)
            b = self.ev(e[3])
            return it.binary(op, a, b)
        if k == 'cond':
            c = it.truthy(self.ev(e[1]))
            a, b = self.ev(e[2]), self.ev(e[3])
            if isinstance(c, bool):
                return a if c else b
            return it.ite(c, a, b)
        if k in ('mem', 'idx'):
            o = self.ev(e[1])
            key = e[2] if k == 'mem' else self.ev(e[2])
            return self.member(o, key)
        if k == 'call':
            fv = self.ev(e[1])
            if fv is UNDEFINED or fv is NULL or isinstance(fv, (ArrLit, ObjLit, str, bool, int, float)):
                for a in e[2]:
                    self.ev(a)
                return UNDEFINED            # a callee that is certainly no function yields undefined
            f = it.term(fv)
            args = [it.term(self.ev(a)) for a in e[2]]
            isfn = strict_eq_t(it.typeof_term(f), V.Str(z3.StringVal('function')))
            callee = z3.If(isfn, f, NOOP)
            t = callf(len(args))(callee, UNDEF, *args)
            it.axioms.append(callf(len(args))(NOOP, UNDEF, *args) == UNDEF)
            return t
        if k == 'arr':
            segs, cur = [], []
            for x in e[1]:
                if x is None:
                    cur.append(HOLE_PY)
                elif x[0] == 'spread':
                    segs.append(('elems', cur))
                    cur = []
                    sv = self.ev(x[1])
                    if isinstance(sv, ArrLit):
                        segs += sv.segs
                    else:
                        segs.append(('spread', sv))
                else:
                    cur.append(self.ev(x))
            segs.append(('elems', cur))
            return ArrLit(segs)
        if k == 'obj':
            segs, cur = [], []
            for p_ in e[1]:
                if p_[0] == 'spread':
                    segs.append(('props', cur))
                    cur = []
                    raw = self.ev(p_[1])
                    if raw is UNDEFINED or raw is NULL:
                        continue            # spreading null / undefined adds nothing
                    sv = it.term(raw)
                    if isinstance(raw, ObjLit):
                        segs.append(('props', cur))
                        cur = []
                        segs += raw.segs          # spreading an object literal = its own properties and spreads, in order
                    elif isinstance(raw, (ArrLit, str, bool, int, float)):
                        segs.append(('spread', raw))
                    else:
                        segs.append(('spread', z3.If(nullish_t(sv), EMPTY, sv)))
                elif p_[0] == 'short':
                    cur.append((p_[1], self.ev(('id', p_[1]))))
                else:
                    cur.append((p_[1], self.ev(p_[2])))
            segs.append(('props', cur))
            return ObjLit(segs)
        raise ValueError(k)

    def member(self, o, key):
        it = self.it
        t = it.term(o)
        if o is UNDEFINED or o is NULL:
            return UNDEFINED         # null-safe read
        if isinstance(o, (ArrLit, ObjLit, str, bool, int, float)):
            safe = t                 # a literal is never null/undefined
        else:
            safe = z3.If(nullish_t(t), EMPTY, t)
        kt = it.term(key)
        g = get(safe, kt)
        it.get_axioms(g, safe, kt)
        return g


def lit_value(e):
    kind, text = e[1], e[2]
    if kind == 'undefined':
        return UNDEFINED
    if kind == 'null':
        return NULL
    if kind == 'bool':
        return text == 'true'
    if kind == 'str':
        return e[3]
    if kind in ('int', 'float'):
        return e[3]
    raise ValueError(kind)


def L(kind, text, value=None):
    return ('lit', kind, text, value)
