"""Small readers of Rust source declarations (enum variants with explicit / implicit discriminants)."""
import re


def enum_table(path, name):
    src = open(path).read()
    m = re.search(r'enum %s\b[^{]*\{(.*?)\n\}' % re.escape(name), src, re.S)
    if not m:
        raise ValueError('enum %s not found in %s' % (name, path))
    body = re.sub(r'//[^\n]*', '', m.group(1))
    out, cur = {}, 0
    depth = 0
    item = ''
    items = []
    for ch in body:
        if ch in '({':
            depth += 1
        elif ch in ')}':
            depth -= 1
        if ch == ',' and depth == 0:
            items.append(item.strip())
            item = ''
        else:
            item += ch
    if item.strip():
        items.append(item.strip())
    for it in items:
        it = re.sub(r'#\[[^\]]*\]\s*', '', it).strip()
        if not it:
            continue
        mm = re.match(r'(\w+)\s*(?:=\s*(0x[0-9a-fA-F]+|\d+))?', it)
        if mm.group(2):
            cur = int(mm.group(2), 0)
        out[mm.group(1)] = cur
        cur += 1
    return out
