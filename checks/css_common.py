"""Shared open-environment analysis of the stylesheet transformer's routines (engine M), used by C08 C09 C17 C18 C19.

Each *target* runs one routine's MIR against the symbolic token forest of mirsym/sc_env.py and turns every finished
path into obligations `pc => predicate`, tagged with the property they belong to.  A satisfiable negation gives a
model = a concrete forest, which is rendered as CSS text and replayed through the real `from_css`.
"""
import json
import re
import time
import z3
from mirsym.core import zstr

from lib import common, cssref
from lib.common import log
from mirsym.mir import Module, MirUnsupported
from mirsym.core import Agg, SymEnum, Ref, Opaque, Inconclusive
from mirsym import sc_env
from mirsym.sc_env import Css, TK, OPENERS, is_kind, tok_kind, level_len

ALL_ROUTINES = ['convert_rpx_in_block', 'convert_class_names_and_rpx_in_block', 'write_maybe_class_name',
                'write_maybe_rpx_dimension', 'parse_rules']


class Ob:
    """one obligation: `violated` must be unsatisfiable together with the path condition"""

    def __init__(self, props, cls, desc, path, violated, target, info=None):
        self.props, self.cls, self.desc, self.path, self.violated, self.target, self.info = props, cls, desc, path, violated, target, info or {}


def tok_of(v):
    """(level, i) of an input token carried by a StepToken / Token value, or ('synth', variant, value)"""
    if isinstance(v, Agg) and v.name == 'StepToken':
        return tok_of(v.fields[0])
    if isinstance(v, SymEnum) and v.meta is not None:
        return v.meta
    if isinstance(v, Agg):
        return ('synth', v.variant, v)
    return None


def steptoken_pos(v):
    return v.fields[1] if isinstance(v, Agg) and v.name == 'StepToken' else None


def split_by_consume(events, level):
    """-> (prefix events before the first consume, [(i, [events until the next consume of this level])])"""
    chunks, cur, pre = [], None, []
    depth = 0
    for e in events:
        if e[0] == 'consume' and e[1] == level:
            cur = (e[2], [])
            chunks.append(cur)
            continue
        if e[0] in ('enter', 'leave', 'reset'):
            if e[0] == 'reset' and e[1] == level and chunks:
                # a try_parse rollback: drop the consumes that were undone
                while chunks and chunks[-1][0] >= e[2]:
                    chunks.pop()
                cur = chunks[-1] if chunks else None
            continue
        if e[0] in ('skip_ws', 'consume'):
            continue
        (cur[1] if cur is not None else pre).append(e)
    return pre, chunks


def analyse_block_level(exe, path, level, context, target, calc_flag=None, curly_is_declaration=False):
    """obligations for one finished path of a block routine working on `level`.
    context: 'selector' (class-aware routine) | 'value' (rpx routine)"""
    obs = []
    pre, chunks = split_by_consume(path.events, level)
    consumed = [i for i, _ in chunks]
    # tokens are consumed in order without gaps (conservation: nothing skipped silently)
    skipped_ws = [e[2] for e in path.events if e[0] == 'skip_ws' and e[1] == level]
    seen = sorted(set(consumed) | set(skipped_ws))
    if seen != list(range(len(seen))):
        obs.append(Ob(['C08'], 'conservation', 'tokens of the level are not visited in order: %s' % seen, path, z3.BoolVal(True), target))
    if pre:
        obs.append(Ob(['C08'], 'conservation', 'output before the first token: %s' % [e[0] for e in pre], path, z3.BoolVal(True), target))
    for (i, evs) in chunks:
        k = tok_kind(level, i)
        evs = list(evs)
        # optional synthesized whitespace in front (selector context only)
        ws_front = False
        if evs and evs[0][0] == 'out' and evs[0][2] == 'token_sp':
            t = tok_of(evs[0][3])
            if t and t[0] == 'synth' and t[1] == 'WhiteSpace':
                ws_front = True
                wsev = evs.pop(0)
                obs.append(Ob(['C19'], 'position', 'synthesized descendant whitespace not positioned at the token it precedes (%d)' % i, path,
                              z3.Not(same_pos(steptoken_pos(wsev[3]), token_position(level, i))), target))
                if context != 'selector':
                    obs.append(Ob(['C08'], 'whitespace', 'preserved whitespace emitted in value context', path, z3.BoolVal(True), target))
        prev_is_ws = z3.And(tok_kind(level, i - 1) == TK['WhiteSpace']) if (i > 0 and (i - 1) in consumed) else z3.BoolVal(False)
        if context == 'selector':
            expect_ws = z3.And(prev_is_ws, k != TK['WhiteSpace'], k != TK['CurlyBracketBlock'])
            obs.append(Ob(['C08'], 'whitespace', 'descendant whitespace before token %d: emitted=%s' % (i, ws_front), path,
                          (z3.Not(expect_ws) if ws_front else expect_ws), target, {'token': i}))
        shape = [(e[0], e[2] if e[0] == 'out' else e[1]) for e in evs]
        # ---- classify by shape
        if not evs:
            if context == 'selector':
                obs.append(Ob(['C08'], 'conservation', 'token %d produces no output although it is not whitespace' % i, path,
                              k != TK['WhiteSpace'], target, {'token': i}))
            else:
                # value context: only whitespace may vanish (calc rule checked below)
                obs.append(Ob(['C08'], 'conservation', 'token %d produces no output although it is not whitespace' % i, path,
                              k != TK['WhiteSpace'], target, {'token': i}))
                if calc_flag is not None:
                    obs.append(calc_ob(path, level, i, consumed, calc_flag, emitted=False, target=target))
            continue
        e0 = evs[0]
        if e0[0] == 'class_name' and len(evs) == 1:
            obs.append(Ob(['C09'], 'class-call', 'write_maybe_class_name for a non-Ident token %d' % i, path, k != TK['Ident'], target))
            if tok_of(e0[1]) != (level, i):
                obs.append(Ob(['C09', 'C19'], 'provenance', 'write_maybe_class_name got another token than the one read', path, z3.BoolVal(True), target))
            obs.append(Ob(['C19'], 'position', 'class token %d handed on with a position that is not its own' % i, path,
                          z3.Not(same_pos(steptoken_pos(e0[1]), token_position(level, i))), target))
            if context != 'selector':
                obs.append(Ob(['C09'], 'nothing-else', 'class handling in value context (token %d)' % i, path, z3.BoolVal(True), target))
            flag = e0[3]
            prev_dot = z3.And(tok_kind(level, i - 1) == TK['Delim'], sc_env.payload_term(level, i - 1, 'Delim', 0) == ord('.')) \
                if (i > 0 and (i - 1) in consumed) else z3.BoolVal(False)
            obs.append(Ob(['C09'], 'in_class', 'in_class flag of ident %d differs from "previous token is ."' % i, path,
                          flag != prev_dot, target, {'token': i}))
            continue
        if e0[0] == 'rpx_dimension' and len(evs) == 1:
            obs.append(Ob(['C10', 'C08'], 'dimension-call', 'write_maybe_rpx_dimension for a non-Dimension token %d' % i, path, k != TK['Dimension'], target))
            obs.append(Ob(['C19'], 'position', 'dimension token %d handed on with a position that is not its own' % i, path,
                          z3.Not(same_pos(steptoken_pos(e0[1]), token_position(level, i))), target))
            ok_args = tok_of(e0[1]) == (level, i)
            if not ok_args:
                obs.append(Ob(['C10', 'C19'], 'provenance', 'write_maybe_rpx_dimension got another token', path, z3.BoolVal(True), target))
            pay = [sc_env.payload_term(level, i, 'Dimension', j) for j in range(4)]
            same = z3.And(e0[2] == pay[0], e0[3] == pay[1], e0[5] == pay[3])
            obs.append(Ob(['C10'], 'provenance', 'dimension fields passed on differ from the token', path, z3.Not(same), target))
            continue
        if e0[0] == 'out' and e0[2] in ('token', 'token_sp') and len(evs) == 1:
            t = tok_of(e0[3])
            if t == (level, i):
                # plain copy
                obs.append(Ob(['C08'], 'conservation', 'block token %d copied without its content' % i, path, is_kind(level, i, *OPENERS), target))
                if context == 'selector':
                    obs.append(Ob(['C09'], 'class-miss', 'Ident %d copied without class handling' % i, path, k == TK['Ident'], target))
                    if not curly_is_declaration:
                        # (a dimension directly in a selector is no CSS construct the property lists; inside blocks - media
                        #  queries, at-rule preludes, functions - it must be converted)
                        obs.append(Ob(['C10'], 'rpx-miss', 'Dimension %d copied without rpx handling' % i, path, k == TK['Dimension'], target))
                    obs.append(Ob(['C08'], 'conservation', 'whitespace token copied', path, k == TK['WhiteSpace'], target))
                else:
                    obs.append(Ob(['C10'], 'rpx-miss', 'Dimension %d copied without rpx handling' % i, path, k == TK['Dimension'], target))
                    obs.append(Ob(['C08'], 'whitespace', 'raw whitespace token copied in value context', path, k == TK['WhiteSpace'], target))
                obs.append(Ob(['C19'], 'name', 'copied token carries a source name', path,
                              z3.BoolVal(not (isinstance(e0[4], Agg) and e0[4].variant == 'None')), target))
                obs.append(Ob(['C19'], 'position', 'copied token %d does not carry its own source position' % i, path,
                              z3.Not(same_pos(steptoken_pos(e0[3]), token_position(level, i))), target))
                continue
            if t and t[0] == 'synth' and t[1] == 'WhiteSpace' and context == 'value':
                # calc whitespace re-emitted
                obs.append(Ob(['C08'], 'whitespace', 'synthesized whitespace for a non-whitespace token', path, k != TK['WhiteSpace'], target))
                if calc_flag is None:
                    obs.append(Ob(['C08'], 'whitespace', 'whitespace emitted outside calc', path, z3.BoolVal(True), target))
                else:
                    obs.append(calc_ob(path, level, i, consumed, calc_flag, emitted=True, target=target))
                obs.append(Ob(['C19'], 'position', 'synthesized calc whitespace not positioned at the whitespace token %d' % i, path,
                              z3.Not(same_pos(steptoken_pos(e0[3]), token_position(level, i))), target))
                continue
        if len(evs) == 3 and evs[0][0] == 'out' and evs[1][0] == 'recurse' and evs[2][0] == 'out':
            t0, t2 = tok_of(evs[0][3]), tok_of(evs[2][3])
            okshape = t0 == (level, i) and evs[1][2] == level and evs[1][3] == i and t2 and t2[0] == 'synth'
            if not okshape:
                obs.append(Ob(['C08'], 'conservation', 'block token %d: open/recurse/close do not refer to the same token' % i, path, z3.BoolVal(True), target))
                continue
            obs.append(Ob(['C08'], 'conservation', 'block handling for a non-block token %d' % i, path, z3.Not(is_kind(level, i, *OPENERS)), target))
            close = t2[1]
            want = z3.Or(z3.And(k == TK['CurlyBracketBlock'], z3.BoolVal(close == 'CloseCurlyBracket')),
                         z3.And(k == TK['SquareBracketBlock'], z3.BoolVal(close == 'CloseSquareBracket')),
                         z3.And(z3.Or(k == TK['ParenthesisBlock'], k == TK['Function']), z3.BoolVal(close == 'CloseParenthesis')))
            obs.append(Ob(['C08'], 'conservation', 'closing token %s does not match the opener %d' % (close, i), path, z3.Not(want), target))
            # close token carries the opener's position (C19: a closing bracket may point at its opening bracket)
            obs.append(Ob(['C19'], 'position', 'opening token %d does not carry its own source position' % i, path,
                          z3.Not(same_pos(steptoken_pos(evs[0][3]), token_position(level, i))), target))
            obs.append(Ob(['C19'], 'position', 'closing token of block %d does not point at its opening token' % i, path,
                          z3.Not(same_pos(steptoken_pos(evs[2][3]), token_position(level, i))), target))
            routine, opts = evs[1][1], evs[1][4]
            fname = sc_env.payload_term(level, i, 'Function', 0)
            is_calc = z3.And(k == TK['Function'], fname == z3.StringVal('calc'))
            if context == 'selector' and curly_is_declaration:
                # top level of a qualified rule: `{` opens the declaration block (value context), everything else stays selector
                is_curly = k == TK['CurlyBracketBlock']
                if routine == 'convert_rpx_in_block':
                    in_calc = opts is not None and z3.is_true(z3.simplify(opts[1]))
                    obs.append(Ob(['C08', 'C09'], 'dispatch', 'block %d of a selector is handed to the value routine' % i, path,
                                  z3.Not(z3.Or(is_curly, is_calc)) if not in_calc else z3.Not(is_calc), target, {'token': i}))
                else:
                    obs.append(Ob(['C08', 'C09'], 'dispatch', 'declaration block %d handed to %s' % (i, routine), path, is_curly, target, {'token': i}))
            elif context == 'selector':
                # every nested block of a selector stays in selector context (descendant combinators / classes at any depth);
                # calc() is the one function whose content is a value
                if routine == 'convert_rpx_in_block':
                    in_calc = opts is not None and z3.is_true(z3.simplify(opts[1]))
                    obs.append(Ob(['C08', 'C09'], 'dispatch', 'block %d inside a selector block is handed to the value routine' % i, path,
                                  z3.Not(is_calc) if in_calc else z3.BoolVal(True), target, {'token': i}))
                elif routine != 'convert_class_names_and_rpx_in_block':
                    obs.append(Ob(['C08', 'C09'], 'dispatch', 'block %d handed to %s' % (i, routine), path, z3.BoolVal(True), target))
            else:
                if routine != 'convert_rpx_in_block':
                    obs.append(Ob(['C09'], 'nothing-else', 'value-context block %d handed to %s' % (i, routine), path, z3.BoolVal(True), target))
                else:
                    in_calc = opts is not None and z3.is_true(z3.simplify(opts[1]))
                    obs.append(Ob(['C08'], 'calc-mode', 'calc mode of nested block %d is %s' % (i, in_calc), path,
                                  z3.Not(is_calc) if in_calc else is_calc, target))
            continue
        obs.append(Ob(['C08'], 'conservation', 'unexpected output shape for token %d: %s' % (i, shape), path, z3.BoolVal(True), target))
    return obs


def calc_ob(path, level, i, consumed, calc_flag, emitted, target):
    """whitespace token i in a value block: re-emitted iff in calc mode and adjacent to a + or - delimiter"""
    def pm(j):
        return z3.And(tok_kind(level, j) == TK['Delim'], z3.Or(sc_env.payload_term(level, j, 'Delim', 0) == ord('+'),
                                                               sc_env.payload_term(level, j, 'Delim', 0) == ord('-')))
    k = tok_kind(level, i)
    prev = pm(i - 1) if i > 0 else z3.BoolVal(False)
    nxt = z3.And(level_len(level) > i + 1, pm(i + 1))
    want = z3.And(k == TK['WhiteSpace'], calc_flag, z3.Or(prev, nxt))
    if emitted:
        return Ob(['C08'], 'calc-ws', 'whitespace %d re-emitted although not adjacent to +/- in calc' % i, path, z3.Not(want), target, {'token': i})
    return Ob(['C08'], 'calc-ws', 'whitespace %d next to +/- in calc() dropped' % i, path, want, target, {'token': i})


# ------------------------------------------------------------------------------------------------ targets
def setup_block(mod, lmax, event_names=ALL_ROUTINES):
    env = Css(lmax=lmax)
    exe = env.executor(mod, event_names)
    p = env.new_path(exe)
    env.materialize(p, 'r', 0)
    p.pc.append(z3.And(level_len('r') >= 1, is_kind('r', 0, *OPENERS)))
    env.set_cpos(p, 'r', 1, 0)
    return env, exe, p


def target_class_block(mod, lmax):
    """convert_class_names_and_rpx_in_block on the block opened by token r#0"""
    env, exe, p = setup_block(mod, lmax)
    t = time.time()
    done = exe.run('convert_class_names_and_rpx_in_block', [Ref(('heap', 'input')), Ref(('heap', 'ss'))], p)
    obs = []
    for q in done:
        if q.status == 'returned':
            obs += analyse_block_level(exe, q, 'r.0', 'selector', 'convert_class_names_and_rpx_in_block')
    return env, exe, done, obs, time.time() - t


def target_value_block(mod, lmax):
    """convert_rpx_in_block with every option value"""
    env, exe, p = setup_block(mod, lmax)
    in_calc = z3.Bool('opt_in_calc')
    some_opts = z3.Bool('opt_convert_some')
    t = time.time()
    res_done, obs = [], []
    for variant in ('none', 'some'):
        q0 = p.clone()
        if variant == 'none':
            arg = Agg('Option', 'None')
            flag = z3.BoolVal(False)
        else:
            arg = Agg('Option', 'Some', {0: Agg('ConvertOptions', None, {0: in_calc})})
            flag = in_calc
        done = exe.run('convert_rpx_in_block', [Ref(('heap', 'input')), Ref(('heap', 'ss')), arg], q0)
        for q in done:
            if q.status == 'returned':
                obs += analyse_block_level(exe, q, 'r.0', 'value', 'convert_rpx_in_block', calc_flag=flag)
                obs.append(Ob(['C09'], 'nothing-else', 'class handling reached from the value routine', q,
                              z3.BoolVal(any(e[0] == 'class_name' for e in q.events)), 'convert_rpx_in_block'))
        res_done += done
    return env, exe, res_done, obs, time.time() - t


# ------------------------------------------------------------------------------------------------ deciding obligations
def decide(exe, obs, res, props):
    """returns list of (Ob, model) for violated obligations that concern `props`"""
    bad = []
    n = 0
    for ob in obs:
        if not set(ob.props) & set(props):
            continue
        n += 1
        v = z3.simplify(ob.violated)
        if z3.is_false(v):
            res.query('unsat')
            continue
        t = time.time()
        try:
            ok, model = exe.check(exe.base + ob.path.pc + [v], want_model=True)
        except Inconclusive as e:
            res.query('unknown')
            res.inconc('obligation %s: %s' % (ob.desc, e))
            continue
        res.solver_time += time.time() - t
        if ok:
            res.query('sat')
            bad.append((ob, model))
        else:
            res.query('unsat')
    return bad, n


# ------------------------------------------------------------------------------------------------ rendering forests as CSS
STRING_PAYLOAD = [None]      # replay-time instantiation of string tokens (uninterpreted in the model)
IMPORT_PATH_POOL = ['s1', 'a b', 'a%20b', 'x/*y*/z', '\u4e2d', '%', 'a%2Fb', '100%25', "it's"]
IDENT_RX = re.compile(r'^[a-zA-Z_][a-zA-Z0-9_-]*$')


def mstr(model, term, default):
    v = model.eval(term, model_completion=True)
    try:
        s = zstr(v)
    except Exception:
        return default
    return s if IDENT_RX.match(s or '') else default


def render_token(model, level, i, env, probe):
    """CSS text of token (level, i) under `model`; nested (unexplored) blocks get the probe content"""
    k = model.eval(tok_kind(level, i), model_completion=True).as_long()
    name = [n for n, v in TK.items() if v == k][0]
    pt = lambda var, j: sc_env.payload_term(level, i, var, j)
    if name == 'Ident':
        return mstr(model, pt('Ident', 0), 'x%d' % i)
    if name == 'AtKeyword':
        return '@' + mstr(model, pt('AtKeyword', 0), 'k')
    if name == 'Hash':
        return '#1h'
    if name == 'IDHash':
        return '#h%d' % i
    if name == 'QuotedString':
        return '"%s"' % (STRING_PAYLOAD[0] if STRING_PAYLOAD[0] is not None else 's%d' % i)
    if name == 'UnquotedUrl':
        return 'url(%s)' % (STRING_PAYLOAD[0] if STRING_PAYLOAD[0] is not None and re.match(r'^[a-z0-9/._-]+$', STRING_PAYLOAD[0]) else 'u%d' % i)
    if name == 'Delim':
        c = model.eval(pt('Delim', 0), model_completion=True).as_long()
        ch = chr(c) if 33 <= c < 127 and chr(c) in '.+-*>~|!$%&=^/' else '*'
        return ch
    if name == 'Number':
        return '7'
    if name == 'Percentage':
        return '7%'
    if name == 'Dimension':
        unit = mstr(model, pt('Dimension', 3), 'px')
        return '75' + unit
    if name == 'WhiteSpace':
        return ' '
    if name == 'Colon':
        return ':'
    if name == 'Semicolon':
        return ';'
    if name == 'Comma':
        return ','
    if name in ('IncludeMatch', 'DashMatch', 'PrefixMatch', 'SuffixMatch', 'SubstringMatch'):
        return {'IncludeMatch': '~=', 'DashMatch': '|=', 'PrefixMatch': '^=', 'SuffixMatch': '$=', 'SubstringMatch': '*='}[name]
    if name == 'CDO':
        return '<!--'
    if name == 'CDC':
        return '-->'
    if name == 'Function':
        fname = mstr(model, pt('Function', 0), 'f%d' % i)
        if fname == 'url':
            # `url(` + string: the tokenizer gives Function(url) with the string inside (a bare word would make it a <url-token>)
            return 'url("%s")' % (STRING_PAYLOAD[0] if STRING_PAYLOAD[0] is not None and '"' not in STRING_PAYLOAD[0] and '\\' not in STRING_PAYLOAD[0] else 's%d' % i)
        return fname + '(' + probe + ')'
    if name == 'ParenthesisBlock':
        return '(' + probe + ')'
    if name == 'SquareBracketBlock':
        return '[' + probe + ']'
    if name == 'CurlyBracketBlock':
        return '{' + probe + '}'
    return None      # BadUrl / BadString / unmatched closers: not renderable in a well-formed sheet


def render_level(model, level, env, probe):
    n = model.eval(level_len(level), model_completion=True).as_long()
    parts = []
    for i in range(min(n, env.lmax)):
        s = render_token(model, level, i, env, probe)
        if s is None:
            return None
        parts.append(s)
    # `/**/` keeps adjacent tokens apart without introducing a whitespace token
    return '/**/'.join(parts)


def replay_sheet(css, options):
    req = [{'css': css, 'options': options}]
    r = common.replay(['css'], stdin=json.dumps(req), timeout=60)
    if r.returncode != 0:
        raise Inconclusive('replay css failed: ' + r.stderr[-200:])
    return json.loads(r.stdout)[0]


def map_mismatch(css, opts):
    """source-map oracle for replay: every entry must lie in range and in order, and an entry of a copied token must point at
    output text that starts like its source token (a closer may point at its opener).  -> (why | None, output text)"""
    req = [{'css': css, 'options': opts, 'source_map': True}]
    r = common.replay(['css'], stdin=json.dumps(req))
    out = json.loads(r.stdout)[0]
    for which_map, which_text in (('map', 'normal'), ('low_map', 'low')):
        why, text = _map_mismatch_one(css, out.get(which_map, []), out.get(which_text, ''), lenient=(which_map == 'low_map'))
        if why:
            return ('low-priority output: ' if which_map == 'low_map' else '') + why, text
    return None, out.get('normal', '')


def _map_mismatch_one(css, entries, text, lenient=False):
    """lenient (low-priority output): the synthesized host selector is positioned at the rule's block, so only entries whose source token is
    a word (copied declaration tokens) are compared with the text at their generated column"""
    u16 = text.encode('utf-16-le')
    src_lines = css.split('\n')
    prevc = -1
    for (dl, dc, sl, sc, name) in entries:
        tail = u16[dc * 2:].decode('utf-16-le', errors='ignore')
        if dl != 0 or dc < prevc or dc * 2 > len(u16):
            return 'entry (%d,%d)<-(%d,%d) out of order / out of range' % (dl, dc, sl, sc), text
        prevc = dc
        if name is None and sl < len(src_lines):
            s16 = src_lines[sl].encode('utf-16-le')
            stail = s16[sc * 2:].decode('utf-16-le', errors='ignore')
            if stail and tail:
                a, b = stail[0], tail[0]
                if lenient and not (a.isalnum() or a in '-_'):
                    continue
                same = a == b or (b in ')}]' and re.match(r'^([\[{(]|[-\w\\\u0080-\U0010ffff]+\()', stail)) or (a in '\'"' and b in '\'"') or (a.isspace() and b.isspace()) or a.lower() == b.lower()
                renum = (a in '+-.0123456789' and b in '+-.0123456789')     # numbers may be re-spelled (+1 -> 1, .5 -> 0.5)
                if not same and not renum and not a.isspace():
                    return 'entry (%d,%d)<-(%d,%d): source token starts with %r but the output at the generated column starts with %r' % (dl, dc, sl, sc, stail[:6], tail[:6]), text
    return None, text


def oracle_mismatch(css, options):
    """-> None if the real output matches the reference rewrite of the real tokenisation of `css`, else a description"""
    out = replay_sheet(css, options)
    if 'panic' in out:
        return 'panic: ' + out['panic'], out
    fin, fnorm, flow = cssref.tokenize([css, out['normal'], out['low']])
    exp, exp_low = cssref.expected(fin, options)
    got, _ = cssref.expected(fnorm, {})
    imports = [x for x in exp if x[0] == 'IMPORT']
    exp = [x for x in exp if x[0] != 'IMPORT']
    if imports:
        # the placeholder is a comment (invisible to the tokenizer): check its text; wrapper blocks are checked by shape only
        import urllib.parse
        def has_path(imp):
            f = imp[1][:1]
            return bool(f) and (f[0][0] in ('QuotedString', 'UnquotedUrl') or (f[0][0] == 'Function' and len(f[0]) > 2))
        if not all(has_path(i) for i in imports):
            return None, out      # an @import without a path is not a valid import: the property says nothing about its recovery
        found = re.findall(r'/\*%s (.*?)\*/' % re.escape(options['import_sign']), out['normal'], re.S)
        if len(found) != len(imports):
            return '%d import placeholders for %d @import rules' % (len(found), len(imports)), out
        for text, imp in zip(found, imports):
            paths = [t[1] for t in imp[1][:1] if t[0] in ('QuotedString', 'UnquotedUrl')] + [t[2] for t in imp[1][:1] if t[0] == 'Function' and len(t) > 2]
            if paths and urllib.parse.unquote(text) != paths[0]:
                return 'import placeholder %r does not decode to the path %r' % (text, paths[0]), out
        return None, out
    d = cssref.diff_streams(exp, got)
    if d is not None:
        return 'normal output differs ' + d, out
    # low-priority output: compare the token part (raw wrappers are text)
    if options.get('convert_host'):
        glow = cssref.observed(flow)
        glow = [x for x in glow if x != ('WhiteSpace',)]
        elow = [x for x in exp_low if x != ('WhiteSpace',)]
        if elow != glow:
            j = 0
            while j < len(elow) and j < len(glow) and elow[j] == glow[j]:
                j += 1
            return 'low-priority output differs at token %d: expected %s, got %s' % (j, elow[j:j + 4], glow[j:j + 4]), out
    return None, out


def target_qualified_rule(mod, lmax, stack=2):
    """parse_qualified_rule on level r (convert_host symbolic, two enclosing at-rules on the stack)"""
    env = Css(lmax=lmax)
    exe = env.executor(mod, ALL_ROUTINES)
    p = env.new_path(exe, {'at_rule_stack': stack})
    t = time.time()
    done = exe.run('parse_qualified_rule', [Ref(('heap', 'input')), Ref(('heap', 'ss'))], p)
    obs = []
    for q in done:
        if q.status != 'returned':
            continue
        obs += analyse_qualified(exe, q, env)
    return env, exe, done, obs, time.time() - t


HOST = z3.StringVal('host')


def analyse_qualified(exe, q, env):
    tgt = 'parse_qualified_rule'
    obs = []
    lows_ = [e for e in q.events if e[0] == 'out' and e[1] == 'low']
    norm = [e for e in q.events if e[0] == 'out' and e[1] == 'normal']
    warns = [e for e in q.events if e[0] == 'warning']
    conv = z3.Bool('opt_convert_host')
    host_warn = [w for w in warns if isinstance(w[1], Agg) and w[1].variant == 'HostSelectorCombination']
    other_warn = [w for w in warns if w not in host_warn]
    if other_warn:
        obs.append(Ob(['C17'], 'warning', 'unexpected warning kind in parse_qualified_rule', q, z3.BoolVal(True), tgt))
    if lows_ or host_warn:
        obs.append(Ob(['C17'], 'host-off', 'host handling although convert_host is off', q, z3.Not(conv), tgt))
    pre, chunks = split_by_consume(q.events, 'r')
    idx = [i for i, _ in chunks]
    if lows_:
        if norm:
            obs.append(Ob(['C17'], 'host-partition', ':host rule also writes to the normal output', q, z3.BoolVal(True), tgt))
        rec = [e for e in q.events if e[0] == 'recurse']
        nonws = list(idx)
        if len(nonws) != 3:
            obs.append(Ob(['C17'], 'host-shape', ':host conversion taken with %d consumed tokens' % len(nonws), q, z3.BoolVal(True), tgt))
            return obs
        a, b, c = nonws
        shape = z3.And(tok_kind('r', a) == TK['Colon'], tok_kind('r', b) == TK['Ident'], sc_env.payload_term('r', b, 'Ident', 0) == HOST,
                       tok_kind('r', c) == TK['CurlyBracketBlock'])
        obs.append(Ob(['C17'], 'host-shape', ':host conversion taken for a selector that is not exactly ":host {"', q, z3.Not(shape), tgt))
        obs += host_low_events(exe, q, lows_, rec, c)
        return obs
    if host_warn:
        if norm:
            obs.append(Ob(['C17'], 'host-partition', 'dropped :host combination still writes output', q, z3.BoolVal(True), tgt))
        if len(host_warn) != 1:
            obs.append(Ob(['C17'], 'warning', '%d HostSelectorCombination warnings for one rule' % len(host_warn), q, z3.BoolVal(True), tgt))
        if len(idx) >= 2:
            a, b = idx[0], idx[1]
            host_ident = z3.And(tok_kind('r', b) == TK['Ident'], sc_env.payload_term('r', b, 'Ident', 0) == HOST)
            host_fn = z3.And(tok_kind('r', b) == TK['Function'], sc_env.payload_term('r', b, 'Function', 0) == HOST)
            shape = z3.And(tok_kind('r', a) == TK['Colon'], z3.Or(host_fn, z3.And(host_ident, z3.BoolVal(len(idx) > 3))))
            obs.append(Ob(['C17'], 'host-shape', 'HostSelectorCombination warning for a selector that is not a :host combination', q, z3.Not(shape), tgt))
        return obs
    if not norm and not [e for e in q.events if e[0] in ('class_name', 'rpx_dimension')]:
        if idx:
            if len(idx) >= 2:
                a, b = idx[0], idx[1]
                hostish = z3.And(conv, tok_kind('r', a) == TK['Colon'],
                                 z3.Or(z3.And(tok_kind('r', b) == TK['Ident'], sc_env.payload_term('r', b, 'Ident', 0) == HOST),
                                       z3.And(tok_kind('r', b) == TK['Function'], sc_env.payload_term('r', b, 'Function', 0) == HOST)))
            else:
                hostish = z3.And(conv, tok_kind('r', idx[0]) == TK['Colon'])
            allws = z3.And([tok_kind('r', i) == TK['WhiteSpace'] for i in idx])
            obs.append(Ob(['C08', 'C17'], 'conservation', 'rule consumed without any output', q, z3.Not(z3.Or(hostish, allws)), tgt))
        return obs
    obs += analyse_block_level(exe, q, 'r', 'selector', tgt, curly_is_declaration=True)
    return obs


def host_low_events(exe, q, lows_, rec, curly_idx):
    """the low-priority output of one `:host {}` rule, event by event"""
    tgt = 'parse_qualified_rule/:host'
    obs = []
    ss = q.store[('heap', 'ss')]
    lay = sc_env.layout()
    stack = ss.fields[lay.S['cur_at_rule_stacks']]
    n = len(stack.fields)
    prefix = ss.fields[lay.S['options']].fields[lay.O['class_prefix']]
    host_is = ss.fields[lay.S['options']].fields[lay.O['host_is']]
    exp = []
    for i in range(n):
        exp.append(('raw', stack.fields[i]))
        exp.append(('raw', z3.StringVal('{')))

    def attr(name, value):
        return [('synth', 'SquareBracketBlock', None), ('synth', 'Ident', z3.StringVal(name)), ('synth', 'Delim', z3.IntVal(ord('='))),
                ('synth', 'QuotedString', value), ('synth', 'CloseSquareBracket', None)]
    pre_val = z3.If(prefix.discr == 1, prefix.payload_fn('Some', 0), z3.StringVal('')) if isinstance(prefix, SymEnum) else None
    exp += attr('wx-host', pre_val)
    has_is = host_is.discr == 1 if isinstance(host_is, SymEnum) else z3.BoolVal(False)
    exp_is = [('synth', 'Comma', None)] + attr('is', host_is.payload_fn('Some', 0) if isinstance(host_is, SymEnum) else None)
    tail = [('tok', ('r', curly_idx)), ('recurse',), ('synth', 'CloseCurlyBracket', None)] + [('raw', z3.StringVal('}'))] * n
    seq = [e for e in q.events if (e[0] == 'out' and e[1] == 'low') or e[0] == 'recurse']

    def match(expected):
        conds = []
        if len(seq) != len(expected):
            return None
        for e, x in zip(seq, expected):
            if x[0] == 'recurse':
                if e[0] != 'recurse' or e[1] != 'convert_rpx_in_block' or e[4] is not None:
                    return None
                conds.append(e[5] == z3.BoolVal(True) if isinstance(e[5], z3.ExprRef) else z3.BoolVal(False))
                continue
            if e[0] != 'out':
                return None
            if x[0] == 'raw':
                if e[2] != 'raw':
                    return None
                conds.append(e[3] == x[1])
                continue
            if e[2] != 'token':
                return None
            t = tok_of(e[3])
            if x[0] == 'tok':
                if t != x[1]:
                    return None
                continue
            if not t or t[0] != 'synth' or t[1] != x[1]:
                return None
            if x[2] is not None:
                conds.append(t[2].fields[0] == x[2])
        return z3.And(conds) if conds else z3.BoolVal(True)
    m_with = match(exp + exp_is + tail)
    m_without = match(exp + tail)
    if m_with is None and m_without is None:
        obs.append(Ob(['C17'], 'host-output', 'low-priority output of :host has an unexpected shape (%d events)' % len(seq), q, z3.BoolVal(True), tgt))
    elif m_with is not None:
        obs.append(Ob(['C17'], 'host-output', 'low-priority :host output (with [is=...]) has wrong content or host_is is not configured', q,
                      z3.Not(z3.And(has_is, m_with)), tgt))
    else:
        obs.append(Ob(['C17'], 'host-output', 'low-priority :host output has wrong content or omits the configured [is=...]', q,
                      z3.Not(z3.And(z3.Not(has_is), m_without)), tgt))
    return obs


# ------------------------------------------------------------------------------------------------ at-rules
RULE_LIST = cssref.RULE_LIST_AT_RULES


def target_at_rule(mod, lmax, stack=1):
    env = Css(lmax=lmax)
    exe = env.executor(mod, ALL_ROUTINES)
    p = env.new_path(exe, {'at_rule_stack': stack})
    t = time.time()
    afs = z3.Bool('at_file_start')
    done = exe.run('parse_at_rule', [Ref(('heap', 'input')), Ref(('heap', 'ss')), afs], p)
    obs = []
    for q in done:
        if q.status == 'returned':
            obs += analyse_at_rule(exe, q, env, afs, stack)
    return env, exe, done, obs, time.time() - t


def synth_kind(e):
    t = tok_of(e[3]) if e[0] == 'out' and e[2] in ('token', 'token_sp') else None
    return t[1] if t and t[0] == 'synth' else None


def analyse_at_rule(exe, q, env, afs, nstack):
    tgt = 'parse_at_rule'
    obs = []
    pre, chunks = split_by_consume(q.events, 'r')
    outs = [e for e in q.events if e[0] == 'out']
    ret = q.result
    lay = sc_env.layout()
    sign = q.store[('heap', 'ss')].fields[lay.S['options']].fields[lay.O['import_sign']]
    has_sign = sign.discr == 1
    if not chunks:
        # nothing consumed: must return false and emit nothing
        if outs or not z3.is_false(z3.simplify(ret)):
            obs.append(Ob(['C08'], 'conservation', 'parse_at_rule emits or returns true without consuming a token', q, z3.BoolVal(True), tgt))
        return obs
    a = chunks[0][0]
    ka = tok_kind('r', a)
    name = sc_env.payload_term('r', a, 'AtKeyword', 0)
    obs.append(Ob(['C08'], 'conservation', 'parse_at_rule consumed a non-at-keyword', q, ka != TK['AtKeyword'], tgt))
    if lows(q):
        obs.append(Ob(['C17'], 'host-partition', 'at-rule writes to the low priority output', q, z3.BoolVal(True), tgt))
    comments = [e for e in outs if synth_kind(e) == 'Comment']
    is_import = z3.And(name == z3.StringVal('import'), has_sign)
    if comments or any(isinstance(w[1], Agg) and w[1].variant == 'IllegalImportPosition' for w in q.events if w[0] == 'warning') \
            or not (chunks[0][1] and synth_kind(chunks[0][1][0]) == 'AtKeyword' and not is_media_kw(chunks[0][1][0])):
        # import branch (placeholder comment, or its diagnostics, or nothing emitted for the keyword itself)
        obs.append(Ob(['C18'], 'import-gate', 'import handling for an at-rule that is not @import or without import sign', q, z3.Not(is_import), tgt))
        obs += analyse_import(exe, q, chunks, afs, sign)
        return obs
    obs.append(Ob(['C18'], 'import-gate', '@import with a configured sign is passed through', q, is_import, tgt))
    # ---- generic at-rule
    stack0 = q.store[('heap', 'ss')].fields[lay.S['cur_at_rule_stacks']]
    if len(stack0.fields) != nstack:
        obs.append(Ob(['C17'], 'stack', 'at-rule stack not restored at return (%d entries, %d at entry)' % (len(stack0.fields), nstack), q, z3.BoolVal(True), tgt))
    first = chunks[0][1]
    kw = first[0]
    kwt = tok_of(kw[3])
    obs.append(Ob(['C08'], 'conservation', 'at-keyword re-emitted with another name', q, kwt[2].fields[0] != name, tgt))
    obs.append(Ob(['C19'], 'position', 'at-keyword position differs from the token position', q,
                  z3.Not(same_pos(steptoken_pos(kw[3]), token_position('r', a))), tgt))
    if len(first) != 1:
        obs.append(Ob(['C08'], 'conservation', 'extra output for the at-keyword', q, z3.BoolVal(True), tgt))
    ended = False
    for (i, evs) in chunks[1:]:
        k = tok_kind('r', i)
        if ended:
            obs.append(Ob(['C08'], 'conservation', 'token %d consumed after the end of the at-rule' % i, q, z3.BoolVal(True), tgt))
        if len(evs) == 1 and evs[0][0] == 'out' and tok_of(evs[0][3]) == ('r', i):
            obs.append(Ob(['C08'], 'conservation', 'block token %d of an at-rule prelude copied without content' % i, q, is_kind('r', i, *OPENERS), tgt))
            if not z3.is_false(z3.simplify(k == TK['Semicolon'])) and exe.feasible(q, [k == TK['Semicolon']]):
                ended_here = not exe.feasible(q, [k != TK['Semicolon']])
                ended = ended or ended_here
            continue
        recs = [e for e in evs if e[0] == 'recurse']
        if len(recs) == 1 and evs[0][0] == 'out' and tok_of(evs[0][3]) == ('r', i) and evs[-1][0] == 'out' and synth_kind(evs[-1]):
            rec = recs[0]
            close = synth_kind(evs[-1])
            want = z3.Or(z3.And(k == TK['CurlyBracketBlock'], z3.BoolVal(close == 'CloseCurlyBracket')),
                         z3.And(k == TK['SquareBracketBlock'], z3.BoolVal(close == 'CloseSquareBracket')),
                         z3.And(z3.Or(k == TK['ParenthesisBlock'], k == TK['Function']), z3.BoolVal(close == 'CloseParenthesis')))
            obs.append(Ob(['C08'], 'conservation', 'closing token %s does not match opener %d' % (close, i), q, z3.Not(want), tgt))
            is_curly = k == TK['CurlyBracketBlock']
            rule_bearing = z3.Or([name == z3.StringVal(n) for n in RULE_LIST])
            if rec[1] == 'parse_rules':
                obs.append(Ob(['C08', 'C09'], 'at-dispatch', 'block of an at-rule that holds declarations is parsed as a rule list', q,
                              z3.Not(z3.And(is_curly, rule_bearing)), tgt))
                if rec[2] != 'r.%d' % i:
                    obs.append(Ob(['C08'], 'conservation', 'rule list parsed on the wrong block', q, z3.BoolVal(True), tgt))
                ended = True
            elif rec[1] == 'convert_rpx_in_block':
                obs.append(Ob(['C08', 'C09'], 'at-dispatch', 'block of a rule-bearing at-rule (@media/@supports/@layer/@container/@scope/...) is processed as declarations', q,
                              z3.Not(z3.And(is_curly, z3.Not(rule_bearing))), tgt, {'token': i}))
                ended = True
            elif rec[1] == 'convert_class_names_and_rpx_in_block':
                obs.append(Ob(['C08', 'C09'], 'at-dispatch', 'the {} block of an at-rule is processed as a prelude block', q, is_curly, tgt))
            if rec[1] in ('parse_rules', 'convert_rpx_in_block'):
                # C17: while the block is processed the prelude text is on the at-rule stack (and nothing else was added)
                st = rec[6]
                if not (isinstance(st, Agg) and len(st.fields) == nstack + 1):
                    obs.append(Ob(['C17'], 'stack', 'at-rule stack has %s entries while the block is processed (expected %d)' % (
                        len(st.fields) if isinstance(st, Agg) else '?', nstack + 1), q, z3.BoolVal(True), tgt))
                else:
                    seg = st.fields[nstack]
                    okseg = isinstance(seg, Opaque) and seg.tag == 'segment' and seg.info['which'] == 'normal'
                    if okseg:
                        # the segment spans from just before the at-keyword to just before the `{`
                        n_before_kw = sum(1 for e in q.events[:q.events.index(kw)] if e[0] == 'out')
                        n_before_open = sum(1 for e in q.events[:q.events.index(evs[0])] if e[0] == 'out')
                        okseg = z3.is_int_value(seg.info['from']) and seg.info['from'].as_long() == n_before_kw and \
                            z3.is_int_value(seg.info['to']) and seg.info['to'].as_long() == n_before_open
                    if not okseg:
                        obs.append(Ob(['C17'], 'stack', 'the replayed at-rule prelude is not the output segment keyword..block', q, z3.BoolVal(True), tgt))
            continue
        obs.append(Ob(['C08'], 'conservation', 'unexpected output shape for at-rule token %d: %s' % (i, [e[0] for e in evs]), q, z3.BoolVal(True), tgt))
    return obs


def lows(q):
    return [e for e in q.events if e[0] == 'out' and e[1] == 'low']


def is_media_kw(e):
    t = tok_of(e[3])
    v = t[2].fields.get(0) if t and t[0] == 'synth' else None
    return isinstance(v, z3.ExprRef) and z3.is_string_value(v) and zstr(v) == 'media'


def token_position(level, i, pending=-1):
    a = (z3.IntVal(sc_env.level_code(level)), z3.IntVal(i), z3.IntVal(pending))
    return Agg('Position', None, {0: sc_env.loc_line(*a), 1: sc_env.loc_col(*a) - 1})


def same_pos(p, q):
    if p is None or q is None:
        return z3.BoolVal(False)
    return z3.And(p.fields[0] == q.fields[0], p.fields[1] == q.fields[1])


def import_path_token(level, i):
    """(condition: token i is a path in string / url-token / url("string") form, the path as a term) - the three spellings CSS gives an
    import path (the property quantifies over "string or url() form")"""
    k = tok_kind(level, i)
    child = '%s.%d' % (level, i)
    fn = z3.And(k == TK['Function'], sc_env.payload_term(level, i, 'Function', 0) == z3.StringVal('url'),
                level_len(child) == 1, tok_kind(child, 0) == TK['QuotedString'])
    cond = z3.Or(k == TK['QuotedString'], k == TK['UnquotedUrl'], fn)
    term = z3.If(k == TK['QuotedString'], sc_env.payload_term(level, i, 'QuotedString', 0),
                 z3.If(k == TK['UnquotedUrl'], sc_env.payload_term(level, i, 'UnquotedUrl', 0), sc_env.payload_term(child, 0, 'QuotedString', 0)))
    return cond, term


def analyse_import(exe, q, chunks, afs, sign):
    """C18: the placeholder of one `@import` (import sign configured)"""
    tgt = 'parse_at_rule/@import'
    obs = []
    outs = [e for e in q.events if e[0] == 'out']
    warns = [e for e in q.events if e[0] == 'warning']
    pos_w = [w for w in warns if isinstance(w[1], Agg) and w[1].variant == 'IllegalImportPosition']
    unexpected = [w for w in warns if isinstance(w[1], Agg) and w[1].variant == 'UnexpectedCharacter']
    obs.append(Ob(['C18'], 'import-position', 'IllegalImportPosition warning count %d does not match at_file_start' % len(pos_w), q,
                  (afs if len(pos_w) == 1 else z3.Not(afs)) if len(pos_w) <= 1 else z3.BoolVal(True), tgt))
    comments = [e for e in outs if synth_kind(e) == 'Comment']
    if not comments:
        # error path: must carry a diagnostic or be an import without a string
        if not unexpected:
            idx = [i for i, _ in chunks]
            s_ok = z3.BoolVal(False)
            if len(idx) >= 2:
                s_ok = import_path_token('r', idx[1])[0]
            obs.append(Ob(['C18'], 'import-lost', '@import <string | url> ... produces neither a placeholder nor a diagnostic', q, s_ok, tgt))
        # once the media condition has started (the @media keyword is out) everything up to `;` belongs to it: only a `{` block may be rejected
        media_out = [e for e in outs if synth_kind(e) == 'AtKeyword' and is_media_kw(e)]
        if media_out:
            wi = q.events.index(unexpected[0]) if unexpected else len(q.events)
            cons = [e for e in q.events[:wi] if e[0] == 'consume' and e[1] == 'r']      # consumed before the diagnostic was raised
            if cons:
                j = cons[-1][2]
                obs.append(Ob(['C18'], 'import-cond', 'a token of the media condition of @import (token %d) is rejected' % j, q, tok_kind('r', j) != TK['CurlyBracketBlock'], tgt, {'token': j}))
        # (a rejected import that had already opened layer / supports wrappers leaves them open in the output: the input is not a valid
        #  import prelude - `@import "a" layer(x) #h;` - and is diagnosed, so the property does not speak about it; recorded in DESIGN only)
        return obs
    if len(comments) != 1:
        obs.append(Ob(['C18'], 'import-comment', '%d placeholder comments for one @import' % len(comments), q, z3.BoolVal(True), tgt))
        return obs
    c = comments[0]
    ci = outs.index(c)
    idx = [i for i, _ in chunks]
    s = idx[1] if len(idx) > 1 else None
    if s is None:
        obs.append(Ob(['C18'], 'import-comment', 'placeholder without a path token', q, z3.BoolVal(True), tgt))
        return obs
    is_path, path_term = import_path_token('r', s)
    content = tok_of(c[3])[2].fields[0]
    want = z3.Concat(sign.payload_fn('Some', 0), z3.StringVal(' '), sc_env.urlenc(path_term))
    obs.append(Ob(['C18'], 'import-comment', 'placeholder text is not "<sign> <percent-encoded path of the string token>"', q, content != want, tgt))
    obs.append(Ob(['C18'], 'import-comment', 'path token is neither a string nor a url', q, z3.Not(is_path), tgt))
    before, after = outs[:ci], outs[ci + 1:]
    opens = [e for e in before if synth_kind(e) == 'CurlyBracketBlock']
    closes = [e for e in after if synth_kind(e) == 'CloseCurlyBracket']
    if len(after) != len(closes):
        obs.append(Ob(['C18'], 'import-wrap', 'output after the placeholder is not only closing braces', q, z3.BoolVal(True), tgt))
    if len(opens) != len(closes):
        obs.append(Ob(['C18'], 'import-wrap', '%d wrapper blocks opened, %d closed' % (len(opens), len(closes)), q, z3.BoolVal(True), tgt))
    # one wrapper per layer()/supports() function, plus one for media conditions; each introduced by its at-keyword
    nwrap = 0
    media_ev = [e for e in outs if synth_kind(e) == 'AtKeyword' and is_media_kw(e)]
    if len(media_ev) > 1:
        obs.append(Ob(['C18'], 'import-wrap', 'more than one @media wrapper', q, z3.BoolVal(True), tgt))
    media_at = q.events.index(media_ev[0]) if media_ev else None
    if media_ev:
        nwrap += 1
    consume_at = {}
    for n_, e in enumerate(q.events):
        if e[0] == 'consume' and e[1] == 'r':
            consume_at[e[2]] = n_
    media_tokens = 0
    for (i, evs) in chunks[2:]:
        k = tok_kind('r', i)
        in_media = media_at is not None and consume_at.get(i, -1) > media_at
        evs = [e for e in evs if e is not (media_ev[0] if media_ev else None)]
        if not in_media:
            evs = [e for e in evs if not (synth_kind(e) in ('Comment', 'CloseCurlyBracket') and q.events.index(e) >= q.events.index(c))]
        if in_media:
            body = [e for e in evs if synth_kind(e) not in ('CurlyBracketBlock', 'Comment', 'CloseCurlyBracket')]
            if not body:
                obs.append(Ob(['C18'], 'import-cond', 'media condition token %d is dropped' % i, q, k != TK['Semicolon'], tgt, {'token': i}))
            else:
                media_tokens += 1
                if not (body[0][0] == 'out' and tok_of(body[0][3]) == ('r', i)):
                    obs.append(Ob(['C18'], 'import-cond', 'media condition token %d is not copied' % i, q, z3.BoolVal(True), tgt))
                if any(e[0] == 'recurse' for e in body):
                    if not (len(body) == 3 and body[1][0] == 'recurse' and body[1][3] == i and synth_kind(body[2])):
                        obs.append(Ob(['C18'], 'import-cond', 'media condition block %d is not transferred as open/content/close' % i, q, z3.BoolVal(True), tgt))
                else:
                    obs.append(Ob(['C18'], 'import-cond', 'media condition block %d copied without content' % i, q, is_kind('r', i, *OPENERS), tgt))
            continue
        if not evs:
            obs.append(Ob(['C18'], 'import-cond', 'import condition token %d is dropped' % i, q, k != TK['Semicolon'], tgt, {'token': i}))
            continue
        e0 = evs[0]
        if synth_kind(e0) == 'AtKeyword':
            fname = sc_env.payload_term('r', i, 'Function', 0)
            nm = tok_of(e0[3])[2].fields[0]
            obs.append(Ob(['C18'], 'import-cond', 'wrapper at-keyword for token %d is not the layer/supports function name' % i, q,
                          z3.Not(z3.And(k == TK['Function'], nm == fname, z3.Or(fname == z3.StringVal('layer'), fname == z3.StringVal('supports')))), tgt))
            if not any(synth_kind(e) == 'CurlyBracketBlock' for e in evs):
                obs.append(Ob(['C18'], 'import-wrap', 'layer/supports condition %d opens no wrapper block' % i, q, z3.BoolVal(True), tgt))
            if not any(e[0] == 'recurse' and e[3] == i for e in evs):
                obs.append(Ob(['C18'], 'import-cond', 'content of condition %d is not transferred' % i, q, z3.BoolVal(True), tgt))
            nwrap += 1
            continue
        obs.append(Ob(['C18'], 'import-cond', 'unexpected handling of import condition token %d' % i, q, z3.BoolVal(True), tgt))
    if media_ev and media_tokens == 0:
        obs.append(Ob(['C18'], 'import-wrap', '@media wrapper without any media condition', q, z3.BoolVal(True), tgt))
    if nwrap != len(opens):
        obs.append(Ob(['C18'], 'import-wrap', '%d conditions but %d wrapper blocks' % (nwrap, len(opens)), q, z3.BoolVal(True), tgt))
    return obs


# ------------------------------------------------------------------------------------------------ class-name effect (C09 / C19)
def target_class_name(mod):
    """write_maybe_class_name: every option combination, symbolic in_class"""
    env = Css(lmax=1)
    exe = env.executor(mod, [])
    p = env.new_path(exe)
    env.materialize(p, 'r', 0)
    p.pc.append(tok_kind('r', 0) == TK['Ident'])
    name = sc_env.payload_term('r', 0, 'Ident', 0)
    pos = Agg('Position', None, {0: z3.Int('cn_line'), 1: z3.Int('cn_col')})
    p.store[('heap', 'next')] = Agg('StepToken', None, {0: p.store[('tok', 'r', 0)], 1: pos})
    p.store[('heap', 'src')] = name
    in_class = z3.Bool('in_class')
    t = time.time()
    # arguments by parameter type (the signature may be refactored: the spelling argument is redundant with the token)
    hdr = mod.headers.get('write_maybe_class_name', '')
    ptypes = re.findall(r'_\d+: ([^,)]+(?:<[^>]*>)?)', hdr.split('->')[0])
    cargs = []
    for ty in ptypes:
        if 'StepParser' in ty:
            cargs.append(Ref(('heap', 'input')))
        elif 'StyleSheetTransformer' in ty:
            cargs.append(Ref(('heap', 'ss')))
        elif 'StepToken' in ty:
            cargs.append(Ref(('heap', 'next')))
        elif 'CowRcStr' in ty or 'str' in ty:
            cargs.append(Ref(('heap', 'src')))
        elif ty.strip() == 'bool':
            cargs.append(in_class)
        else:
            raise MirUnsupported('write_maybe_class_name: parameter of type %s' % ty)
    if not cargs:
        raise MirUnsupported('write_maybe_class_name: header %r' % hdr[:80])
    done = exe.run('write_maybe_class_name', cargs, p)
    obs = []
    tgt = 'write_maybe_class_name'
    ss = p.store[('heap', 'ss')]
    lay = sc_env.layout()
    prefix, sign = ss.fields[lay.S['options']].fields[lay.O['class_prefix']], ss.fields[lay.S['options']].fields[lay.O['class_prefix_sign']]
    has_prefix, has_sign = prefix.discr == 1, sign.discr == 1
    for q in done:
        if q.status != 'returned':
            continue
        outs = [e for e in q.events if e[0] == 'out']
        if any(e[1] != 'normal' for e in outs):
            obs.append(Ob(['C17'], 'host-partition', 'class name written to the low-priority output while using_low_priority is false', q, z3.BoolVal(True), tgt))
        comments = [e for e in outs if synth_kind(e) == 'Comment']
        rest = [e for e in outs if e not in comments]
        obs.append(Ob(['C09'], 'sign', 'prefix-sign comment count %d does not match (in_class and sign configured)' % len(comments), q,
                      (z3.Not(z3.And(in_class, has_sign)) if len(comments) == 1 else z3.And(in_class, has_sign)) if len(comments) <= 1 else z3.BoolVal(True), tgt))
        for cm in comments:
            obs.append(Ob(['C09'], 'sign', 'prefix-sign comment text differs from the configured sign', q,
                          tok_of(cm[3])[2].fields[0] != sign.payload_fn('Some', 0), tgt))
            obs.append(Ob(['C19'], 'position', 'prefix-sign comment not positioned at the class token', q, z3.Not(same_pos(steptoken_pos(cm[3]), pos)), tgt))
            if outs.index(cm) != 0:
                obs.append(Ob(['C09'], 'sign', 'prefix-sign comment does not precede the class name', q, z3.BoolVal(True), tgt))
        if len(rest) != 1:
            obs.append(Ob(['C09'], 'effect', 'class token emitted %d times' % len(rest), q, z3.BoolVal(True), tgt))
            continue
        e = rest[0]
        t_ = tok_of(e[3])
        obs.append(Ob(['C19'], 'position', 'emitted class token not positioned at the input token', q, z3.Not(same_pos(steptoken_pos(e[3]), pos)), tgt))
        if t_ == ('r', 0):
            # unchanged
            obs.append(Ob(['C09'], 'effect', 'class selector left without the configured prefix', q, z3.And(in_class, has_prefix), tgt))
            if not (isinstance(e[4], Agg) and e[4].variant == 'None'):
                obs.append(Ob(['C19'], 'name', 'unchanged token carries a source name', q, z3.BoolVal(True), tgt))
        elif t_ and t_[0] == 'synth' and t_[1] == 'Ident':
            obs.append(Ob(['C09'], 'effect', 'identifier rewritten although it is not a class selector or no prefix is configured', q,
                          z3.Not(z3.And(in_class, has_prefix)), tgt))
            want = z3.Concat(prefix.payload_fn('Some', 0), z3.StringVal('--'), name)
            obs.append(Ob(['C09'], 'effect', 'rewritten class is not "<prefix>--<name>"', q, t_[2].fields[0] != want, tgt))
            src = e[4]
            oksrc = isinstance(src, Agg) and src.variant == 'Some' and isinstance(src.fields[0], Agg) and src.fields[0].variant == 'Ident'
            if not oksrc:
                obs.append(Ob(['C19'], 'name', 'rewritten class carries no source name', q, z3.BoolVal(True), tgt))
            else:
                obs.append(Ob(['C19'], 'name', 'source name of the rewritten class is not the original spelling', q, src.fields[0].fields[0] != name, tgt))
        else:
            obs.append(Ob(['C09'], 'effect', 'unexpected token emitted for a class name', q, z3.BoolVal(True), tgt))
    return env, exe, done, obs, time.time() - t


# ------------------------------------------------------------------------------------------------ driver shared by C08 C09 C17 C18 C19
TARGETS = {
    'class_block': target_class_block, 'value_block': target_value_block, 'qualified_rule': target_qualified_rule,
    'at_rule': target_at_rule,
}


PROBE_VARIANT = [0]
PROBES = ['.q .r', ' .q .r ', '.q .r ', ' .q']


def probe_for(kind_name, target):
    """content of a nested block the analysed routine hands to another routine (free in the model)"""
    if kind_name == 'CurlyBracketBlock':
        return '.q .r{w:1rpx}' if target == 'at_rule' else 'w:1rpx'
    return PROBES[PROBE_VARIANT[0]]


def witness_css(env, model, target):
    """CSS text in which the analysed routine meets the forest of `model` (None if not renderable)"""
    def probe_render(level):
        n = model.eval(level_len(level), model_completion=True).as_long()
        parts = []
        for i in range(min(n, env.lmax)):
            k = model.eval(tok_kind(level, i), model_completion=True).as_long()
            kn = [x for x, v in TK.items() if v == k][0]
            s = render_token(model, level, i, env, probe_for(kn, target))
            if s is None:
                return None
            parts.append(s)
        return '/**/'.join(parts)
    if target in ('class_block', 'value_block'):
        inner = probe_render('r.0')
        if inner is None:
            return None
        k0 = model.eval(tok_kind('r', 0), model_completion=True).as_long()
        kn = [x for x, v in TK.items() if v == k0][0]
        if target == 'class_block':
            opener = {'Function': ':f0(', 'ParenthesisBlock': ':g(', 'SquareBracketBlock': '[', 'CurlyBracketBlock': None}[kn]
            if opener is None:
                return None
            closer = ']' if kn == 'SquareBracketBlock' else ')'
            inner2 = inner if kn != 'ParenthesisBlock' else '(' + inner + ')'
            return 'a' + opener + inner2 + closer + '{}'
        in_calc = z3.is_true(model.eval(z3.Bool('opt_in_calc'), model_completion=True))
        return 'a{b:calc(' + inner + ')}' if in_calc else 'a{' + inner + '}'
    css = probe_render('r')
    if css is None:
        return None
    if target == 'qualified_rule' and '{' not in css:
        css += '{}'
    if target == 'at_rule' and not z3.is_true(model.eval(z3.Bool('at_file_start'), model_completion=True)):
        css = 'z{}' + css
    return css


def witness_options(model):
    def opt(name, default):
        some_ = z3.is_true(model.eval(z3.Bool('opt_%s_some' % name), model_completion=True))
        if not some_:
            return None
        return default
    return {'class_prefix': 'p', 'class_prefix_sign': None, 'rpx_ratio': 750.0, 'import_sign': opt('import_sign', 'IMP'),
            'convert_host': z3.is_true(model.eval(z3.Bool('opt_convert_host'), model_completion=True)), 'host_is': opt('host_is', 'hi')}


RENDERABLE = [n for n in TK if n not in ('BadUrl', 'BadString', 'CloseParenthesis', 'CloseSquareBracket', 'CloseCurlyBracket', 'Comment', 'CDO', 'CDC')]


def renderable_constraints(path, env):
    cs = []
    for key in path.store:
        if key[0] == 'tok':
            cs.append(z3.Or([tok_kind(key[1], key[2]) == TK[n] for n in RENDERABLE]))
    return cs


def run_property(prop, tier, targets, extra_targets=(), entry=('constructor', 'rule_list')):
    """shared driver: run the targets, decide the obligations of `prop`, replay the violated ones"""
    from lib.common import Result
    res = Result(prop, 'other')
    res.engines = ['M open-environment mode (symbolic token forest, output events)']
    mod = Module(common.mir_dump('sc'))
    lmax = 4 if tier == 'thorough' else 3
    total_paths = total_obs = 0
    classes = {}
    unsupported = []
    # assume-guarantee across routines: which fields of the transformer may a routine leave changed?  (frame condition)
    Css.HAVOC = ()
    havoc = compute_modifies(mod, res)
    Css.HAVOC = tuple(sorted(havoc))
    lay = sc_env.layout()
    res.coverage['frame'] = {'fields_modified_by_routines': [lay.ss[i][0] for i in Css.HAVOC],
                             'meaning': 'after a call to another routine these fields are arbitrary in the caller (everything else is unchanged: checked per routine)'}
    for name in targets:
        fn = TARGETS[name]
        # the at-rule target spends two tokens on `@import "path"`: one more token per level so that a condition list is within the bound
        L = lmax + 1 if (name == 'at_rule' and prop == 'C18' and tier != 'thorough') else lmax
        try:
            env, exe, done, obs, dt = fn(mod, L)
        except MirUnsupported as e:
            unsupported.append((name, str(e)))
            continue
        res.solver_time += exe.stats['solver_time']
        returned = [q for q in done if q.status == 'returned']
        total_paths += len(done)
        for f in exe.findings:
            # panics / unreachable / unwinding inside the routine (C01-level obligations) are reported under every property that uses the routine
            if f.kind == 'unwind':
                res.inconc('%s: unwinding bound reached (%s)' % (name, f.info))
            else:
                classes.setdefault(('exec', f.kind), []).append((Ob([prop], 'exec', f.kind, f.path, z3.BoolVal(True), name), f.model, env, exe, name))
        if not returned:
            res.inconc('%s: no returning path (vacuous)' % name)
        bad, n = decide(exe, obs, res, [prop])
        total_obs += n
        log('[%s] %s: lmax=%d paths=%d obligations(%s)=%d violated=%d exec-findings=%d (%.1fs)' % (prop, name, L, len(done), prop, n, len(bad), len(exe.findings), dt))
        res.functions.append({'routine': name, 'max_tokens_per_level': L, 'paths': len(done), 'obligations': n,
                              'contracts': sorted(exe.stats.get('contracts_used', {}))})
        for ob, model in bad:
            classes.setdefault((name, ob.cls), []).append((ob, model, env, exe, name))
        # translator / oracle validation: a few explored forests through the real code and the reference rewrite
        validate_samples(res, exe, env, returned, name)
    for name in extra_targets:
        if name == 'class_name':
            try:
                env, exe, done, obs, dt = target_class_name(mod)
            except MirUnsupported as e:
                unsupported.append(('write_maybe_class_name', str(e)))
                continue
            res.solver_time += exe.stats['solver_time']
            total_paths += len(done)
            bad, n = decide(exe, obs, res, [prop])
            total_obs += n
            log('[%s] write_maybe_class_name: paths=%d obligations=%d violated=%d' % (prop, len(done), n, len(bad)))
            res.functions.append({'routine': 'write_maybe_class_name', 'paths': len(done), 'obligations': n})
            for ob, model in bad:
                classes.setdefault((name, ob.cls), []).append((ob, model, env, exe, name))
    # ---- replay one witness per violated class
    for (tname, cls), items in sorted(classes.items(), key=lambda kv: str(kv[0])):
        confirmed = False
        tried = 0
        # witnesses of distinct obligations first (one class can hold several kinds of deviation)
        by_desc = {}
        for it in items:
            by_desc.setdefault(it[0].desc, []).append(it)
        order = []
        for k in range(3):
            for d in by_desc:
                if k < len(by_desc[d]):
                    order.append(by_desc[d][k])
        for ob, model, env, exe, name in order[:9]:
            tried += 1
            m2 = model
            try:
                okr, mr = exe.check(exe.base + ob.path.pc + [z3.simplify(ob.violated)] + renderable_constraints(ob.path, env), want_model=True)
                if okr:
                    m2 = mr
            except Inconclusive:
                pass
            if name == 'class_name':
                confirmed = replay_class_name(res, prop, ob, m2)
                if confirmed:
                    break
                continue
            pool = [(sp, 0) for sp in IMPORT_PATH_POOL] if cls.startswith('import') else [(None, v) for v in range(len(PROBES))]
            hit = False
            for sp, pv in pool:
                # string payloads / percent-encoding / the content of nested blocks are free in the model: instantiate them
                STRING_PAYLOAD[0] = sp
                PROBE_VARIANT[0] = pv
                css = witness_css(env, m2, name)
                STRING_PAYLOAD[0] = None
                PROBE_VARIANT[0] = 0
                if css is None:
                    break
                opts = witness_options(m2)
                why, out = oracle_mismatch(css, opts)
                if why is not None:
                    res.violation({'engine': 'M', 'harness': tname, 'class': cls},
                                  '%s: %s | input %r -> %r (%s)' % (name, ob.desc, css, out.get('normal'), why), {'css': css, 'options': opts})
                    hit = True
                    break
            if hit:
                confirmed = True
                break
            css = witness_css(env, m2, name)
            if css is None:
                continue
            opts = witness_options(m2)
            if cls == 'stack':
                # the at-rule stack only shows in the wrappers of a *later* :host rule: compose the scenario
                css = '@media (a){' + css + ':host{c:d}}@supports (b){:host{e:f}}'
                opts['convert_host'] = True
            why, out = oracle_mismatch(css, opts)
            if why is None and cls == 'position':
                # provenance is only visible in the source map: the witness, the witness with its trailing closers removed (blocks
                # left open at the end of input), and two fixed sheets
                for css2 in [css, css.rstrip(')}] '), 'a{b:calc(1px + 2px) c}', 'a{b:calc(1px + 2px', '@media (a){.x{y:z']:
                    w2, text = map_mismatch(css2, opts)
                    if w2:
                        why, out, css = 'source map: ' + w2, {'normal': text}, css2
                        break
            res.coverage['traces_validated_against_impl'] = res.coverage.get('traces_validated_against_impl', 0) + 1
            if why is not None:
                res.violation({'engine': 'M', 'harness': tname, 'class': cls},
                              '%s: %s | input %r -> %r (%s)' % (name, ob.desc, css, out.get('normal'), why),
                              {'css': css, 'options': opts})
                confirmed = True
                break
        if not confirmed:
            ob = items[0][0]
            res.inconc('%s/%s: %s - %d witnesses tried, none reproduces through from_css (model-level violation only)' % (tname, cls, ob.desc, tried))
    res.bounds = {'tokens_per_level': lmax, 'nesting': 'any depth (a nested block is an event naming a routine that is analysed separately)',
                  'loop_unwinding': lmax * 3 + 6}
    res.assumptions = ['cssparser::Parser behaves as the token-forest contract of mirsym/sc_env.py (documented API meaning; validated against the real parser on sampled forests)',
                       'calls to the other routines of the transformer are events with the cursor effect their own analysis establishes (assume-guarantee)',
                       'format!/urlencoding::encode/to_css are opaque functions of their arguments']
    res.outside = ['cssparser tokenizer and serializer (separators, spelling-sensitive values, escapes)', 'levels longer than the token bound in one step (no inductive loop step yet)',
                   'comments', 'sourcemap crate']
    res.coverage.update({'explanation': 'open-environment symbolic execution of the transformer routines over all token forests with <= %d tokens per level; '
                                        'every finished path yields trace obligations pc => predicate that z3 decides; violated ones are rendered as CSS and replayed through from_css against a reference rewrite' % lmax,
                         'obligations': total_obs, 'discharged': res.queries.get('unsat', 0), 'paths': total_paths,
                         'evaluations': total_obs, 'distinct_nontrivial': total_obs})
    # ---- routines the executor could not run: nothing is decided for them; probe the real code and say so
    from checks import css_entry
    for name, why in unsupported:
        key = {'engine': 'replay', 'harness': name, 'class': 'unsupported'}
        what = '%s is outside the executor (%s): not decided' % (name, why[:140])
        if not css_entry.probe_sheets(res, key, what):
            res.inconc(what + '; the probe sheets show no deviation')
    # ---- what the routine-level analysis assumes about its start state and about the top-level loop
    if entry:
        css_entry.run(res, mod, prop, entry)
    return res


def validate_samples(res, exe, env, returned, name, k=6):
    import random
    rnd = random.Random(res.seed * 1000 + len(returned))
    if not returned:
        return
    for q in rnd.sample(returned, min(k, len(returned))):
        try:
            okm, model = exe.check(exe.base + q.pc + renderable_constraints(q, env), want_model=True)
        except Inconclusive:
            continue
        if not okm:
            continue
        css = witness_css(env, model, name)
        if css is None:
            continue
        opts = witness_options(model)
        why, out = oracle_mismatch(css, opts)
        if why is not None:
            # the reference rewrite and the real code disagree on an input for which every trace obligation held:
            # either the oracle or the contract model is wrong -> never a pass, never a violation
            res.inconc('validation: %s on %r (options %s): %s' % (name, css, {k_: v for k_, v in opts.items() if v}, why))
        else:
            res.coverage['traces_validated_against_impl'] = res.coverage.get('traces_validated_against_impl', 0) + 1
            res.sample({'routine': name, 'css': css, 'output': out.get('normal'), 'low': out.get('low')})


def replay_class_name(res, prop, ob, model):
    cases = [('.a{}', {'class_prefix': 'p'}, '.p--a{}'), ('.a{}', {}, '.a{}'), ('a{}', {'class_prefix': 'p'}, 'a{}'),
             ('.a{}', {'class_prefix': 'p', 'class_prefix_sign': 'S'}, '/*S*/'), ('.a{}', {'class_prefix': ''}, '.--a{}'),
             ('.a.b c{}', {'class_prefix': 'p'}, '.p--a.p--b c{}')]
    for css, opts, want in cases:
        out = replay_sheet(css, opts)
        got = out.get('normal', '')
        if (want not in got) if want.startswith('/*') else (got != want):
            res.violation({'engine': 'M', 'harness': 'write_maybe_class_name', 'class': ob.cls},
                          'write_maybe_class_name: %s | %r with %s -> %r (expected %r)' % (ob.desc, css, opts, got, want), {'css': css, 'options': opts})
            return True
    return False


def compute_modifies(mod, res):
    """least set of transformer fields (besides outputs and warnings) that some routine can leave changed; fixpoint with havoc"""
    hav = set()
    for it in range(3):
        Css.HAVOC = tuple(sorted(hav))
        new = set(hav)
        for name, fn in TARGETS.items():
            env, exe, done, obs, dt = fn(mod, 2)
            res.solver_time += exe.stats['solver_time']
            new |= Css.modified_fields(done)
        if new == hav:
            break
        hav = new
    Css.HAVOC = ()
    if hav:
        lay = sc_env.layout()
        log('[frame] routines may leave these transformer fields changed: %s' % [lay.ss[i][0] for i in sorted(hav)])
    return hav
