"""node replay for C06: create(D0); update(D1, U) must render like create(D1)  (search over single-leaf changes)."""
import json
import os
import subprocess

from lib import common
from . import model as M


def search(gen_object, runtime, program, tries=3000, seed=1):
    if 'slot' in program.get('scopes', []):
        return None
    names = [n for n in M.free_ids(program['expr']) if n not in ('item', 'index', 'j2', 'k2', 'sv')]
    inp = json.dumps({'gen_object': gen_object, 'runtime': runtime, 'names': names, 'tries': tries, 'seed': seed})
    r = subprocess.run(['node', os.path.join(common.VERIF, 'replay', 'js', 'update.js')], input=inp, stdout=subprocess.PIPE,
                       stderr=subprocess.PIPE, text=True, timeout=180)
    if r.returncode != 0:
        raise common.Inconclusive('node update replay failed: ' + r.stderr[-400:])
    out = json.loads(r.stdout)
    if out.get('found'):
        return json.dumps(out['found'])[:600]
    return None
