"""C08 - stylesheet output keeps the token stream and all meaningful whitespace (routine/trace level, engine M open environment)."""
import json
from checks import css_common as cc


def main(tier):
    res = cc.run_property('C08', tier, ['class_block', 'value_block', 'qualified_rule', 'at_rule'], extra_targets=[])
    return res.finish()


def replay(path):
    d = json.load(open(path))
    why, out = cc.oracle_mismatch(d['replay']['css'], d['replay']['options'])
    print(out, why)
    return 1 if why else 0
