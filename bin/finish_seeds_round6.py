import json, os, re
r6 = json.load(open('/tmp/s6/results6.json')) if os.path.exists('/tmp/s6/results6.json') else {}
r7 = json.load(open('/tmp/s6/results7.json')) if os.path.exists('/tmp/s6/results7.json') else {}
# manual observations made while strengthening (command: the property's quick check on the patched tree, J part where noted)
manual = {'C06e': 1, 'C06d': 1, 'C12c': 1, 'C17e': 1, 'C09e': 1, 'C04d': 1, 'C05c': 1, 'C05d': 1, 'C07c': 1, 'C07d': 1, 'C02c': 1, 'C11c': 1, 'C03e': 1, 'C01d': 1, 'C19c': 1}
rows = []
out = {}
ids = sorted(d for d in os.listdir('/verif/seeded') if d.startswith('C') and os.path.exists('/verif/seeded/%s/meta.json' % d))
for i in ids:
    mp = '/verif/seeded/%s/meta.json' % i
    m = json.load(open(mp))
    if m.get('round') != 6 and i not in ('C11', 'C18c'):
        continue
    first = r6.get(i)
    final = r7.get(i)
    if final is None and i in manual:
        final = {'exit': manual[i], 'violations': None, 'first_violation': '(observed while strengthening the check; see DESIGN 10.5)'}
    if final is None:
        final = first
    m['check_result'] = {'command': 'bin/check %s --tier quick on the patched tree (scratch copy of /repo + /verif)' % i.rstrip('abcdefgh'),
                         'before_strengthening': first, 'final': final}
    json.dump(m, open(mp, 'w'), indent=1, ensure_ascii=False)
    out[i] = m['check_result']
    if m.get('round') == 6:
        summ = (m.get('summary') or '')[:150].replace('|', '\\|').replace('\n', ' ')
        needs = (m.get('needs') or '')[:130].replace('|', '\\|').replace('\n', ' ')
        fe = final['exit'] if final else '?'
        b = first['exit'] if first else '-'
        what = (final.get('first_violation') or '')[:120].replace('|', '\\|').replace('\n', ' ') if final else ''
        rows.append('| %s | %s | %s | %s → **%s** %s |' % (i, summ, needs, b, fe, what))
json.dump(out, open('/verif/seeded/results6.json', 'w'), indent=1, ensure_ascii=False)
caught = sum(1 for i, v in out.items() if v['final'] and v['final']['exit'] == 1 and json.load(open('/verif/seeded/%s/meta.json' % i)).get('round') == 6)
n6 = sum(1 for i in out if json.load(open('/verif/seeded/%s/meta.json' % i)).get('round') == 6)
table = '| seed | change (abridged) | needs (abridged) | exit before → after strengthening, first report |\n|---|---|---|---|\n' + '\n'.join(rows)
tail = ('\n\n%d of the %d round-6 changes are reported with a replayed witness (exit 1).  Not reported: ' % (caught, n6))
miss = [i for i, v in out.items() if not (v['final'] and v['final']['exit'] == 1)]
tail += ', '.join(miss) + ' - see the notes below the table.'
d = open('/verif/DESIGN.md').read()
if 'SEEDTABLE6' in d:
    d = d.replace('SEEDTABLE6', table + tail)
else:
    a = d.index('| seed | change (abridged) | needs (abridged) | exit before')
    b = d.index('see the notes below the table.', a) + len('see the notes below the table.')
    d = d[:a] + table + tail + d[b:]
open('/verif/DESIGN.md', 'w').write(d)
print(caught, n6, miss)
