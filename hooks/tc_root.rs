// hooks for lib.rs of the template compiler (included under cfg(any(kani, glass_easel_verif)))
// public facade for the native replay CLI

pub fn get_var_name(id: usize) -> String {
    crate::proc_gen::verif::get_var_name(id)
}

pub fn parse_number(s: &str) -> (String, usize, usize) {
    crate::parse::expr::verif::parse_number(s)
}

pub fn sub_expr_counts(v: u8, k0: u8, k1: u8, k2: u8) -> (usize, usize, usize) {
    crate::parse::expr::verif::sub_expr_counts(v, k0, k1, k2)
}

pub fn primitive_step(s: &str, cur: usize, op: u8, arg: &str) -> (usize, u32, u32, u32, u32, bool, bool) {
    crate::parse::verif::primitive_step(s, cur, op, arg)
}

pub fn text_locations(src: &str) -> Vec<(u32, u32, u32, u32, String)> {
    crate::parse::tag::verif::text_locations(src)
}
