"""C02 - every emitted JavaScript artefact is syntactically valid (kernel level).

M02a: `proc_gen::get_var_name` executed symbolically from its MIR (engine M, integer encoding):
      for every id in [0, 2^24): no panic; every character is a legal identifier character and the first
      one is an identifier start; the name is no reserved word (sloppy or strict) and no global the generated
      code refers to; the map id -> name is injective.  Counterexamples are replayed through the real
      function (native replay CLI) before they are reported.
"""
import json
import time
import z3

from lib import common, smt
from lib.common import Result, log
from mirsym.mir import Module
from mirsym.core import Executor, SeqV, Inconclusive
from mirsym import contracts

# ECMAScript 2023 reserved words (11.6.2), strict-mode reserved words, literals, and names with special meaning
RESERVED = ('await break case catch class const continue debugger default delete do else enum export extends false '
            'finally for function if import in instanceof new null return super switch this throw true try typeof var '
            'void while with yield let static implements interface package private protected public').split()
# free names the generated code itself refers to (undefined, Object.assign/create, new Array, String) and the two
# names strict mode forbids as binding identifiers (eval, arguments)
GLOBALS_USED = 'undefined Object String Array eval arguments'.split()
ID_BOUND = 2 ** 24
PUBLIC_START = 26


def name_of_model(model, seq):
    return ''.join(chr(model.eval(c, model_completion=True).as_long()) for c in seq.items)


def identifier_sources(mod):
    """M02b: every construction of a JsIdent in the crate's MIR and the call that produced its name.
    -> (public producers, private producers, other sites)"""
    import re
    pub, priv, other = {}, {}, []
    for name in mod.index:
        h = mod.headers[name]
        if not h.startswith('fn '):
            continue
        text = '\n'.join(mod.text[a:b].split('\n', 1)[-1] for a, b in mod.index[name])
        if 'JsIdent {' not in text:
            continue
        for m in re.finditer(r'= JsIdent \{ name: (?:move|copy) (_\d+) \};', text):
            loc = m.group(1)
            for _ in range(4):      # look through `x = <String as Clone>::clone(&y)`
                d = re.search(r'^\s+' + loc + r' = <String as Clone>::clone\((?:move|copy) (_\d+)\) -> \[return', text, re.M)
                if d is None:
                    break
                r = re.search(r'^\s+' + d.group(1) + r' = &(_\d+);', text, re.M)
                if r is None:
                    break
                loc = r.group(1)
            d = re.search(r'^\s+' + loc + r' = (?!&)([^;\n]*?)\((.*)\) -> \[return', text, re.M)
            if d is None:
                other.append((name, 'name taken from %s (parameter / field)' % loc))
                continue
            callee = d.group(1).strip()
            if mod.has(callee) and re.search(r'\(_1: usize\) -> String', mod.headers[callee]):
                pub.setdefault(callee, []).append(name)
            elif re.search(r'fmt::format|format_inner|must_use', callee):
                inner = [c for c in re.findall(r'= (\w[\w:]*)\(copy _\d+\) -> \[return', text) if mod.has(c) and re.search(r'\(_1: usize\) -> String', mod.headers[c])]
                tmpl = re.findall(r'const b"((?:[^"\\]|\\.)*)"', text)
                if len(inner) == 1 and tmpl and tmpl[0].startswith('\\x01$'):
                    priv.setdefault(inner[0], []).append(name)
                else:
                    other.append((name, 'formatted name with template %r' % (tmpl[:1],)))
            elif re.search(r'as Clone>::clone$', callee):
                continue
            else:
                other.append((name, 'name produced by %s' % callee))
    return pub, priv, other


def run_symbolic(mod, res, tag, producer=None):
    exe = Executor(mod, contracts.TABLE, max_visits=8)
    idv = z3.Int('id_' + tag)
    exe.base = [idv >= 0, idv < ID_BOUND]
    fn = mod.find(r'(^|::)get_var_name$') if producer is None else mod.get(producer)
    done = exe.run(fn.name, [idv])
    res.solver_time += exe.stats['solver_time']
    return exe, idv, done, fn


def e2e_replay(idc):
    """compile `<v/>`*n + a wx:for block for n just below the id and let node parse the result (sloppy and strict)"""
    import subprocess, os
    reqs = []
    ns = [n for n in range(max(0, idc - 48), idc + 1)]
    for n in ns:
        reqs.append({'files': [['a', '<v/>' * n + '<block wx:for="{{ list }}" wx:key="id"><t a="{{ item.a }}">{{ index }}</t></block>']], 'want': ['gen_object']})
    r = common.replay(['tmpl'], stdin=json.dumps(reqs), timeout=600)
    outs = json.loads(r.stdout)
    js = 'const vm=require("vm");const d=JSON.parse(require("fs").readFileSync(0,"utf8"));let bad=[];' \
         'd.forEach((s,i)=>{for(const p of ["","\'use strict\';"]){try{new vm.Script(p+"("+s+")")}catch(e){bad.push([i,String(e)]);break}}});console.log(JSON.stringify(bad))'
    srcs = [o.get('gen_object') or '' for o in outs]
    p = subprocess.run(['node', '-e', js], input=json.dumps(srcs), stdout=subprocess.PIPE, stderr=subprocess.PIPE, text=True, timeout=600)
    bad = json.loads(p.stdout)
    return [(ns[i], e) for i, e in bad]


def adjacency_probe(res):
    """Supporting, NOT solver-decided (J02c): every unary operator directly under every binary / unary operator (where two operator
    tokens become neighbours: `a - -b`, `a + +b`, `- -a`, `typeof typeof a`, `a-- -b` look-alikes) is compiled and the emitted module is
    loaded by node in sloppy and in strict mode; a SyntaxError is a replayed violation on a concrete template."""
    from jssym import model as M, driver
    a, b = ('id', 'a'), ('id', 'b')
    exprs = []
    for u in M.UN_OPS:
        for o in M.BIN_OPS:
            exprs.append(('bin', o, a, ('un', u, b)))
            exprs.append(('bin', o, ('un', u, a), b))
        for u2 in M.UN_OPS:
            exprs.append(('un', u, ('un', u2, a)))
        exprs.append(('un', u, M.L('int', '1', 1)))
        exprs.append(('bin', '-', a, ('un', u, M.L('int', '1', 1))))
        exprs.append(('cond', ('un', u, a), ('un', u, b), ('un', u, a)))
    texts = []
    for e in exprs:
        try:
            texts.append(M.pr(e))
            texts.append(M.pr(e, full=True))
        except Exception:
            continue
    texts = sorted(set(texts))
    progs = ['<view p="{{ %s }}">{{ %s }}</view>' % (t.replace('<', '&lt;').replace('"', '&quot;'), t.replace('<', '&lt;')) for t in texts]
    comp = driver.compile_batch(progs, want=('gen_object', 'runtime'))
    nbad = 0
    import subprocess, os
    ok_items = [(t, pg, c) for t, pg, c in zip(texts, progs, comp) if 'panic' not in c and 'gen_object' in c]
    r = subprocess.run(['node', os.path.join(common.VERIF, 'replay', 'js', 'syntax.js')], input=json.dumps([{'runtime': c['runtime'], 'gen_object': c['gen_object']} for _, _, c in ok_items]),
                       stdout=subprocess.PIPE, stderr=subprocess.PIPE, text=True, timeout=300)
    if r.returncode != 0:
        res.inconc('adjacency probe: node failed: ' + r.stderr[-200:])
        return
    for (t, pg, c), err in zip(ok_items, json.loads(r.stdout)):
        if err and 'SyntaxError' in err:
            nbad += 1
            if nbad == 1:
                res.violation({'engine': 'replay', 'harness': 'J02c-adjacency', 'class': 'syntax'},
                              'the code generated for {{ %s }} does not parse (%s)' % (t, err[:200]), {'template': pg})
    res.coverage['operator_adjacency_probe'] = {'templates': len(progs), 'syntax_errors': nbad, 'note': 'concrete runs; supporting only'}
    res.coverage['traces_validated_against_impl'] = res.coverage.get('traces_validated_against_impl', 0) + len(progs)


def main(tier):
    res = Result('C02', 'other')
    res.engines = ['M (MIR symbolic execution + z3 Int encoding)']
    mod = Module(common.mir_dump('tc'))
    pub, priv, other = identifier_sources(mod)
    res.coverage['identifier_sources'] = {'public': {k: [x.split('::')[-1] for x in v] for k, v in pub.items()},
                                          'private ($-prefixed)': {k: [x.split('::')[-1] for x in v] for k, v in priv.items()},
                                          'other': [[a.split('::')[-1], b] for a, b in other]}
    for site, why in other:
        if site.endswith('>::new'):
            continue      # JsIdent::new(String): callers pass the fixed parameter names of to_proc_gen_function_args
        res.inconc('identifier source not analysed: %s (%s)' % (site, why))
    if not pub:
        res.inconc('no public identifier producer found: adapt the harness')
    totals = {'queries': 0, 'paths': 0}
    for producer in sorted(set(pub) | set(priv)):
        check_producer(mod, res, tier, producer, producer in pub, totals)
    # string literals: the writer of every string of the generated code emits a well-formed literal for every string (shared with C12)
    from checks import c12
    totals['queries'] += c12.run_m12a(res, mod, tier)
    adjacency_probe(res)
    res.bounds = {'id': '[0, 2^24)  (public identifiers start at 26; > 16M declarations, property names >= 200k)',
                  'loop_unwinding': 8, 'unwinding_assertion': True}
    res.assumptions = ['String::new / String::push modelled as a char sequence (contract table)',
                       'machine integers as mathematical integers with the overflow-checks=on asserts as obligations',
                       'const tables VAR_NAME_CHARS / VAR_NAME_START_CHARS read from the MIR dump of the current tree',
                       'identifier sources = constructions of JsIdent in the MIR of the crate (def-use scan, M02b)']
    res.outside = ['validity of whole artefacts for arbitrary templates',
                   'inline script bodies', 'ids >= 2^24']
    res.coverage.update({
        'explanation': 'engine M: every function that produces the name of a JsIdent (MIR def-use scan) is executed symbolically; '
                       'for each returning path the solver decides alphabet, reserved-word, protocol-letter '
                       'and injectivity queries over ALL ids below 2^24 (integer encoding, div/rem by the table lengths).',
        'obligations': totals['queries'], 'discharged': res.queries.get('unsat', 0),
        'evaluations': totals['queries'], 'distinct_nontrivial': totals['queries'], 'paths': totals['paths']})
    return res.finish()


def check_producer(mod, res, tier, producer, is_public, totals):
    exe, idv, done, fn = run_symbolic(mod, res, 'a', producer)
    hook = producer == 'get_var_name'
    res.functions.append({'fn': 'proc_gen::%s(usize) -> String' % producer, 'mir_lines': fn.text_lines, 'public': is_public,
                          'contracts': sorted(exe.stats.get('contracts_used', {}))})
    returned = [p for p in done if p.status == 'returned']
    log('[C02] %s: %d paths (%d returned), %d findings from execution' % (producer, len(done), len(returned), len(exe.findings)))
    queries = []     # (description, assertions, expect_unsat)

    # (0) panic freedom / unwinding (findings recorded by the executor)
    for f in exe.findings:
        idc = f.model.eval(idv, model_completion=True).as_long() if f.model is not None else None
        if not hook:
            res.inconc('execution finding %s in %s for id=%s (no native hook for this producer)' % (f.kind, producer, idc))
            continue
        r = common.replay(['get-var-name', str(idc)])
        out = json.loads(r.stdout)[0] if r.returncode == 0 else {'panic': 'tool'}
        if isinstance(out, dict) and 'panic' in out:
            res.violation({'engine': 'M', 'harness': 'M02a', 'class': 'panic:' + f.kind}, 'get_var_name(%s) panics: %s' % (idc, out), {'id': idc})
        elif f.kind == 'unwind':
            res.inconc('unwinding bound reached in get_var_name for id=%s (name %r)' % (idc, out))
        else:
            res.inconc('execution finding %s for id=%s does not reproduce natively (%r)' % (f.kind, idc, out))
    res.query('unsat' if not exe.findings else 'sat', 1)

    named = []
    for p in returned:
        name = p.result
        if not isinstance(name, SeqV):
            raise Inconclusive('unexpected return value %r' % (name,))
        named.append((len(name.items), p, name))
    named.sort(key=lambda t: t[0])
    log('[C02] name lengths reachable below the bound: %s' % sorted(set(t[0] for t in named)))

    t0 = time.time()
    # (1) alphabet
    for L, p, name in named:
        c0 = name.items[0]
        start_ok = z3.Or(z3.And(c0 >= 65, c0 <= 90), z3.And(c0 >= 97, c0 <= 122), c0 == 95, c0 == 36)
        part_ok = [z3.Or(z3.And(c >= 65, c <= 90), z3.And(c >= 97, c <= 122), z3.And(c >= 48, c <= 57), c == 95, c == 36)
                   for c in name.items[1:]]
        bad = z3.Not(z3.And([start_ok] + part_ok))
        queries.append(('alphabet len=%d' % L, exe.base + p.pc + [bad], ('alphabet', None), p, name))
        # public names never start with '$' (the private counter's prefix) -> the two families are disjoint
        queries.append(('no-dollar-start len=%d' % L, exe.base + p.pc + [c0 == 36], ('dollar', None), p, name))
    # (2) reserved words and used globals, for public ids (>= 26) and for the "$"+name private family
    for L, p, name in named:
        for w in RESERVED + GLOBALS_USED:
            if len(w) != L:
                continue
            eq = z3.And([c == ord(ch) for c, ch in zip(name.items, w)])
            if is_public:
                queries.append(('reserved %s' % w, exe.base + p.pc + [idv >= PUBLIC_START, eq], ('reserved', w), p, name))
    # (3) single-letter protocol names A..Z are only produced for id < 26
    for L, p, name in named:
        if L != 1:
            continue
        c0 = name.items[0]
        queries.append(('protocol-letter', exe.base + p.pc + [idv >= PUBLIC_START, c0 >= 65, c0 <= 90], ('protocol', None), p, name))
    # (4) injectivity, decomposed so that the solver never has to invert the 52/63-way table terms:
    #     (4a) each const table the name characters are read from has pairwise distinct entries, hence equal
    #          characters imply equal table indices;  (4b) two ids with the same length and the same index vector are equal.
    exe2, idb, done2, _ = run_symbolic(mod, res, 'b', producer)
    named2 = [(len(p.result.items), p, p.result) for p in done2 if p.status == 'returned']
    tables_seen = {}
    for L, p, name in named:
        for L2, q, name2 in named2:
            if L2 != L:
                continue
            sa, sb = p.env.get('selects', {}), q.env.get('selects', {})
            eqs = []
            for a, b in zip(name.items, name2.items):
                if a.get_id() in sa and b.get_id() in sb and \
                        [x.get_id() for x in sa[a.get_id()][0]] == [x.get_id() for x in sb[b.get_id()][0]]:
                    (ta, ia), (tb, ib) = sa[a.get_id()], sb[b.get_id()]
                    tables_seen[tuple(x.get_id() for x in ta)] = ta
                    eqs.append(ia == ib)       # justified by (4a)
                else:
                    eqs.append(a == b)
            queries.append(('injective len=%d' % L, exe.base + exe2.base + p.pc + q.pc + [idv != idb] + eqs,
                            ('collision', None), p, name))
    for k, tab in tables_seen.items():
        x, y = z3.Int('tx'), z3.Int('ty')
        def sel(i):
            out = tab[-1]
            for j in range(len(tab) - 2, -1, -1):
                out = z3.If(i == j, tab[j], out)
            return out
        queries.append(('table-distinct n=%d' % len(tab), [x >= 0, x < len(tab), y >= 0, y < len(tab), x != y, sel(x) == sel(y)],
                        ('table', None), None, None))

    nviol = 0
    for desc, asserts, (cls, word), p, name in queries:
        verdict, model, dt = smt.decide(asserts)
        res.solver_time += dt
        res.query(verdict)
        if verdict == 'unknown':
            res.inconc('query %s: solver unknown (%s)' % (desc, model))
            continue
        if tier == 'thorough' or cls in ('collision', 'alphabet', 'table'):
            try:
                other = smt.cross_check(asserts, verdict, timeout=120)
                res.coverage.setdefault('cross_solver', {})[desc] = other
            except smt.SolverDisagreement as e:
                res.inconc('query %s: %s' % (desc, e))
                continue
        if verdict == 'unsat':
            res.sample({'query': desc, 'verdict': 'unsat'})
            continue
        if cls == 'table':
            res.inconc('a name table has duplicate entries; injectivity argument does not apply')
            continue
        # sat: replay natively
        idc = model.eval(idv, model_completion=True).as_long()
        predicted = name_of_model(model, name)
        if not hook:
            bad = e2e_replay(idc) if cls in ('reserved', 'alphabet') else []
            res.coverage['traces_validated_against_impl'] = res.coverage.get('traces_validated_against_impl', 0) + 1
            if bad:
                res.violation({'engine': 'M', 'harness': 'M02a', 'class': cls + (':' + word if word else '')},
                              '%s(%d) = %r is used as an identifier: the generated code of a template with %d elements before a wx:for does not parse (%s)' % (
                                  producer, idc, predicted, bad[0][0], bad[0][1][:80]), {'id': idc, 'name': predicted, 'elements': bad[0][0]})
            else:
                res.inconc('%s: %s(%d) = %r predicted, not confirmed end to end' % (desc, producer, idc, predicted))
            continue
        r = common.replay(['get-var-name', str(idc)])
        real = json.loads(r.stdout)[0] if r.returncode == 0 else None
        res.coverage['traces_validated_against_impl'] = res.coverage.get('traces_validated_against_impl', 0) + 1
        if real != predicted:
            res.inconc('encoding disagrees with the real function: id=%d predicted %r real %r' % (idc, predicted, real))
            continue
        what = {'reserved': 'generated identifier %r (id %d) is a reserved word / used global' % (real, idc),
                'alphabet': 'generated identifier %r (id %d) is not an IdentifierName' % (real, idc),
                'dollar': 'public identifier %r (id %d) starts with "$"' % (real, idc),
                'protocol': 'identifier %r (id %d >= 26) collides with a protocol letter' % (real, idc),
                'collision': 'two ids map to the same identifier %r (one of them %d)' % (real, idc)}[cls]
        key = {'engine': 'M', 'harness': 'M02a', 'class': cls + (':' + word if word else '')}
        if res.violation(key, what, {'id': idc, 'name': real, 'cmd': 'verif-replay get-var-name %d' % idc}):
            nviol += 1
        res.sample({'query': desc, 'verdict': 'sat', 'id': idc, 'name': real})

    # translator validation on concrete ids (Serval-style): boundary ids through both the encoding and the real function
    if not hook:
        totals['queries'] += len(queries) + 1
        totals['paths'] += len(done)
        return
    probe = [0, 25, 26, 51, 52, 53, 52 * 63 - 1, 52 * 63, 52 * 63 + 1, 2218, 178875, 52 * 63 ** 2, 52 * 63 ** 3, ID_BOUND - 1,
             (res.seed * 7919 + 104729) % ID_BOUND]
    r = common.replay(['get-var-name'] + [str(i) for i in probe])
    reals = json.loads(r.stdout)
    agree = 0
    for i, real in zip(probe, reals):
        hit = None
        for L, p, name in named:
            verdict, model, dt = smt.decide(exe.base + p.pc + [idv == i])
            if verdict == 'sat':
                hit = name_of_model(model, name)
        if hit != real:
            res.inconc('translator validation: id=%d encoding %r real %r' % (i, hit, real))
        else:
            agree += 1
    res.coverage['traces_validated_against_impl'] = res.coverage.get('traces_validated_against_impl', 0) + agree
    totals['queries'] += len(queries) + 1
    totals['paths'] += len(done)
    res.coverage.setdefault('reachable_name_lengths', {})[producer] = sorted(set(t[0] for t in named))


def replay(path):
    d = json.load(open(path))
    if 'template' in d['replay']:
        from jssym import driver
        c = driver.compile_batch([d['replay']['template']], want=('gen_object', 'runtime'))[0]
        out = driver.node_eval(c['gen_object'], '"use strict";' + c['runtime'], [{'mode': 'tree', 'ref': 'null', 'envs': []}])
        print(out.get('load_error', 'loads'))
        return 1 if 'load_error' in out else 0
    if 'elements' in d['replay']:
        bad = e2e_replay(d['replay']['id'])
        print(bad[:3])
        return 1 if bad else 0
    r = common.replay(['get-var-name', str(d['replay']['id'])])
    print(r.stdout.strip())
    name = json.loads(r.stdout)[0]
    bad = name in RESERVED + GLOBALS_USED
    print('reserved' if bad else 'ok')
    return 1 if bad else 0
