"""C19 - stylesheet source maps point each output token at its source token.

Two parts, both engine M:
 * provenance (shared open-environment runs of css_common): every token handed to an output carries the position of the
   input token that caused it (copy: its own; synthesized whitespace: the token it precedes; closing bracket: its opener;
   rewritten class / rpx value: the original token, with the original spelling as source name);
 * column accounting: the MIR of StyleSheetOutput::{append_token, append_token_space_preserved, append_raw} with the
   output string abstracted to its UTF-8 / UTF-16 lengths: the map entry's generated column is the UTF-16 length after the
   separator and before the token, on line 0; source line/column/source id/name are passed through; the invariant
   `utf16_len == UTF-16 length of the text` is preserved, so entries appear in non-decreasing order.
"""
import json
import re
import os
import time
import z3
from mirsym.core import zstr

from checks import css_common as cc
from lib import common
from lib.common import log
from mirsym.mir import Module, MirUnsupported
from mirsym.core import Executor, Path, Agg, Ref, SymEnum, Opaque, UNIT, Inconclusive
from mirsym import sc_env, contracts
from mirsym.contracts import some, NONE, ok

needs_sep = z3.Function('needs_separator_when_before', z3.IntSort(), z3.IntSort(), z3.BoolSort())


def out_layout():
    f = sc_env.struct_fields(os.path.join(common.SC, 'src', 'output.rs'), 'StyleSheetOutput')
    idx = {n: i for i, (n, _) in enumerate(f)}
    for n in ('s', 'prev_ser_type', 'source_map', 'source_id', 'utf16_len'):
        if n not in idx:
            raise MirUnsupported('StyleSheetOutput has no field %s any more' % n)
    return idx


def u8_of(cv):
    return cv[0] + 2 * cv[1] + 3 * cv[2] + 4 * cv[3]


def u16_of(cv):
    return cv[0] + cv[1] + cv[2] + 2 * cv[3]


def ostr(cv, marks=()):
    """output text abstracted to the number of scalar values of each UTF-8 width (1..4 bytes): every length-like measure
    (bytes, UTF-16 units, scalars, ASCII-ness, lead / continuation byte counts) is a function of this vector"""
    cv = tuple(cv)
    return Agg('OutString', None, {0: u8_of(cv), 1: u16_of(cv), 2: tuple(marks), 3: cv})


# byte classes of well-formed UTF-8: (name, lo, hi, how many such bytes a text with class vector cv has)
BYTE_CLASSES = [('ascii', 0x00, 0x7F, lambda cv: cv[0]), ('lead2', 0xC2, 0xDF, lambda cv: cv[1]), ('lead3', 0xE0, 0xEF, lambda cv: cv[2]),
                ('lead4', 0xF0, 0xF4, lambda cv: cv[3]), ('cont', 0x80, 0xBF, lambda cv: cv[1] + 2 * cv[2] + 3 * cv[3])]


def column_contracts():
    T = []

    def reg(rx):
        def deco(f):
            T.append((rx, f))
            return f
        return deco

    def append(exe, path, ref, l8, l16=None):
        s = exe.load(path, ref)
        if not (isinstance(s, Agg) and s.name == 'OutString'):
            raise MirUnsupported('append to %r' % (s,))
        exe.store_at(path, ref.key, ref.proj, ostr([a + b for a, b in zip(s.fields[3], l8)], s.fields[2]))

    def fresh_len(exe, path, hint):
        """class vector of an arbitrary appended text; returns (vector, its UTF-16 length)"""
        n = path.env.get('nlen', 0) + 1
        path.env['nlen'] = n
        cv = tuple(z3.Int('%s_w%d_%d' % (hint, k + 1, n)) for k in range(4))
        path.pc.append(z3.And([c >= 0 for c in cv] + [u8_of(cv) <= 2**20]))
        return cv, u16_of(cv)

    def ascii_vec(n):
        return (z3.IntVal(n), z3.IntVal(0), z3.IntVal(0), z3.IntVal(0))

    @reg(r"^Arguments::<'_>::from_str$")
    def args_from_str(exe, path, callee, args, dst_ty):
        return [('ret', path, Agg('Arguments', None, {0: (args[0],)}))]

    @reg(r'<String as std::fmt::Write>::write_fmt$|<String as std::fmt::Write>::write_str$')
    def write_fmt(exe, path, callee, args, dst_ty):
        a = args[1]
        pieces = a.fields[0] if isinstance(a, Agg) and a.name == 'Arguments' else (a,)
        for p in pieces:
            p = exe.deref_all(path, p)
            if isinstance(p, z3.ExprRef) and z3.is_string_value(p) and all(ord(ch) < 128 for ch in zstr(p)):
                n = len(zstr(p))
                append(exe, path, args[0], ascii_vec(n), z3.IntVal(n))
            else:
                raise MirUnsupported('write_fmt of %r' % (p,))
        path.event('write_const', pieces)
        return [('ret', path, ok(UNIT))]

    @reg(r'^String::len$')
    def string_len(exe, path, callee, args, dst_ty):
        s = exe.deref_all(path, args[0])
        # remember the (utf8, utf16) pair at this point: a later `&s[start..]` is measured from it
        ref = args[0]
        exe.store_at(path, ref.key, ref.proj, ostr(s.fields[3], s.fields[2] + ((s.fields[0], s.fields[3]),)))
        return [('ret', path, s.fields[0])]

    @reg(r"<(cssparser::)?Token<'_> as ToCss>::to_css::<String>$")
    def to_css(exe, path, callee, args, dst_ty):
        l8, l16 = fresh_len(exe, path, 'tok')
        append(exe, path, args[1], l8, l16)
        path.event('to_css', exe.snapshot(path, args[0]), l16)
        return [('ret', path, ok(UNIT))]

    @reg(r'^String::push$')
    def push(exe, path, callee, args, dst_ty):
        c = z3.simplify(args[1])
        if not z3.is_int_value(c) or c.as_long() >= 128:
            raise MirUnsupported('push of non-ASCII / symbolic char')
        append(exe, path, args[0], ascii_vec(1), z3.IntVal(1))
        path.event('push_char', c)
        return [('ret', path, UNIT)]

    @reg(r'<String as AddAssign<&str>>::add_assign$|^String::push_str$')
    def add_assign(exe, path, callee, args, dst_ty):
        v = exe.deref_all(path, args[1])
        if isinstance(v, Agg) and v.name == 'OutSlice':
            l8, l16 = v.fields[1], v.fields[0]        # a text whose class vector is known (the routine's own argument): appended as it is
        else:
            l8, l16 = fresh_len(exe, path, 'raw')
        append(exe, path, args[0], l8, l16)
        path.event('append_str', exe.snapshot(path, args[1]), l16)
        return [('ret', path, UNIT)]

    @reg(r'<String as std::ops::Index<std::ops::RangeFrom<usize>>>::index$|<String as Index<RangeFrom<usize>>>::index$')
    def index_from(exe, path, callee, args, dst_ty):
        s = exe.deref_all(path, args[0])
        start = args[1].fields[0]
        for (m8, mcv) in s.fields[2]:
            if z3.eq(z3.simplify(m8), z3.simplify(start)):
                cv = tuple(a - b for a, b in zip(s.fields[3], mcv))
                return [('ret', path, Agg('OutSlice', None, {0: u16_of(cv), 1: cv}))]
        raise MirUnsupported('slice start %s is not a recorded String::len() value' % start)

    @reg(r'core::str::<impl str>::encode_utf16$')
    def enc16(exe, path, callee, args, dst_ty):
        return [('ret', path, args[0])]

    @reg(r"<EncodeUtf16<'_> as Iterator>::count$")
    def count16(exe, path, callee, args, dst_ty):
        v = args[0]
        if isinstance(v, Agg) and v.name == 'OutSlice':
            return [('ret', path, v.fields[0])]
        raise MirUnsupported('utf16 count of %r' % (v,))

    def slice_of(exe, path, v):
        v = exe.deref_all(path, v)
        if isinstance(v, Agg) and v.name in ('OutSlice', 'Bytes', 'Chars'):
            return v
        raise MirUnsupported('text measure of %r' % (v,))

    @reg(r'core::str::<impl str>::is_ascii$')
    def is_ascii(exe, path, callee, args, dst_ty):
        cv = slice_of(exe, path, args[0]).fields[1]
        return [('ret', path, z3.And(cv[1] == 0, cv[2] == 0, cv[3] == 0))]

    @reg(r'core::str::<impl str>::len$')
    def str_len(exe, path, callee, args, dst_ty):
        return [('ret', path, u8_of(slice_of(exe, path, args[0]).fields[1]))]

    @reg(r'core::str::<impl str>::bytes$|core::str::<impl str>::as_bytes$')
    def str_bytes(exe, path, callee, args, dst_ty):
        return [('ret', path, Agg('Bytes', None, {0: None, 1: slice_of(exe, path, args[0]).fields[1]}))]

    @reg(r'core::str::<impl str>::chars$')
    def str_chars(exe, path, callee, args, dst_ty):
        return [('ret', path, Agg('Chars', None, {0: None, 1: slice_of(exe, path, args[0]).fields[1]}))]

    @reg(r"<Chars<'_> as Iterator>::count$")
    def chars_count(exe, path, callee, args, dst_ty):
        cv = args[0].fields[1]
        return [('ret', path, cv[0] + cv[1] + cv[2] + cv[3])]

    @reg(r"<std::str::Bytes<'_> as Iterator>::count$|core::slice::<impl \[u8\]>::len$")
    def bytes_count(exe, path, callee, args, dst_ty):
        return [('ret', path, u8_of(slice_of(exe, path, args[0]).fields[1]))]

    @reg(r"<std::str::Bytes<'_> as Iterator>::filter::<|<std::slice::Iter<'_, u8> as Iterator>::filter::<|<Copied<.*u8.*> as Iterator>::filter::<")
    def bytes_filter(exe, path, callee, args, dst_ty):
        return [('ret', path, Agg('ByteFilter', None, {0: args[0], 1: args[1]}))]

    @reg(r"<Filter<.*> as Iterator>::count$")
    def filter_count(exe, path, callee, args, dst_ty):
        """count of the bytes of a well-formed UTF-8 text accepted by a predicate that is uniform on each byte class"""
        flt = args[0]
        if not (isinstance(flt, Agg) and flt.name == 'ByteFilter'):
            raise MirUnsupported('Filter::count over %r' % (flt,))
        cv = flt.fields[0].fields[1]
        clo = flt.fields[1]
        name, by_ref = contracts.closure_fn(exe, clo)
        total = z3.IntVal(0)
        for cname, lo, hi, howmany in BYTE_CLASSES:
            b = z3.Int('byte_%s_%d' % (cname, path.new_fid()))
            sub = Path()
            sub.pc = list(path.pc) + [b >= lo, b <= hi]
            sub.store = dict(path.store)
            sub.nfid = path.nfid + 50
            ck, bk = ('clo', sub.new_fid()), ('byteval', sub.new_fid())
            sub.store[ck], sub.store[bk] = clo, b
            done = exe.run(name, [Ref(ck) if by_ref else clo, Ref(bk)], sub)
            verdicts = set()
            for q in done:
                if q.status != 'returned':
                    raise MirUnsupported('filter predicate does not return')
                r = z3.simplify(q.result) if isinstance(q.result, z3.ExprRef) else q.result
                for val in (True, False):
                    if exe.feasible(q, [r == z3.BoolVal(val)]):
                        verdicts.add(val)
            if len(verdicts) != 1:
                raise MirUnsupported('filter predicate is not uniform on byte class %s' % cname)
            if True in verdicts:
                total = total + howmany(cv)
        return [('ret', path, total)]

    @reg(r"serializer::<impl (cssparser::)?Token<'_>>::serialization_type$")
    def ser_type(exe, path, callee, args, dst_ty):
        t = exe.deref_all(path, args[0])
        if isinstance(t, SymEnum):
            return [('ret', path, z3.Int('sertype_' + str(t.sid).replace('#', '_').replace('.', '_')))]
        if isinstance(t, Agg):
            return [('ret', path, z3.Int('sertype_const_' + str(t.variant)))]
        raise MirUnsupported('serialization_type of %r' % (t,))

    @reg(r'^TokenSerializationType::needs_separator_when_before$')
    def needs(exe, path, callee, args, dst_ty):
        return [('ret', path, needs_sep(args[0], args[1]))]

    @reg(r'^SourceMapBuilder::add_raw$')
    def add_raw(exe, path, callee, args, dst_ty):
        path.event('add_raw', *[exe.snapshot(path, a) for a in args[1:]])
        return [('ret', path, Opaque('RawToken', {'structural': True}))]

    @reg(r'^SourceMapBuilder::add_name$')
    def add_name(exe, path, callee, args, dst_ty):
        n = z3.Int('name_id')
        path.event('add_name', exe.snapshot(path, args[1]))
        return [('ret', path, n)]

    @reg(r'to_css_string$')
    def to_css_string(exe, path, callee, args, dst_ty):
        t = exe.deref_all(path, args[0])
        return [('ret', path, Opaque('css_string_of', {'structural': True, 'token': str(getattr(t, 'sid', t))}))]
    return T


def column_target(mod, res, prop='C19'):
    """one call of each appender from an arbitrary output state satisfying the invariant utf16_len == |text|_utf16"""
    idx = out_layout()
    obs_total = 0
    fn_names = {'append_token': r'output::<impl .*>::append_token$', 'append_token_space_preserved': r'output::<impl .*>::append_token_space_preserved$',
                'append_raw': r'output::<impl .*>::append_raw$'}
    CV0 = tuple(z3.Int('w%d_0' % (k + 1)) for k in range(4))
    U8, U16 = u8_of(CV0), u16_of(CV0)
    prev = z3.Int('prev_ser_type')
    source_id = z3.Int('source_id')
    for which, pat in fn_names.items():
        env = sc_env.Css(lmax=1)
        tab = [(rx, f) for rx, f in env.table if 'StyleSheetOutput' not in rx]     # the appenders themselves are executed, not events
        exe = Executor(mod, column_contracts() + tab + contracts.TABLE, enums=sc_env.SC_ENUMS, max_visits=8)
        exe.base = [c >= 0 for c in CV0] + [U8 <= 2**30, source_id >= 0, source_id < 2**32]
        p = Path()
        p.env['cpos'] = {}
        out = {idx['s']: ostr(CV0), idx['prev_ser_type']: prev, idx['source_map']: Agg('SourceMapBuilder'),
               idx['source_id']: source_id, idx['utf16_len']: U16}
        p.store[('heap', 'out')] = Agg('StyleSheetOutput', None, out)
        env.materialize(p, 'r', 0)
        line, col = z3.Int('src_line'), z3.Int('src_col')
        p.pc.append(z3.And(line >= 0, line < 2**31, col >= 0, col < 2**31))
        tok = p.store[('tok', 'r', 0)]
        st = Agg('StepToken', None, {0: tok, 1: Agg('Position', None, {0: line, 1: col})})
        src_some = z3.Bool('src_is_some')
        src = SymEnum('srcopt', 'Option', z3.If(src_some, z3.IntVal(1), z3.IntVal(0)), lambda var, j: sc_env.token('n', 0))
        fn = mod.find(pat)
        if which == 'append_raw':
            # the raw text is an arbitrary string: its scalar-width class vector is symbolic, so any measure the routine takes of the
            # *argument* (len / chars / encode_utf16) is decided as well
            rcv = tuple(z3.Int('rawarg_w%d' % (k + 1)) for k in range(4))
            p.pc.append(z3.And([c >= 0 for c in rcv] + [u8_of(rcv) <= 2**20]))
            args = [Ref(('heap', 'out')), Agg('OutSlice', None, {0: u16_of(rcv), 1: rcv})]
        else:
            args = [Ref(('heap', 'out')), st, src]
        t = time.time()
        done = exe.run(fn.name, args, p)
        res.solver_time += exe.stats['solver_time']
        obs = []
        for f in exe.findings:
            obs.append(cc.Ob(['C19'], 'exec', 'panic in %s: %s' % (which, f.kind), f.path, z3.BoolVal(True), which))
        for q in done:
            if q.status != 'returned':
                continue
            o = q.store[('heap', 'out')]
            s_end = o.fields[idx['s']]
            u16_end = o.fields[idx['utf16_len']]
            # invariant preserved
            obs.append(cc.Ob(['C19'], 'column-invariant', '%s: utf16_len differs from the UTF-16 length of the text afterwards' % which, q,
                             u16_end != s_end.fields[1], which))
            obs.append(cc.Ob(['C19'], 'column-monotone', '%s: utf16_len decreases' % which, q, u16_end < U16, which))
            raws = [e for e in q.events if e[0] == 'add_raw']
            tocss = [e for e in q.events if e[0] == 'to_css']
            if which != 'append_raw':
                # conservation at the writer (C08): whatever the output state, the token handed to an appender is written, once
                wrote = [e for e in q.events if e[0] in ('to_css', 'push_char', 'write_const', 'append_str')]
                obs.append(cc.Ob(['C08'], 'token-written', '%s: nothing is written for the token on this path (the appender may not drop a token, whatever the text before it)' % which, q,
                                 z3.BoolVal(not wrote), which))
                obs.append(cc.Ob(['C08'], 'token-written', '%s: the token is serialised %d times' % (which, len(tocss)), q, z3.BoolVal(len(tocss) > 1), which))
            seps = [e for e in q.events if e[0] in ('write_const', 'push_char')]
            kind = tok.discr
            is_ws = kind == sc_env.TK['WhiteSpace']
            if which == 'append_raw':
                if raws:
                    obs.append(cc.Ob(['C19'], 'entry', 'append_raw registers a map entry', q, z3.BoolVal(True), which))
                continue
            if which == 'append_token_space_preserved' and not raws:
                obs.append(cc.Ob(['C19'], 'entry', 'a non-whitespace token written without a map entry', q, z3.Not(is_ws), which))
                continue
            if len(raws) != 1 or len(tocss) != 1:
                obs.append(cc.Ob(['C19'], 'entry', '%s: %d map entries / %d serialisations for one token' % (which, len(raws), len(tocss)), q, z3.BoolVal(True), which))
                continue
            r = raws[0]
            dst_line, dst_col, s_line, s_col, s_id, name = r[1], r[2], r[3], r[4], r[5], r[6]
            sep = z3.IntVal(len([e for e in seps if q.events.index(e) < q.events.index(tocss[0])]))
            obs.append(cc.Ob(['C19'], 'column', 'generated column is not the UTF-16 length after the separator and before the token', q,
                             dst_col != U16 + sep, which))
            obs.append(cc.Ob(['C19'], 'column', 'generated line is not 0', q, dst_line != 0, which))
            obs.append(cc.Ob(['C19'], 'column', 'the entry is registered before the token text exists / after more text', q,
                             z3.BoolVal(q.events.index(r) < q.events.index(tocss[0])), which))
            obs.append(cc.Ob(['C19'], 'source', 'source line/column of the entry are not the token position', q, z3.Or(s_line != line, s_col != col), which))
            sid_ok = isinstance(s_id, Agg) and s_id.variant == 'Some'
            obs.append(cc.Ob(['C19'], 'source', 'source id of the entry is not the sheet id', q,
                             (s_id.fields[0] != source_id) if sid_ok else z3.BoolVal(True), which))
            names = [e for e in q.events if e[0] == 'add_name']
            if isinstance(name, Agg) and name.variant == 'Some':
                obs.append(cc.Ob(['C19'], 'name', 'entry has a name although no source token was given', q, z3.Not(src_some), which))
                if len(names) != 1:
                    obs.append(cc.Ob(['C19'], 'name', 'name not registered exactly once', q, z3.BoolVal(True), which))
            elif isinstance(name, Agg) and name.variant == 'None':
                obs.append(cc.Ob(['C19'], 'name', 'original spelling of a rewritten token is not recorded as the entry name', q, src_some, which))
            else:
                obs.append(cc.Ob(['C19'], 'name', 'unexpected name value', q, z3.BoolVal(True), which))
            obs.append(cc.Ob(['C19'], 'column-sum', 'utf16_len after the call is not start + separator + token length', q,
                             u16_end != U16 + sep + tocss[0][2], which))
        bad, n = cc.decide(exe, obs, res, [prop])
        obs_total += n
        log('[C19] %s: paths=%d obligations=%d violated=%d (%.1fs)' % (which, len(done), n, len(bad), time.time() - t))
        res.functions.append({'routine': 'StyleSheetOutput::' + which, 'paths': len(done), 'obligations': n,
                              'state': 'arbitrary output state with utf16_len == UTF-16 length of the text, text <= 2^30 bytes'})
        if not any(q.status == 'returned' for q in done):
            res.inconc('%s: no returning path' % which)
        seen = set()
        for ob, model in bad:
            if ob.cls in seen:
                continue
            seen.add(ob.cls)
            if prop == 'C08':
                from checks import css_entry
                if not css_entry.probe_sheets(res, {'engine': 'M', 'harness': 'appender/' + which, 'class': ob.cls}, '%s: %s' % (which, ob.desc)):
                    res.inconc('appender/%s: %s - not observable on the probe sheets' % (which, ob.desc))
                continue
            confirm_columns(res, ob, which)
    return obs_total


def confirm_columns(res, ob, which):
    """replay: real source maps of a few sheets with multi-byte text, rewrites and separators; every entry must point
    at the output column where its token starts"""
    sheets = [('.a .b{width:75rpx;color:red}', {'class_prefix': 'p'}), ('.中  .b>c{x:calc(1rpx + 2px) a b}', {'class_prefix': '文'}),
              ('@media (a){.x{y:z}}', {}), ('a{b:"\U0001F600" c}', {}), ('a{b:"é" c "\U0001F600\U0001F601" d}\n.\U0001F600{e:f}', {'class_prefix': 'p'}),
              ('\U0001F600{x:y}', {}),
              ('@layer \u4e3b\u9898{@container \u5361\u7247 (min-width:100rpx){:host{width:75rpx;c:d}}}', {'convert_host': True, 'class_prefix': 'p'}),
              ('@media (a){@supports (\U0001F600:b){:host{width:75rpx} :host(.x){e:f}}}', {'convert_host': True})]
    sheets += [(c.rstrip(')}] '), o) for c, o in sheets if c.rstrip(')}] ') != c]       # blocks left open at the end of the input
    for css, opts in sheets:
        why, text = cc.map_mismatch(css, opts)
        if why:
            res.violation({'engine': 'M', 'harness': 'columns/' + which, 'class': ob.cls},
                          '%s: %s | sheet %r: %s in %r' % (which, ob.desc, css, why, text), {'css': css, 'options': opts})
            return
    res.inconc('columns/%s: %s - model-level violation that does not show in the replayed source maps' % (which, ob.desc))


def main(tier):
    res = cc.run_property('C19', tier, ['class_block', 'value_block', 'qualified_rule', 'at_rule'], extra_targets=['class_name'])
    mod = Module(common.mir_dump('sc'))
    n = column_target(mod, res)
    res.coverage['obligations'] = res.coverage.get('obligations', 0) + n
    res.coverage['discharged'] = res.queries.get('unsat', 0)
    res.outside.append('StepParser::position() = cssparser current_source_location (trusted); the sourcemap crate builder and its JSON round trip')
    return res.finish()


def replay(path):
    d = json.load(open(path))
    req = [{'css': d['replay']['css'], 'options': d['replay']['options'], 'source_map': True}]
    r = common.replay(['css'], stdin=json.dumps(req))
    print(r.stdout)
    return 1
