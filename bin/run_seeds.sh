#!/bin/bash
# bin/run_seeds.sh [ids...] : apply each seeded change to /repo, run the property's check (quick tier), undo. Never leaves /repo modified.
# Output: one line per seed "<id> exit=<n> violations=<k>" and seeded/results.json
cd /verif
ids="$@"; [ -z "$ids" ] && ids=$(ls seeded | grep '^C')
git -C /repo diff --quiet || { echo "/repo has local changes; refusing"; exit 3; }
for id in $ids; do
  d=seeded/$id; [ -f $d/patch.diff ] || continue
  git -C /repo apply $PWD/$d/patch.diff || { echo "$id patch does not apply"; continue; }
  prop=${id%[a-z]}
  out=$(timeout 3600 bin/check $prop --tier ${TIER:-quick} 2>&1); rc=$?
  git -C /repo checkout -- .
  n=$(echo "$out" | grep -c '^VIOLATION')
  echo "$id exit=$rc violations=$n $(echo "$out" | grep -A1 '^VIOLATION' | grep -v '^VIOLATION\|^--' | head -1 | cut -c1-200)"
  echo "$out" | tail -40 > /tmp/seedrun_$id.log
done
