"""Engine M: forward symbolic execution of MIR with a callee-contract table.

Values
  scalars            z3 Int (all integer types and char), z3 Bool, z3 Real or FP (f32/f64), z3 String (opaque strings)
  Agg                struct / tuple / array / closure / enum value with a *concrete* variant
  SymEnum            enum value whose discriminant is a z3 Int (environment-provided, e.g. a cssparser token)
  Ref                pointer to a place in the path's store
  SeqV               char sequence of concrete length (String built by push)
  Opaque             anything else (fresh, compared by identity only)
Every unsupported construct raises MirUnsupported / Inconclusive -> the driver exits 2.
"""
import itertools
import re
import z3

from .mir import MirUnsupported, Module, Place, Operand, Const, INT_TYS


def zstr(v):
    """python string of a z3 string value (z3 prints backslashes and non-Latin-1 characters as \\u{..})"""
    s = v.as_string() if hasattr(v, 'as_string') else str(v)
    return re.sub(r'\\u\{([0-9a-fA-F]+)\}', lambda m: chr(int(m.group(1), 16)), s)


class Inconclusive(Exception):
    pass


INT_RANGE = {
    'u8': (0, 2**8 - 1), 'u16': (0, 2**16 - 1), 'u32': (0, 2**32 - 1), 'u64': (0, 2**64 - 1), 'u128': (0, 2**128 - 1),
    'usize': (0, 2**64 - 1),
    'i8': (-2**7, 2**7 - 1), 'i16': (-2**15, 2**15 - 1), 'i32': (-2**31, 2**31 - 1), 'i64': (-2**63, 2**63 - 1),
    'i128': (-2**127, 2**127 - 1), 'isize': (-2**63, 2**63 - 1),
    'char': (0, 0x10FFFF),
}


class Agg:
    __slots__ = ('name', 'variant', 'fields')

    def __init__(self, name, variant=None, fields=None):
        self.name, self.variant, self.fields = name, variant, dict(fields or {})

    def with_field(self, i, v):
        f = dict(self.fields)
        f[i] = v
        return Agg(self.name, self.variant, f)

    def __repr__(self):
        return '%s%s{%s}' % (self.name, '::' + str(self.variant) if self.variant is not None else '',
                             ', '.join('%s: %r' % kv for kv in sorted(self.fields.items(), key=lambda kv: str(kv[0]))))


class SymEnum:
    __slots__ = ('sid', 'enum', 'discr', 'payload_fn', 'meta')

    def __init__(self, sid, enum, discr, payload_fn, meta=None):
        self.sid, self.enum, self.discr, self.payload_fn, self.meta = sid, enum, discr, payload_fn, meta

    def __repr__(self):
        return 'SymEnum(%s#%s)' % (self.enum, self.sid)


class Ref:
    __slots__ = ('key', 'proj')

    def __init__(self, key, proj=()):
        self.key, self.proj = key, tuple(proj)

    def __repr__(self):
        return '&%s%s' % (self.key, ''.join('.' + str(p[-1]) for p in self.proj))


class SeqV:
    __slots__ = ('items',)

    def __init__(self, items=()):
        self.items = tuple(items)

    def __repr__(self):
        return 'Seq%r' % (self.items,)


class Opaque:
    _n = itertools.count()
    __slots__ = ('tag', 'info', 'uid')

    def __init__(self, tag, info=None):
        self.tag, self.info, self.uid = tag, info, next(Opaque._n)

    def __repr__(self):
        return 'Opaque(%s%s)' % (self.tag, '' if self.info is None else ':%r' % (self.info,))


class FnItem:
    __slots__ = ('name',)

    def __init__(self, name):
        self.name = name

    def __repr__(self):
        return 'fn:' + self.name


UNIT = Agg('()')


def vkey(v):
    """structural identity of a value (for state merging / event comparison)."""
    if isinstance(v, z3.ExprRef):
        return ('z', v.get_id())
    if isinstance(v, Agg):
        return ('A', v.name, v.variant, tuple((k, vkey(x)) for k, x in sorted(v.fields.items(), key=lambda kv: str(kv[0]))))
    if isinstance(v, SymEnum):
        return ('S', v.sid)
    if isinstance(v, Ref):
        return ('R', v.key, v.proj)
    if isinstance(v, SeqV):
        return ('Q', tuple(vkey(x) for x in v.items))
    if isinstance(v, Opaque):
        if isinstance(v.info, dict) and v.info.get('structural'):
            return ('O', v.tag, tuple((k, vkey(x)) for k, x in sorted(v.info.items())))
        return ('O', v.uid)
    if isinstance(v, FnItem):
        return ('F', v.name)
    if isinstance(v, (tuple, list)):
        return tuple(vkey(x) for x in v)
    return v


class MirFrame:
    __slots__ = ('fn', 'fid', 'bb', 'dst', 'target', 'visits')

    def __init__(self, fn, fid):
        self.fn, self.fid, self.bb = fn, fid, 'bb0'
        self.dst = None       # (place) in *this* frame awaiting a callee's return value
        self.target = None    # bb to continue at
        self.visits = {}

    def clone(self):
        f = MirFrame(self.fn, self.fid)
        f.bb, f.dst, f.target, f.visits = self.bb, self.dst, self.target, dict(self.visits)
        return f


class NativeFrame:
    __slots__ = ('cb', 'data')

    def __init__(self, cb, data=None):
        self.cb, self.data = cb, data

    def clone(self):
        return self   # immutable by convention


class Path:
    _ids = itertools.count()

    def __init__(self):
        self.pc = []
        self.store = {}
        self.frames = []
        self.events = ()
        self.env = {}          # contract state (immutable values only)
        self.steps = 0
        self.result = None
        self.status = 'running'   # returned | diverged | cut
        self.nfid = 1000

    def clone(self):
        p = Path()
        p.pc = list(self.pc)
        p.store = dict(self.store)
        p.frames = [f.clone() for f in self.frames]
        p.events = self.events
        p.env = dict(self.env)
        p.steps = self.steps
        p.nfid = self.nfid
        return p

    def new_fid(self):
        self.nfid += 1
        return self.nfid

    def event(self, *e):
        self.events = self.events + (e,)


class Finding:
    def __init__(self, kind, path, cond, info=None):
        self.kind, self.path, self.cond, self.info = kind, path, cond, info
        self.model = None


class Executor:
    def __init__(self, module, contracts=None, float_mode='real', max_visits=64, max_steps=200000, enums=None,
                 inline=None, timeout_ms=30000):
        self.m = module
        self.contracts = list(contracts or [])     # [(regex, fn)]
        self.float_mode = float_mode
        self.max_visits = max_visits
        self.max_steps = max_steps
        self.enums = enums or {}                   # enum name regex -> {variant: discr}
        self.inline = inline                       # predicate(name) -> bool: execute local MIR fn instead of opaque
        self.solver = z3.Solver()
        self.solver.set('timeout', timeout_ms)
        self.findings = []
        self.finished = []
        self.fid = itertools.count(1)
        self.fresh_n = itertools.count()
        self.stats = {'paths': 0, 'solver_checks': 0, 'solver_time': 0.0, 'blocks': 0, 'calls': {}, 'unwind_cut': 0}
        self.const_cache = {}
        self.base = []          # global assumptions
        self.on_block = None
        self.obligation_hook = None
        self.unwind_is_finding = True
        self.unknown_feasible = False

    # ------------------------------------------------------------------ solver
    def check(self, conds, want_model=False):
        import time
        t = time.time()
        self.solver.push()
        for c in conds:
            self.solver.add(c)
        r = self.solver.check()
        self.stats['solver_checks'] += 1
        model = self.solver.model() if r == z3.sat else None
        self.solver.pop()
        self.stats['solver_time'] += time.time() - t
        if r == z3.unknown:
            if self.unknown_feasible and not want_model:
                # branch feasibility only: exploring a possibly infeasible path is sound (it can only add spurious
                # counterexamples, which are replayed), silently dropping a feasible one would not be
                self.stats['unknown_as_feasible'] = self.stats.get('unknown_as_feasible', 0) + 1
                return True, None
            raise Inconclusive('solver returned unknown: ' + self.solver.reason_unknown())
        return r == z3.sat, model

    def feasible(self, path, extra=()):
        conds = [c for c in list(extra)]
        simp = []
        for c in conds:
            c = z3.simplify(c)
            if z3.is_false(c):
                return False
            if not z3.is_true(c):
                simp.append(c)
        if not simp and getattr(path, '_known_feasible', False):
            return True
        ok, _ = self.check(self.base + path.pc + simp)
        return ok

    def obligation(self, path, kind, violated, info=None):
        """record a finding if `violated` is satisfiable on this path; then assume its negation."""
        v = z3.simplify(violated) if isinstance(violated, z3.ExprRef) else z3.BoolVal(bool(violated))
        if not z3.is_false(v):
            ok, model = self.check(self.base + path.pc + [v], want_model=True)
            if ok:
                f = Finding(kind, path.clone(), v, info)
                f.model = model
                self.findings.append(f)
        if z3.is_true(v):
            return False
        path.pc.append(z3.Not(v))
        return True

    # ------------------------------------------------------------------ fresh values
    def fresh_name(self, hint):
        return '%s!%d' % (hint, next(self.fresh_n))

    def fresh(self, path, ty, hint='v'):
        ty = ty.strip()
        if ty in INT_RANGE:
            v = z3.Int(self.fresh_name(hint))
            lo, hi = INT_RANGE[ty]
            path.pc.append(z3.And(v >= lo, v <= hi))
            if ty == 'char':
                path.pc.append(z3.Or(v < 0xD800, v > 0xDFFF))
            return v
        if ty == 'bool':
            return z3.Bool(self.fresh_name(hint))
        if ty in ('f32', 'f64'):
            return self.fresh_float(hint, ty)
        if ty == '()':
            return UNIT
        if ty in ('&str', 'String', 'std::string::String') or ty.startswith('CowRcStr') or ty.startswith('cssparser::CowRcStr'):
            return z3.String(self.fresh_name(hint))
        m = re.match(r'(?:std::option::)?Option<(.*)>$', ty)
        if m:
            b = z3.Bool(self.fresh_name(hint + '_some'))
            inner = m.group(1)
            return SymEnum(self.fresh_name('opt'), 'Option', z3.If(b, z3.IntVal(1), z3.IntVal(0)),
                           lambda var, i, _p=path, _t=inner, _h=hint, _c={}: _c.setdefault((var, i), self.fresh(_p, _t, _h + '_v')))
        return Opaque(ty, hint)

    def fresh_float(self, hint, ty='f32'):
        if self.float_mode == 'real':
            return z3.Real(self.fresh_name(hint))
        return z3.FP(self.fresh_name(hint), z3.Float32() if ty == 'f32' else z3.Float64())

    # ------------------------------------------------------------------ enum tables
    def discr_of(self, enum_name, variant):
        if variant is None:
            raise MirUnsupported('discriminant of non-enum ' + enum_name)
        for rx, table in self.enums.items():
            if re.search(rx, enum_name):
                if variant in table:
                    return table[variant]
        std = {'None': 0, 'Some': 1, 'Ok': 0, 'Err': 1, 'Continue': 0, 'Break': 1, 'Less': -1, 'Equal': 0, 'Greater': 1,
               'Borrowed': 0, 'Owned': 1}
        if variant in std:
            return std[variant]
        raise MirUnsupported('unknown enum variant %s::%s' % (enum_name, variant))

    def variant_of(self, enum_name, discr):
        for rx, table in self.enums.items():
            if re.search(rx, enum_name):
                for k, v in table.items():
                    if v == discr:
                        return k
        raise MirUnsupported('unknown discriminant %s of %s' % (discr, enum_name))

    # ------------------------------------------------------------------ places
    def canon(self, path, frame, place):
        """resolve a Place to (store key, projection without deref-of-Ref steps)."""
        key, proj = (frame.fid, place.local), []
        for step in place.proj:
            if step[0] == 'deref':
                cur = self.load_raw(path, key, proj)
                if isinstance(cur, Ref):
                    key, proj = cur.key, list(cur.proj)
                # Box / transparent pointer: deref is the identity
                continue
            if step[0] == 'index':
                idx = path.store.get((frame.fid, step[1]))
                proj.append(('index', idx))
                continue
            proj.append(step)
        return key, tuple(proj)

    def load_raw(self, path, key, proj):
        if key not in path.store:
            raise MirUnsupported('read of unset local %s' % (key,))
        v = path.store[key]
        for step in proj:
            v = self.project(path, v, step)
        return v

    def project(self, path, v, step):
        k = step[0]
        if isinstance(v, Ref) and k != 'deref':
            # auto-deref of transparent wrappers does not happen in MIR; this is a modelling shortcut for Box
            v = self.load_raw(path, v.key, v.proj)
        if k == 'field':
            if isinstance(v, Agg):
                if step[1] not in v.fields:
                    raise MirUnsupported('field %d of %r unset' % (step[1], v))
                return v.fields[step[1]]
            if isinstance(v, SymEnum):
                raise MirUnsupported('field of SymEnum without downcast')
            if isinstance(v, tuple) and v and v[0] == 'downcast':
                return v[1].payload_fn(v[2], step[1])
            if isinstance(v, Opaque):
                if v.info is not None and isinstance(v.info, dict) and ('field', step[1]) in v.info:
                    return v.info[('field', step[1])]
                raise MirUnsupported('field %d of opaque %r' % (step[1], v))
            raise MirUnsupported('field of %r' % (v,))
        if k == 'downcast':
            if isinstance(v, Agg):
                return v        # variant is concrete; checked by the preceding switch
            if isinstance(v, SymEnum):
                return ('downcast', v, step[1])
            raise MirUnsupported('downcast of %r' % (v,))
        if k in ('index', 'cindex'):
            idx = step[1]
            if isinstance(v, Agg) and v.name in ('array', 'Vec'):
                if isinstance(idx, int):
                    return v.fields[idx]
                idx = z3.simplify(idx)
                if z3.is_int_value(idx):
                    return v.fields[idx.as_long()]
                n = len(v.fields)
                out = v.fields[n - 1]
                for i in range(n - 2, -1, -1):
                    out = z3.If(idx == i, v.fields[i], out)
                # remember which table / index this term was read from (used for injectivity arguments)
                sel = dict(path.env.get('selects', {}))
                sel[out.get_id()] = (tuple(v.fields[i] for i in range(n)), idx)
                path.env['selects'] = sel
                return out
            if isinstance(v, SeqV):
                if isinstance(idx, int):
                    return v.items[idx]
                idx = z3.simplify(idx)
                if z3.is_int_value(idx):
                    return v.items[idx.as_long()]
                out = v.items[-1]
                for i in range(len(v.items) - 2, -1, -1):
                    out = z3.If(idx == i, v.items[i], out)
                return out
            raise MirUnsupported('index of %r' % (v,))
        raise MirUnsupported('projection %r' % (step,))

    def read_place(self, path, frame, place):
        # `(box.0: Unique<T>).0: NonNull<T>` is the raw pointer of a Box: boxes are stored inline, so the pointer is a reference to
        # the place that holds the boxed value (reads and writes through it alias the box)
        if place.ty is not None and place.ty.startswith('std::ptr::NonNull<') and len(place.proj) >= 2 and \
                place.proj[-1] == ('field', 0) and place.proj[-2] == ('field', 0):
            from .mir import Place
            base = Place(place.local, place.proj[:-2], None)
            key, proj = self.canon(path, frame, base)
            if getattr(self, 'boxes_on_heap', False):
                cur = self.load_raw(path, key, proj)
                if isinstance(cur, Ref):
                    return cur                     # the box is a pointer to a heap cell: copies of the box share it
            return Ref(key, tuple(proj))
        key, proj = self.canon(path, frame, place)
        return self.load_raw(path, key, proj)

    def update(self, path, v, proj, new):
        if not proj:
            return new
        step = proj[0]
        if isinstance(v, Ref):
            # writing through a Box-like transparent pointer
            self.store_at(path, v.key, v.proj + tuple(proj), new)
            return v
        if step[0] == 'field':
            if v is None or isinstance(v, Opaque):
                v = Agg('?')
            if not isinstance(v, Agg):
                raise MirUnsupported('field write into %r' % (v,))
            return v.with_field(step[1], self.update(path, v.fields.get(step[1]), proj[1:], new))
        if step[0] == 'downcast':
            if v is None:
                v = Agg('?', step[1])
            if isinstance(v, Agg):
                nv = Agg(v.name, v.variant if v.variant is not None else step[1], v.fields)
                return self.update(path, nv, proj[1:], new)
            raise MirUnsupported('downcast write into %r' % (v,))
        if step[0] in ('index', 'cindex'):
            idx = step[1]
            if not isinstance(idx, int):
                idx = z3.simplify(idx)
                if not z3.is_int_value(idx):
                    raise MirUnsupported('write at symbolic index')
                idx = idx.as_long()
            if isinstance(v, Agg):
                return v.with_field(idx, self.update(path, v.fields.get(idx), proj[1:], new))
        raise MirUnsupported('write projection %r into %r' % (step, v))

    def store_at(self, path, key, proj, val):
        path.store[key] = self.update(path, path.store.get(key), proj, val)

    def write_place(self, path, frame, place, val):
        key, proj = self.canon(path, frame, place)
        self.store_at(path, key, proj, val)

    def load(self, path, ref):
        return self.load_raw(path, ref.key, ref.proj)

    def snapshot(self, path, v, depth=0):
        """deep copy with every reference replaced by its referent (events outlive the frames their arguments point into)"""
        if depth > 8:
            return v
        if isinstance(v, Ref):
            try:
                return self.snapshot(path, self.load(path, v), depth + 1)
            except MirUnsupported:
                return v
        if isinstance(v, Agg):
            return Agg(v.name, v.variant, {k: self.snapshot(path, x, depth + 1) for k, x in v.fields.items()})
        return v

    def deref_all(self, path, v):
        while isinstance(v, Ref):
            v = self.load(path, v)
        return v

    # ------------------------------------------------------------------ constants
    def const_value(self, path, c, ty_hint=None):
        k = c.kind
        if k == 'int':
            return z3.IntVal(c.value[0])
        if k == 'bool':
            return z3.BoolVal(c.value)
        if k == 'char':
            return z3.IntVal(c.value)
        if k == 'str':
            return z3.StringVal(c.value)
        if k == 'bytes':
            return z3.StringVal(c.value)
        if k == 'unit':
            return UNIT
        if k == 'float':
            txt, ty = c.value
            return self.float_const(txt, ty)
        if k == 'zst':
            return Agg(c.value)
        if k == 'named':
            name = c.value
            return self.named_const(path, name)
        raise MirUnsupported('const ' + c.text)

    def float_const(self, txt, ty='f32'):
        from fractions import Fraction
        if self.float_mode == 'real':
            if txt in ('inf', '-inf', 'NaN'):
                raise MirUnsupported('non-finite float const')
            fr = Fraction(txt)
            return z3.RealVal(str(fr.numerator)) / z3.RealVal(str(fr.denominator)) if fr.denominator != 1 else z3.RealVal(str(fr.numerator))
        return z3.FPVal(float(txt), z3.Float32() if ty == 'f32' else z3.Float64())

    NAMED = {}

    def named_const(self, path, name):
        if name in self.NAMED:
            return self.NAMED[name](self)
        if name.endswith('f32>::EPSILON') or name == 'core::f32::<impl f32>::EPSILON':
            return self.float_const('1.1920929e-7') if self.float_mode != 'real' else z3.RealVal(1) / z3.RealVal(2**23)
        # promoted / const item of this crate
        cand = self.resolve_item(name, ('const', 'static'))
        if cand is not None and self.m.headers[cand].startswith(('const', 'static')):
            if cand not in self.const_cache:
                fn = self.m.get(cand)
                sub = Executor(self.m, self.contracts, self.float_mode, enums=self.enums, inline=self.inline)
                p = Path()
                fr = MirFrame(fn, 0)
                p.frames.append(fr)
                done = sub.run_paths([p])
                if len(done) != 1:
                    raise MirUnsupported('const item %s has %d paths' % (cand, len(done)))
                val = done[0].result
                # a promoted `&T` is a Ref into the sub-store: make it self-contained
                val = self.detach(done[0], val, sub)
                if isinstance(val, tuple) and val and val[0] == 'constref':
                    val = ('constref', val[1], cand)
                self.const_cache[cand] = val
            return self.const_cache[cand]
        # constant enum value printed inline, e.g. `Result::<Infallible, ()>::Err(())` or `Option::<T>::None`
        from .mir import split_top, parse_const, split_trailing_group
        head, inner = split_trailing_group(name)
        if inner is not None or re.search(r'::(None|Some|Ok|Err)$', name):
            base, variant = self.split_adt(head, None)
            if variant is not None:
                fields = {}
                if inner is not None and inner.strip():
                    for i, part in enumerate(split_top(inner)):
                        fields[i] = self.const_value(path, parse_const(part[6:] if part.startswith('const ') else part))
                return Agg(base, variant, fields)
        return FnItem(name)

    def resolve_item(self, name, kinds):
        """find the dump item a path refers to: the dump prints some items with, some without their module path."""
        segs = name.split('::')
        for i in range(len(segs)):
            suffix = '::'.join(segs[i:])
            hits = [x for x in self.m.index
                    if (x == suffix or x.endswith('::' + suffix)) and self.m.headers[x].startswith(kinds)]
            if len(hits) == 1:
                return hits[0]
            if len(hits) > 1:
                exact = [h for h in hits if h == suffix]
                if len(exact) == 1:
                    return exact[0]
                return None
        return None

    def detach(self, p, v, sub):
        if isinstance(v, Ref):
            return ('constref', self.detach(p, sub.load(p, v), sub))
        if isinstance(v, Agg):
            return Agg(v.name, v.variant, {k: self.detach(p, x, sub) for k, x in v.fields.items()})
        return v

    # ------------------------------------------------------------------ operands / rvalues
    def operand(self, path, frame, op):
        if op.mode == 'const':
            v = self.const_value(path, op.const)
        else:
            v = self.read_place(path, frame, op.place)
        if isinstance(v, tuple) and v and v[0] == 'constref':
            # materialise a promoted constant in the store (immutable, keyed by its name)
            key = ('const', v[2])
            path.store[key] = v[1]
            return Ref(key)
        return v

    def operand_type(self, frame, op):
        if op.mode != 'const' and not op.place.proj:
            return frame.fn.local_types.get(op.place.local)
        if op.mode != 'const' and op.place.ty is not None and op.place.proj and op.place.proj[-1][0] == 'field':
            return op.place.ty
        if op.mode == 'const' and op.const.kind == 'int':
            return op.const.value[1]
        return None

    def int_ty_of_place(self, frame, place):
        if not place.proj:
            return frame.fn.local_types.get(place.local)
        if place.ty is not None and place.proj[-1][0] == 'field':
            return place.ty
        return None

    def binop(self, path, frame, name, a, b, ta, dst_ty):
        isf = lambda x: isinstance(x, z3.ExprRef) and (z3.is_real(x) or z3.is_fp(x))
        if name in ('Eq', 'Ne', 'Lt', 'Le', 'Gt', 'Ge'):
            if isinstance(a, Agg) and not a.fields and isinstance(b, Agg):
                r = z3.BoolVal(a.name == b.name and a.variant == b.variant)
                return r if name == 'Eq' else z3.Not(r)
            if z3.is_fp(a):
                return {'Eq': z3.fpEQ(a, b), 'Ne': z3.Not(z3.fpEQ(a, b)), 'Lt': z3.fpLT(a, b), 'Le': z3.fpLEQ(a, b),
                        'Gt': z3.fpGT(a, b), 'Ge': z3.fpGEQ(a, b)}[name]
            if z3.is_bool(a) and name in ('Eq', 'Ne'):
                return (a == b) if name == 'Eq' else (a != b)
            return {'Eq': a == b, 'Ne': a != b, 'Lt': a < b, 'Le': a <= b, 'Gt': a > b, 'Ge': a >= b}[name]
        if isf(a):
            return self.float_op(path, name, a, b, ta or dst_ty or 'f32')
        if z3.is_bool(a):
            return {'BitAnd': z3.And(a, b), 'BitOr': z3.Or(a, b), 'BitXor': z3.Xor(a, b)}[name]
        ty = ta or dst_ty
        if name in ('AddWithOverflow', 'SubWithOverflow', 'MulWithOverflow'):
            r = {'Add': a + b, 'Sub': a - b, 'Mul': a * b}[name[:3]]
            if ty not in INT_RANGE:
                raise MirUnsupported('checked op without known type')
            lo, hi = INT_RANGE[ty]
            return Agg('tuple', None, {0: r, 1: z3.Or(r < lo, r > hi)})
        if name in ('Add', 'Sub', 'Mul', 'AddUnchecked', 'SubUnchecked', 'MulUnchecked'):
            r = {'Add': a + b, 'Sub': a - b, 'Mul': a * b}[name[:3]]
            if ty in INT_RANGE:
                lo, hi = INT_RANGE[ty]
                if self.feasible(path, [z3.Or(r < lo, r > hi)]):
                    raise MirUnsupported('unchecked %s may wrap' % name)
            else:
                raise MirUnsupported('unchecked op without known type')
            return r
        if name == 'Div':
            # integer division truncating toward zero; MIR has asserted b != 0 before
            if ty in INT_RANGE and INT_RANGE[ty][0] == 0:
                return a / b
            return z3.If(z3.Or(z3.And(a >= 0, b > 0), z3.And(a <= 0, b < 0)), z3.If(a >= 0, a, -a) / z3.If(b >= 0, b, -b),
                         -(z3.If(a >= 0, a, -a) / z3.If(b >= 0, b, -b)))
        if name == 'Rem':
            if ty in INT_RANGE and INT_RANGE[ty][0] == 0:
                return a % b
            absr = z3.If(a >= 0, a, -a) % z3.If(b >= 0, b, -b)
            return z3.If(a >= 0, absr, -absr)
        if name in ('BitAnd', 'BitOr', 'BitXor', 'Shl', 'Shr', 'ShlUnchecked', 'ShrUnchecked'):
            if ty not in INT_RANGE:
                raise MirUnsupported('bit op without known type')
            lo, hi = INT_RANGE[ty]
            bits = (hi - lo + 1).bit_length() - 1
            # constant shift amounts become multiplications / divisions; everything else goes through bit-vectors
            bs = z3.simplify(b)
            if name == 'BitAnd' and z3.is_int_value(bs) and lo == 0 and (bs.as_long() + 1) & bs.as_long() == 0:
                return a % (bs.as_long() + 1)          # mask with 2^k - 1
            if name.startswith('Shl') and z3.is_int_value(bs) and lo == 0:
                return (a * (2 ** bs.as_long())) % (2 ** bits)
            if name.startswith('Shr') and z3.is_int_value(bs) and lo == 0:
                return a / (2 ** bs.as_long())
            A, B = z3.Int2BV(a, bits), z3.Int2BV(b, bits)
            if name.startswith('Shl'):
                R = A << B
            elif name.startswith('Shr'):
                R = z3.LShR(A, B) if lo == 0 else (A >> B)
            else:
                R = {'BitAnd': A & B, 'BitOr': A | B, 'BitXor': A ^ B}[name]
            return z3.BV2Int(R, is_signed=(lo < 0))
        raise MirUnsupported('binop ' + name)

    def float_round(self, path, exact, ty='f32'):
        """real-relaxation: one relative rounding error |d| <= 2^-24 (f32) / 2^-53 (f64) per operation (normal range, no overflow)."""
        d = z3.Real(self.fresh_name('delta'))
        u = z3.RealVal(1) / (2**53 if ty == 'f64' else 2**24)
        path.pc.append(z3.And(d >= -u, d <= u))
        path.env['deltas'] = path.env.get('deltas', ()) + (d,)
        return exact * (1 + d)

    def float_op(self, path, name, a, b, ty='f32'):
        if self.float_mode == 'real':
            if name == 'Add':
                return self.float_round(path, a + b, ty)
            if name == 'Sub':
                return self.float_round(path, a - b, ty)
            if name == 'Mul':
                return self.float_round(path, a * b, ty)
            if name == 'Div':
                return self.float_round(path, a / b, ty)
            raise MirUnsupported('float op ' + name)
        rm = z3.RNE()
        return {'Add': z3.fpAdd, 'Sub': z3.fpSub, 'Mul': z3.fpMul, 'Div': z3.fpDiv}[name](rm, a, b)

    def cast(self, path, frame, v, src_ty, ty, kind):
        ty = ty.strip()
        if kind.startswith('PointerCoercion') or kind in ('PtrToPtr', 'Transmute', 'FnPtrToPtr'):
            if kind == 'Transmute' and not (isinstance(v, Ref) and ty.startswith('*')):
                raise MirUnsupported('transmute')
            return v
        if kind == 'IntToInt':
            if ty not in INT_RANGE:
                raise MirUnsupported('IntToInt to ' + ty)
            if z3.is_bool(v):
                return z3.If(v, z3.IntVal(1), z3.IntVal(0))
            lo, hi = INT_RANGE[ty]
            if src_ty in INT_RANGE:
                slo, shi = INT_RANGE[src_ty]
                if slo >= lo and shi <= hi:
                    return v
            if not self.feasible(path, [z3.Or(v < lo, v > hi)]):
                return v
            n = hi - lo + 1
            return ((v - lo) % n) + lo
        if kind == 'FloatToInt':
            lo, hi = INT_RANGE[ty]
            if self.float_mode == 'real':
                tr = z3.If(v >= 0, z3.ToInt(v), -z3.ToInt(-v))
                return z3.If(tr < lo, z3.IntVal(lo), z3.If(tr > hi, z3.IntVal(hi), tr))
            r = z3.fpToReal(z3.fpRoundToIntegral(z3.RTZ(), v))
            tr = z3.ToInt(r)
            return z3.If(z3.fpIsNaN(v), z3.IntVal(0), z3.If(z3.Or(tr < lo, z3.And(z3.fpIsInf(v), z3.fpIsNegative(v))), z3.IntVal(lo),
                         z3.If(z3.Or(tr > hi, z3.fpIsInf(v)), z3.IntVal(hi), tr)))
        if kind == 'FloatToFloat':
            if self.float_mode != 'real':
                raise MirUnsupported('FloatToFloat in fp mode')
            if ty == 'f64':
                return v                      # widening is exact
            return self.float_round(path, v, 'f32')
        if kind == 'IntToFloat':
            if self.float_mode == 'real':
                bits = 53 if ty == 'f64' else 24
                # exact when the integer has at most `bits` significant bits
                if src_ty in INT_RANGE and max(abs(INT_RANGE[src_ty][0]), abs(INT_RANGE[src_ty][1])) <= 2**bits:
                    return z3.ToReal(v)
                r = z3.ToReal(v)
                return z3.If(z3.And(v >= -2**bits, v <= 2**bits), r, self.float_round(path, r, ty))
            return z3.fpToFP(z3.RNE(), z3.ToReal(v), z3.Float32() if ty == 'f32' else z3.Float64())
        raise MirUnsupported('cast ' + kind)

    def rvalue(self, path, frame, rv, dst_ty):
        k = rv.kind
        if k == 'use':
            return self.operand(path, frame, rv.a)
        if k == 'ref':
            key, proj = self.canon(path, frame, rv.a)
            return Ref(key, proj)
        if k == 'binop':
            a = self.operand(path, frame, rv.b)
            b = self.operand(path, frame, rv.c)
            return self.binop(path, frame, rv.a, a, b, self.operand_type(frame, rv.b), dst_ty)
        if k == 'unop':
            v = self.operand(path, frame, rv.b)
            if rv.a == 'Not':
                if z3.is_bool(v):
                    return z3.Not(v)
                ty = self.operand_type(frame, rv.b) or dst_ty
                lo, hi = INT_RANGE[ty]
                return (hi - v) if lo == 0 else (-v - 1)
            if rv.a == 'Neg':
                if z3.is_fp(v):
                    return z3.fpNeg(v)
                return -v
            if rv.a == 'PtrMetadata':
                t = self.deref_all(path, v)
                if isinstance(t, Agg) and t.name == 'array':
                    return z3.IntVal(len(t.fields))
                if isinstance(t, SeqV):
                    return z3.IntVal(len(t.items))
                if isinstance(t, z3.ExprRef) and z3.is_string(t):
                    return z3.Length(t)
                if isinstance(t, FnItem):
                    m = re.search(r'&\[.*; (\d+)\]\}?$', t.name)
                    if m:
                        return z3.IntVal(int(m.group(1)))       # reference to a static array of known length
                raise MirUnsupported('PtrMetadata of %r' % (t,))
        if k == 'discriminant':
            v = self.read_place(path, frame, rv.a)
            if isinstance(v, Ref):
                v = self.load(path, v)
            if isinstance(v, Agg):
                return z3.IntVal(self.discr_of(v.name, v.variant))
            if isinstance(v, SymEnum):
                return v.discr
            raise MirUnsupported('discriminant of %r' % (v,))
        if k == 'len':
            v = self.read_place(path, frame, rv.a)
            if isinstance(v, Agg):
                return z3.IntVal(len(v.fields))
            raise MirUnsupported('Len of %r' % (v,))
        if k == 'cast':
            v = self.operand(path, frame, rv.a)
            return self.cast(path, frame, v, self.operand_type(frame, rv.a), rv.b, rv.c)
        if k == 'aggregate':
            kind, name = rv.a
            vals = [self.operand(path, frame, o) for o in rv.b]
            if kind == 'tuple':
                return Agg('tuple', None, dict(enumerate(vals))) if vals else UNIT
            if kind == 'array':
                return Agg('array', None, dict(enumerate(vals)))
            if kind == 'closure':
                return Agg(name, None, dict(enumerate(vals)))
            base, variant = self.split_adt(name, dst_ty)
            return Agg(base, variant, dict(enumerate(vals)))
        if k == 'repeat':
            v = self.operand(path, frame, rv.a)
            n = int(re.match(r'\d+', rv.b.strip()).group(0)) if re.match(r'\d+', rv.b.strip()) else None
            if n is None:
                raise MirUnsupported('repeat count ' + rv.b)
            return Agg('array', None, {i: v for i in range(n)})
        raise MirUnsupported('rvalue kind ' + k)

    ENUM_HINT = re.compile(r'(Option|Result|ControlFlow|Token|Ordering|Cow)\b')

    def split_adt(self, name, dst_ty):
        """'std::option::Option::<i32>::Some' -> ('Option', 'Some');  'Foo' (struct) -> ('Foo', None)"""
        # strip generic argument lists
        out, depth = [], 0
        for c in name:
            if c == '<':
                depth += 1
            elif c == '>':
                depth -= 1
            elif depth == 0:
                out.append(c)
        parts = [p for p in ''.join(out).split('::') if p]
        if len(parts) >= 2 and self.is_enum(parts[-2]):
            return parts[-2], parts[-1]
        return parts[-1], None

    def is_enum(self, base):
        if base in ('Option', 'Result', 'ControlFlow', 'Ordering', 'Cow'):
            return True
        for rx in self.enums:
            if re.search(rx, base):
                return True
        return False

    # ------------------------------------------------------------------ execution
    def start(self, fn_name, args, path=None):
        fn = self.m.get(fn_name)
        p = path or Path()
        fr = MirFrame(fn, next(self.fid))
        if len(args) != len(fn.params):
            raise MirUnsupported('arity mismatch calling %s' % fn_name)
        for prm, a in zip(fn.params, args):
            p.store[(fr.fid, prm)] = a
        p.frames.append(fr)
        return p

    def run(self, fn_name, args, path=None):
        p = self.start(fn_name, args, path)
        return self.run_paths([p])

    def run_paths(self, paths, merge=None, order_key=None):
        merge = self.merge if merge is None else merge
        if not merge:
            work = list(paths)
            done = []
            while work:
                p = work.pop()
                if p.status != 'running':
                    done.append(p)
                    continue
                for q in self.step_block(p):
                    (work if q.status == 'running' else done).append(q)
            self.stats['paths'] += len(done)
            self.finished.extend(done)
            return done
        # merging scheduler: paths that arrive at the same block with the same cursor, call stack, store and events are
        # joined (their path conditions are or-ed); the queue is ordered so that laggards run first
        import heapq
        heap, pending, done = [], {}, []
        cnt = itertools.count()
        order_key = order_key or self.order_key

        def push(p):
            if p.status != 'running':
                done.append(p)
                return
            top = p.frames[-1]
            if isinstance(top, MirFrame) and top.bb in top.fn.blocks:
                live, pinned = self.liveness(top.fn)
                lv = live[top.bb]
                for k in [k for k in p.store if k[0] == top.fid and k[1] not in lv and k[1] not in pinned]:
                    del p.store[k]
            sig = self.signature(p)
            if sig in pending:
                q = pending[sig]
                self.join(q, p)
                self.stats['merged'] = self.stats.get('merged', 0) + 1
                return
            pending[sig] = p
            heapq.heappush(heap, (order_key(self, p), next(cnt), sig))
        for p in paths:
            push(p)
        while heap:
            _, _, sig = heapq.heappop(heap)
            p = pending.pop(sig)
            for q in self.step_block(p):
                push(q)
        self.stats['paths'] += len(done)
        self.finished.extend(done)
        return done

    merge = False

    def liveness(self, fn):
        """backward liveness of MIR locals; locals whose address is taken are pinned (never pruned)."""
        if hasattr(fn, '_live'):
            return fn._live
        pinned = set(['_0'])
        gen, kill, succ = {}, {}, {}

        def place_uses(pl, acc):
            acc.add(pl.local)
            for st in pl.proj:
                if st[0] == 'index':
                    acc.add(st[1])

        def op_uses(op, acc):
            if op is not None and op.mode != 'const':
                place_uses(op.place, acc)

        def rv_uses(rv, acc):
            k = rv.kind
            if k == 'use':
                op_uses(rv.a, acc)
            elif k == 'ref':
                place_uses(rv.a, acc)
                if not any(st[0] == 'deref' for st in rv.a.proj):
                    pinned.add(rv.a.local)
            elif k == 'binop':
                op_uses(rv.b, acc)
                op_uses(rv.c, acc)
            elif k == 'unop':
                op_uses(rv.b, acc)
            elif k in ('discriminant', 'len'):
                place_uses(rv.a, acc)
            elif k == 'cast':
                op_uses(rv.a, acc)
            elif k == 'aggregate':
                for o in rv.b:
                    op_uses(o, acc)
            elif k == 'repeat':
                op_uses(rv.a, acc)
        for b, (stmts, term) in fn.blocks.items():
            g, kl = set(), set()

            def use(acc_fn, *a):
                acc = set()
                acc_fn(*a, acc)
                for x in acc:
                    if x not in kl:
                        g.add(x)

            def define(pl):
                if not pl.proj:
                    kl.add(pl.local)
                else:
                    use(place_uses, pl)
            for st in stmts:
                if st.kind == 'assign':
                    use(rv_uses, st.rvalue)
                    define(st.place)
                elif st.kind == 'setdiscr':
                    use(place_uses, st.place)
            t = []
            if term is not None:
                d = term.data
                if term.kind == 'goto':
                    t = [d['target']]
                elif term.kind == 'switch':
                    use(op_uses, d['op'])
                    t = [x for _, x in d['arms']]
                elif term.kind == 'drop':
                    t = [v for k, v in d['targets'].items() if k == 'return']
                elif term.kind == 'assert':
                    use(op_uses, d['cond'])
                    t = [d['targets']['success']]
                elif term.kind == 'call':
                    for o in d['args']:
                        use(op_uses, o)
                    if d['dst'] is not None:
                        define(d['dst'])
                    t = [v for k, v in d['targets'].items() if k == 'return']
            gen[b], kill[b], succ[b] = g, kl, [x for x in t if x in fn.blocks]
        live = {b: set(gen[b]) for b in fn.blocks}
        changed = True
        while changed:
            changed = False
            for b in fn.blocks:
                out = set()
                for s_ in succ[b]:
                    out |= live[s_]
                new = gen[b] | (out - kill[b])
                if new != live[b]:
                    live[b] = new
                    changed = True
        fn._live = (live, pinned)
        return fn._live

    def rpo(self, fn):
        if not hasattr(fn, '_rpo'):
            succ = {}
            for b, (stmts, term) in fn.blocks.items():
                t = []
                if term is not None:
                    d = term.data
                    if term.kind == 'goto':
                        t = [d['target']]
                    elif term.kind == 'switch':
                        t = [x for _, x in d['arms']]
                    elif term.kind in ('drop', 'assert', 'call'):
                        t = [v for k, v in d['targets'].items() if k in ('return', 'success')]
                succ[b] = t
            order, seen = [], set()
            stack = [('bb0', iter(succ.get('bb0', [])))]
            seen.add('bb0')
            while stack:
                b, it = stack[-1]
                adv = False
                for t in it:
                    if t not in seen and t in fn.blocks:
                        seen.add(t)
                        stack.append((t, iter(succ.get(t, []))))
                        adv = True
                        break
                if not adv:
                    order.append(b)
                    stack.pop()
            order.reverse()
            fn._rpo = {b: i for i, b in enumerate(order)}
        return fn._rpo

    @staticmethod
    def order_key(exe, p):
        cursor = p.env.get('ps', (0,))[0] if 'ps' in p.env else p.env.get('cursor', 0)
        ks = []
        for f in p.frames:
            if isinstance(f, MirFrame):
                ks.append(exe.rpo(f.fn).get(f.bb, 0))
            else:
                ks.append(-1)
        return (cursor, tuple(ks))

    def signature(self, p):
        fr = []
        for f in p.frames:
            if isinstance(f, MirFrame):
                fr.append((f.fn.name, f.fid, f.bb, repr(f.dst), f.target))
            else:
                fr.append(('native', id(f.cb), vkey(f.data)))
        st = tuple(sorted(((repr(k), vkey(v)) for k, v in p.store.items() if k[0] != 'const')))
        env = tuple(sorted((k, vkey(v) if not isinstance(v, dict) else tuple(sorted((kk, vkey(vv)) for kk, vv in v.items())))
                           for k, v in p.env.items()))
        return (tuple(fr), st, env, vkey(p.events))

    def join(self, q, p):
        """q := q or p (same state, different path conditions)"""
        i = 0
        while i < len(q.pc) and i < len(p.pc) and q.pc[i].get_id() == p.pc[i].get_id():
            i += 1
        a = z3.And(q.pc[i:]) if len(q.pc) > i else z3.BoolVal(True)
        b = z3.And(p.pc[i:]) if len(p.pc) > i else z3.BoolVal(True)
        q.pc = q.pc[:i] + [z3.Or(a, b)]
        q.steps = max(q.steps, p.steps)
        for fq, fp in zip(q.frames, p.frames):
            if isinstance(fq, MirFrame):
                for k, v in fp.visits.items():
                    if v > fq.visits.get(k, 0):
                        fq.visits[k] = v

    def do_return(self, path, val):
        """pop frames: deliver `val` to the frame below (MIR or native)."""
        outs = [(path, val)]
        result = []
        while outs:
            p, v = outs.pop()
            if not p.frames:
                p.result = v
                p.status = 'returned'
                result.append(p)
                continue
            top = p.frames[-1]
            if isinstance(top, NativeFrame):
                p.frames.pop()
                for o in top.cb(self, p, v, top.data):
                    kind = o[0]
                    if kind == 'ret':
                        outs.append((o[1], o[2]))
                    elif kind == 'diverge':
                        o[1].status = 'diverged'
                        result.append(o[1])
                    elif kind == 'running':
                        result.append(o[1])
                    else:
                        raise MirUnsupported('native outcome ' + kind)
                continue
            # MIR frame awaiting a value
            if top.dst is not None:
                self.write_place(p, top, top.dst, v)
            if top.target is None:
                p.status = 'diverged'
                result.append(p)
                continue
            top.bb = top.target
            top.dst = top.target = None
            result.append(p)
        return result

    def step_block(self, path):
        frame = path.frames[-1]
        fn = frame.fn
        bb = frame.bb
        n = frame.visits.get(bb, 0) + 1
        frame.visits[bb] = n
        self.stats['blocks'] += 1
        path.steps += 1
        if n > self.max_visits or path.steps > self.max_steps:
            self.stats['unwind_cut'] += 1
            if self.unwind_is_finding:
                f = Finding('unwind', path.clone(), z3.BoolVal(True), {'fn': fn.name, 'bb': bb})
                ok, f.model = self.check(self.base + path.pc)
                self.findings.append(f)
            path.status = 'cut'
            return [path]
        if self.on_block is not None:
            r = self.on_block(self, path, frame, bb)
            if r is not None:
                return r
        if bb not in fn.blocks:
            raise MirUnsupported('no block %s in %s' % (bb, fn.name))
        stmts, term = fn.blocks[bb]
        for st in stmts:
            if st.kind == 'nop':
                continue
            if st.kind == 'assign':
                dst_ty = self.int_ty_of_place(frame, st.place)
                v = self.rvalue(path, frame, st.rvalue, dst_ty)
                self.write_place(path, frame, st.place, v)
                continue
            if st.kind == 'setdiscr':
                cur = None
                try:
                    cur = self.read_place(path, frame, st.place)
                except MirUnsupported:
                    pass
                ty = fn.local_types.get(st.place.local, '?')
                base, _ = self.split_adt(ty + '::X', None)
                variant = self.variant_of(base, st.extra) if not isinstance(cur, Agg) or cur.variant is None else cur.variant
                self.write_place(path, frame, st.place, Agg(base, variant, cur.fields if isinstance(cur, Agg) else {}))
                continue
            raise MirUnsupported('stmt ' + st.text)
        if term is None:
            raise MirUnsupported('block without terminator: %s %s' % (fn.name, bb))
        return self.terminator(path, frame, term)

    def terminator(self, path, frame, term):
        k = term.kind
        if k == 'goto':
            frame.bb = term.data['target']
            return [path]
        if k == 'return':
            key = (frame.fid, '_0')
            val = path.store.get(key, UNIT)
            path.frames.pop()
            if path.frames:
                for k in [k for k in path.store if k[0] == frame.fid]:
                    del path.store[k]
            return self.do_return(path, val)
        if k == 'unreachable':
            # statically unreachable by construction of MIR (exhaustive match); reaching it would be UB
            self.obligation(path, 'unreachable-terminator', z3.BoolVal(True), {'fn': frame.fn.name, 'bb': frame.bb})
            path.status = 'diverged'
            return [path]
        if k == 'resume':
            path.status = 'diverged'
            return [path]
        if k == 'drop':
            frame.bb = term.data['targets'].get('return')
            return [path]
        if k == 'switch':
            v = self.operand(path, frame, term.data['op'])
            return self.switch(path, frame, v, term.data['arms'])
        if k == 'assert':
            c = self.operand(path, frame, term.data['cond'])
            viol = c if term.data['neg'] else z3.Not(c)
            alive = self.obligation(path, 'assert:' + term.data['msg'].strip('"')[:60], viol,
                                    {'fn': frame.fn.name, 'bb': frame.bb})
            if not alive or not self.feasible(path):
                path.status = 'diverged'
                return [path]
            frame.bb = term.data['targets']['success']
            return [path]
        if k == 'call':
            return self.call(path, frame, term)
        raise MirUnsupported('terminator ' + term.text)

    def switch(self, path, frame, v, arms):
        out = []
        if isinstance(v, z3.ExprRef):
            v = z3.simplify(v)
        if z3.is_bool(v):
            conds = []
            for val, bb in arms:
                if val is None:
                    taken = [a for a, _ in arms if a is not None]
                    c = v if 0 in taken else z3.Not(v)
                else:
                    c = z3.Not(v) if val == 0 else v
                conds.append((c, bb))
        else:
            conds, seen = [], []
            for val, bb in arms:
                if val is None:
                    c = z3.And([v != s for s in seen]) if seen else z3.BoolVal(True)
                else:
                    c = (v == val)
                    seen.append(val)
                conds.append((c, bb))
        # diamond merge: arms whose target block is `_x = const k; goto J` (same _x, same J) become one ite-table arm,
        # so that e.g. a 22-way digit match does not fork the state 22 ways
        if not z3.is_bool(v) and len(conds) > 3:
            fn = frame.fn
            groups = {}
            for (c, bb), (val, _) in zip(conds, arms):
                if val is None or bb not in fn.blocks:
                    continue
                stmts, term = fn.blocks[bb]
                if len(stmts) == 1 and stmts[0].kind == 'assign' and not stmts[0].place.proj and \
                        stmts[0].rvalue.kind == 'use' and stmts[0].rvalue.a.mode == 'const' and \
                        stmts[0].rvalue.a.const.kind in ('int', 'bool', 'char') and term is not None and term.kind == 'goto':
                    groups.setdefault((stmts[0].place.local, term.data['target']), []).append((c, bb, stmts[0].rvalue.a))
            for (local, join), members in groups.items():
                if len(members) < 3:
                    continue
                table = None
                for c, bb, op in reversed(members):
                    k = self.const_value(path, op.const)
                    table = k if table is None else z3.If(c, k, table)
                cond = z3.Or([c for c, _, _ in members])
                drop = set(bb for _, bb, _ in members)
                conds = [(c, bb) for c, bb in conds if bb not in drop]
                conds.append((cond, ('diamond', local, table, join)))
        live = []
        for c, bb in conds:
            c = z3.simplify(c)
            if z3.is_false(c):
                continue
            live.append((c, bb))
        if len(live) == 1 and z3.is_true(live[0][0]) and not isinstance(live[0][1], tuple):
            frame.bb = live[0][1]
            return [path]
        for i, (c, bb) in enumerate(live):
            if not self.feasible(path, [c]):
                continue
            q = path.clone()
            q.pc.append(c)
            if isinstance(bb, tuple):
                _, local, table, join = bb
                q.store[(q.frames[-1].fid, local)] = table
                q.frames[-1].bb = join
            else:
                q.frames[-1].bb = bb
            out.append(q)
        return out

    def find_contract(self, callee):
        for rx, fn in self.contracts:
            if re.search(rx, callee):
                self.stats.setdefault('contracts_used', {})
                self.stats['contracts_used'][fn.__name__] = self.stats['contracts_used'].get(fn.__name__, 0) + 1
                return fn
        return None

    def call(self, path, frame, term):
        callee = term.data['callee']
        args = [self.operand(path, frame, a) for a in term.data['args']]
        frame.dst = term.data['dst']
        frame.target = term.data['targets'].get('return')
        self.stats['calls'][callee] = self.stats['calls'].get(callee, 0) + 1
        dst_ty = frame.fn.local_types.get(term.data['dst'].local) if term.data['dst'] is not None and not term.data['dst'].proj else None
        return self.invoke(path, callee, args, dst_ty, term)

    def invoke(self, path, callee, args, dst_ty=None, term=None):
        """perform a call on `path` whose top frame is waiting (dst/target set or a NativeFrame)."""
        c = self.find_contract(callee)
        if c is not None:
            outs = c(self, path, callee, args, dst_ty)
            return self.outcomes(outs)
        # panics
        if re.search(r'(^|::)(panic|panic_fmt|panic_const_\w+|unreachable_display|panic_explicit|expect_failed|unwrap_failed|panic_bounds_check|slice_\w+_fail\w*)$', callee) or \
                callee.startswith('core::panicking::') or callee.startswith('std::rt::begin_panic'):
            msg = ''
            for a in args:
                if isinstance(a, z3.ExprRef) and z3.is_string_value(a):
                    msg = a.as_string()
            self.obligation(path, 'panic:' + msg[:60], z3.BoolVal(True), {'callee': callee})
            path.status = 'diverged'
            return [path]
        # local MIR function
        name = self.resolve_local(callee, len(args))
        if name is not None and (self.inline is None or self.inline(name)):
            fn = self.m.get(name)
            fr = MirFrame(fn, path.new_fid())
            if len(args) != len(fn.params):
                raise MirUnsupported('arity mismatch calling %s' % name)
            for prm, a in zip(fn.params, args):
                path.store[(fr.fid, prm)] = a
            path.frames.append(fr)
            return [path]
        raise MirUnsupported('call to %s has no contract' % callee)

    def outcomes(self, outs):
        res = []
        for o in outs:
            kind = o[0]
            if kind == 'ret':
                res.extend(self.do_return(o[1], o[2]))
            elif kind == 'diverge':
                o[1].status = 'diverged'
                res.append(o[1])
            elif kind == 'running':
                res.append(o[1])
            elif kind == 'multi':
                res.extend(o[1])
            else:
                raise MirUnsupported('contract outcome ' + kind)
        return res

    @staticmethod
    def strip_generics(t):
        out, depth = [], 0
        i = 0
        while i < len(t):
            c = t[i]
            if c == '<' and (i >= 2 and t[i - 2:i] == '::'):
                # "::<...>" generic argument list: drop it together with the leading "::"
                depth = 1
                j = i + 1
                while j < len(t) and depth:
                    if t[j] == '<':
                        depth += 1
                    elif t[j] == '>' and t[j - 1] != '-':
                        depth -= 1
                    j += 1
                del out[-2:]
                i = j
                continue
            out.append(c)
            i += 1
        return ''.join(out)

    def resolve_local(self, callee, nargs=None):
        if self.m.has(callee):
            return callee
        base = self.strip_generics(callee)
        if self.m.has(base):
            return base
        if base.startswith('<'):
            # <Type as Trait>::method implemented in this crate: unique local fn `..::method` whose receiver is Type
            m = re.match(r"<&?(?:mut )?([\w:]+)(?:<.*>)? as .*>::(\w+)$", callee)
            if not m:
                return None
            ty, meth = m.group(1).split('::')[-1], m.group(2)
            hits = [n for n in self.m.index if n.endswith('::' + meth) and self.m.headers[n].startswith('fn ') and
                    re.search(r'\(_1: &?(mut )?(\w+::)*' + re.escape(ty) + r'\b', self.m.headers[n])]
            if nargs is not None:
                hits = [n for n in hits if len(self.m.get(n).params) == nargs]
            return hits[0] if len(hits) == 1 else None
        seg = base.split('::')
        tail = '::' + seg[-1]
        hits = [n for n in self.m.index if n.endswith(tail) and self.m.headers[n].startswith('fn ')]
        if nargs is not None:
            hits = [n for n in hits if len(self.m.get(n).params) == nargs] if len(hits) < 40 else hits
        if len(seg) >= 2:
            ty = seg[-2]
            rx = re.compile(r'\b' + re.escape(ty) + r'\b')
            def mentions(n):
                h = self.m.headers[n]
                m1 = re.search(r'\(_1: ([^,)]*)', h)
                ret = h.rsplit('->', 1)[-1] if '->' in h else ''
                return bool((m1 and rx.search(m1.group(1))) or rx.search(ret) or rx.search(n))
            hits2 = [n for n in hits if mentions(n)]
            if len(hits2) == 1:
                return hits2[0]
            # prefer a method whose receiver type matches over one whose return type matches
            hits3 = [n for n in hits2 if re.search(r'\(_1: &?(mut )?' + re.escape(ty) + r'\b', self.m.headers[n])]
            if len(hits3) == 1:
                return hits3[0]
            if hits2:
                return None
        if len(hits) == 1:
            return hits[0]
        return None

    def call_local(self, path, name, args, then=None, data=None):
        """helper for contracts: push `then` (a native continuation) and a MIR frame for `name`."""
        if then is not None:
            path.frames.append(NativeFrame(then, data))
        fn = self.m.get(name)
        fr = MirFrame(fn, path.new_fid())
        if len(args) != len(fn.params):
            raise MirUnsupported('arity mismatch calling %s (%d vs %d)' % (name, len(args), len(fn.params)))
        for prm, a in zip(fn.params, args):
            path.store[(fr.fid, prm)] = a
        path.frames.append(fr)
        return ('running', path)


def model_int(model, v):
    r = model.eval(v, model_completion=True)
    return r.as_long()
