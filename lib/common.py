"""Shared driver pieces: paths, MIR dumps, replay CLI build, evidence, known findings, exit discipline."""
import hashlib
import json
import os
import subprocess
import sys
import time

VERIF = os.path.dirname(os.path.dirname(os.path.abspath(__file__)))
REPO = os.environ.get('VERIF_REPO', '/repo')
CACHE = os.path.join(VERIF, '.cache')
TC = os.path.join(REPO, 'glass-easel-template-compiler')
SC = os.path.join(REPO, 'glass-easel-stylesheet-compiler')
CRATES = {'tc': TC, 'sc': SC}
GUARD = 'glass_easel_verif'

ENV = dict(os.environ)
ENV.update({'CARGO_NET_OFFLINE': 'true', 'CARGO_TERM_COLOR': 'never'})


class Inconclusive(Exception):
    pass


def log(*a):
    print(*a, file=sys.stderr, flush=True)


def sh(cmd, cwd=None, env=None, timeout=None, check=True):
    e = dict(ENV)
    if env:
        e.update(env)
    r = subprocess.run(cmd, cwd=cwd, env=e, timeout=timeout, stdout=subprocess.PIPE, stderr=subprocess.PIPE, text=True,
                       shell=isinstance(cmd, str))
    if check and r.returncode != 0:
        raise Inconclusive('command failed (%d): %s\n%s' % (r.returncode, cmd, (r.stderr or '')[-3000:]))
    return r


def src_hash(crate):
    h = hashlib.sha256()
    root = os.path.join(CRATES[crate], 'src')
    for dp, dn, fn in sorted(os.walk(root)):
        dn.sort()
        for f in sorted(fn):
            p = os.path.join(dp, f)
            h.update(p.encode())
            h.update(open(p, 'rb').read())
    for f in ('Cargo.toml',):
        h.update(open(os.path.join(CRATES[crate], f), 'rb').read())
    for hp in sorted(os.listdir(os.path.join(VERIF, 'hooks'))):
        h.update(open(os.path.join(VERIF, 'hooks', hp), 'rb').read())
    return h.hexdigest()[:20]


def mir_dump(crate, verif_cfg=False):
    """(Re)generate the MIR text of a crate from /repo's working tree.  rustc is run on every call; when cargo
    reports the crate as fresh (identical sources) it prints nothing and the dump of the identical sources, keyed by a
    content hash, is reused."""
    os.makedirs(os.path.join(CACHE, 'mir'), exist_ok=True)
    tag = crate + ('_v' if verif_cfg else '')
    h = src_hash(crate)
    out = os.path.join(CACHE, 'mir', '%s-%s.mir' % (tag, h))
    if os.path.exists(out) and os.path.getsize(out) > 1000:
        return out
    tdir = os.path.join(CACHE, 'mir-target-' + tag)
    flags = ['-Zunpretty=mir', '-C', 'debug-assertions=off', '-C', 'overflow-checks=on']
    if verif_cfg:
        flags = ['--cfg', GUARD] + flags
    # force rustc to run: remove the crate's own fingerprint (dependencies stay cached)
    name = 'glass-easel-template-compiler' if crate == 'tc' else 'glass-easel-stylesheet-compiler'
    fp = os.path.join(tdir, 'debug', '.fingerprint')
    if os.path.isdir(fp):
        for d in os.listdir(fp):
            if d.startswith(name + '-'):
                subprocess.run(['rm', '-rf', os.path.join(fp, d)])
    t = time.time()
    r = sh(['cargo', '+nightly', 'rustc', '--offline', '--lib', '--no-default-features', '--'] + flags,
           cwd=CRATES[crate], env={'CARGO_TARGET_DIR': tdir}, timeout=1800)
    if len(r.stdout) < 1000:
        raise Inconclusive('MIR dump of %s is empty' % crate)
    tmp = out + '.tmp'
    open(tmp, 'w').write(r.stdout)
    os.replace(tmp, out)
    # drop stale dumps
    for f in os.listdir(os.path.join(CACHE, 'mir')):
        if f.startswith(tag + '-') and f != os.path.basename(out):
            os.remove(os.path.join(CACHE, 'mir', f))
    log('[mir] %s dumped in %.1fs (%d lines)' % (crate, time.time() - t, r.stdout.count('\n')))
    return out


def build_replay(profile='dev'):
    """Build the native replay CLI against /repo's working tree (cfg guard on)."""
    tdir = os.path.join(CACHE, 'replay-target')
    cmd = ['cargo', 'build', '--offline']
    if profile == 'release':
        cmd.append('--release')
    t = time.time()
    sh(cmd, cwd=os.path.join(VERIF, 'replay'),
       env={'CARGO_TARGET_DIR': tdir, 'RUSTFLAGS': '--cfg %s -A unexpected_cfgs' % GUARD}, timeout=3600)
    log('[replay] built (%s) in %.1fs' % (profile, time.time() - t))
    return os.path.join(tdir, 'release' if profile == 'release' else 'debug', 'verif-replay')


_replay_bin = {}


def replay(args, stdin=None, profile='dev', timeout=60):
    if profile not in _replay_bin:
        _replay_bin[profile] = build_replay(profile)
    e = dict(ENV)
    r = subprocess.run([_replay_bin[profile]] + list(args), input=stdin, stdout=subprocess.PIPE, stderr=subprocess.PIPE,
                       text=True, timeout=timeout, env=e)
    return r


# ---------------------------------------------------------------------------------------------- known findings
def load_known():
    p = os.path.join(VERIF, 'known_findings.json')
    if not os.path.exists(p):
        return {'findings': [], 'fixed': []}
    return json.load(open(p))


class Result:
    """Collects what a check run did; decides the exit code; writes evidence."""

    def __init__(self, prop, level, tier=None, seed=None):
        self.prop = prop
        self.level = level
        self.tier = tier or os.environ.get('VERIF_TIER', 'quick')
        try:
            self.seed = int(seed if seed is not None else os.environ.get('VERIF_SEED', '0'))
        except ValueError:
            self.seed = 0
        self.t0 = time.time()
        self.coverage = {}
        self.assumptions = []
        self.violations = []        # dicts: {key, what, replay}
        self.known_hit = []
        self.inconclusive = []
        self.known = [k for k in load_known().get('findings', []) if k.get('property') == prop]
        self.queries = {'total': 0, 'unsat': 0, 'sat': 0, 'unknown': 0}
        self.solver_time = 0.0
        self.samples = []
        self.functions = []
        self.bounds = {}
        self.outside = []
        self.engines = []

    def query(self, verdict, n=1):
        self.queries['total'] += n
        self.queries[verdict] = self.queries.get(verdict, 0) + n

    def sample(self, s, limit=12):
        if len(self.samples) < limit:
            self.samples.append(s)

    def violation(self, key, what, replay_data):
        """key: dict identifying the failing role {engine, harness, class}; matched against known_findings.json."""
        for k in self.known:
            if all(key.get(f) == k['key'].get(f) for f in k['key']):
                if k not in self.known_hit:
                    self.known_hit.append(k)
                return False
        self.violations.append({'key': key, 'what': what, 'replay': replay_data})
        return True

    def inconc(self, why):
        self.inconclusive.append(why)
        log('[inconclusive] ' + why)

    def finish(self):
        wall = time.time() - self.t0
        os.makedirs(os.path.join(VERIF, 'evidence'), exist_ok=True)
        cov = dict(self.coverage)
        cov.setdefault('samples', self.samples or ['(none)'])
        cov['functions_encoded'] = self.functions
        cov['bounds'] = self.bounds
        cov['queries'] = self.queries
        cov['solver_time_s'] = round(self.solver_time, 3)
        cov['outside_the_claim'] = self.outside
        cov['engines'] = self.engines
        cov['known_findings_reproduced'] = [k['what'] for k in self.known_hit]
        cov['inconclusive'] = self.inconclusive
        ev = {
            'property_id': self.prop, 'tier': self.tier if self.tier in ('quick', 'thorough') else 'quick',
            'seed': self.seed, 'level': self.level, 'coverage': cov, 'assumptions': self.assumptions,
            'wall_s': round(wall, 2), 'violations': len(self.violations),
        }
        path = os.path.join(VERIF, 'evidence', self.prop + '.json')
        json.dump(ev, open(path, 'w'), indent=1, sort_keys=True, default=str)
        for k in self.known_hit:
            print('KNOWN-FINDING: property=%s %s' % (self.prop, k['what']), flush=True)
        code = 0
        if self.violations:
            rdir = os.path.join(VERIF, 'evidence', 'replay')
            os.makedirs(rdir, exist_ok=True)
            for i, v in enumerate(self.violations):
                rp = os.path.join(rdir, '%s-%d.json' % (self.prop, i))
                json.dump({'property': self.prop, 'key': v['key'], 'what': v['what'], 'replay': v['replay']},
                          open(rp, 'w'), indent=1, default=str)
                print('VIOLATION property=%s replay=%s' % (self.prop, rp), flush=True)
                log('  ' + v['what'])
            code = 1
        elif self.inconclusive:
            code = 2
        log('[%s] tier=%s queries=%s violations=%d known=%d inconclusive=%d wall=%.1fs -> exit %d' % (
            self.prop, self.tier, self.queries, len(self.violations), len(self.known_hit), len(self.inconclusive), wall, code))
        return code
