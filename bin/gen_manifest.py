#!/usr/bin/env python3
"""Writes /verif/MANIFEST.json from the table below (kept in one place so that it is always valid)."""
import json
import os
import subprocess

HERE = os.path.dirname(os.path.dirname(os.path.abspath(__file__)))

ALL = ['C%02d' % i for i in range(1, 21)]

CSS_NOTE = ('Bounds: every token forest with <= 3 (thorough 4) tokens per level, any nesting depth by assume-guarantee per routine (a nested block is an event naming a routine that is analysed separately; a frame analysis establishes which transformer fields a routine may leave changed and havocs them in callers). Trusted: the cssparser::Parser contract of mirsym/sc_env.py (token forest, try_parse rollback, parse_nested_block precondition, positions as uninterpreted functions), cssparser tokenizer/serializer, format!/urlencoding as opaque functions; the reference rewrite lib/cssref.py is used only to replay counterexamples. The start state and the top-level rule loop the routine analysis assumes are established from the MIR of from_css (options reach the transformer unchanged, empty stack / warnings, no unmodelled state) and parse_rules (at_file_start true exactly for the first rule). A routine the executor cannot run is not decided: probe sheets are pushed through the real code (violation if one deviates from the reference rewrite, else inconclusive).')

CHECKS = {
    'C01': dict(
        engine='M',
        category='other',
        text='Kernel-level bounded check of totality: the MIR of the number-literal scanner (Expression::parse_number and its closure) '
             'and of the tag-recovery loop (CustomAttribute::parse_until_tag_end) is executed over symbolic character sequences against '
             'contracts of the ParseState cursor; every panic / unreachable!() / overflow or bounds assert / unwrap is an obligation decided '
             'by z3 on every path, and the unwinding assertion shows every loop iteration consumes input (no hang).  The whole-input claim '
             '(parse+generate+stringify+transform for every text) is outside the reach of any engine here (DESIGN 2) and is not claimed.',
        note='Bounds: parse_number free ASCII <= 12 chars (thorough 24) + structured families reaching the i64 boundaries (0x+18 alnum, 21 '
             'decimal digits, 0+23 octal digits); parse_until_tag_end <= 3 (4) arbitrary Unicode scalars.  Trusted: ParseState cursor contracts '
             '(mirsym/ps_env.py; established on the compiled code by the Kani harnesses of C16), str::parse::<f64> = any f64 or Err, '
             'CustomAttribute::parse_next consumes >= 1 char.  Findings are replayed natively (dev profile).  Supporting, not solver-decided: the ~500 templates the J checks enumerate are run through parse/generate/stringify of the real build; a panic is reported as a replayed violation.'
             ' Added: M01h - open-environment execution of the stylesheet routines parse_qualified_rule / parse_at_rule (<= 3 tokens per level, every token kind incl. unmatched closers): each call from parse_rules consumes >= 1 token and no panic is reachable; witnesses are replayed through from_css in an own process under a 10 s limit (hang detection).  Kernel sweep: the execution obligations (panic / assert / unwinding / cursor progress) of parse_lit_str (<= 6, thorough 8 chars), parse_next_entity, path::resolve / normalize are decided here as well and replayed through templates.',
        technique='symbolic execution of MIR with state merging + SMT (z3), native replay',
        design='§4 C01 (M01b, M01e)',
    ),
    'C02': dict(
        engine='M',
        category='other',
        text='Bounded symbolic check of the identifier generator: the MIR of proc_gen::get_var_name (regenerated from the '
             'working tree) is executed symbolically and z3 decides, for ALL ids below 2^24, that the produced name is an '
             'IdentifierName, is no reserved word of sloppy or strict mode nor a global the generated code refers to, does '
             'not collide with the protocol letters, and that id -> name is injective; no bounds/overflow assert can fail. '
             'This is the part of C02 where the hard quantifier (template size >= 200k declarations) lives; whole-artefact '
             'validity is outside (see DESIGN C02).',
        note='Trusted: the MIR text printed by rustc for the current tree; the contract table entries String::new/push/insert/'
             'as_str, <str as PartialEq>::eq, slice::contains; integers as mathematical ints with overflow asserts as obligations. '
             'Bound: id < 2^24, loop unwinding 8 with unwinding assertion.  Counterexamples are replayed through the real function.'
             ' Supporting, not solver-decided: operator adjacency probe - every unary operator under every binary / unary operator is compiled and the emitted module is parsed by node in sloppy and strict mode (a SyntaxError is a replayed violation on a concrete template).',
        technique='symbolic execution of MIR + SMT (z3 Int encoding), counterexample replay on the native build',
        design='§4 C02 (M02a)',
    ),
    'C03': dict(
        engine='J+M', category='translation_validation',
        text='Translation validation of binding expressions: for every expression form as root x every form as child in every operand position '
             '(depth 2, minimal and full parentheses, boundary literals) the real compiler is run and the emitted JavaScript is executed symbolically; '
             'z3 decides value_generated(D) == value_reference(D) for ALL data D, where operators are uninterpreted and null-safety, truthiness, ?: && || ?? '
             'and call conventions are interpreted (the conventions of the property).  A sat verdict is confirmed by running the real code against the '
             'reference semantics in node over an edge-value pool.  Engine M adds: the LitInt value of parse_number equals the mathematical value of the '
             'digit string in its radix (hex, decimal, legacy octal).',
        note='Trusted: the emitted-subset parser/interpreter of jssym/, the value datatype and its truthiness/nullish definitions, the precedence '
             'table of the model printer; helper functions X Y Z P Q are interpreted from the real get_runtime_string().  Programs are bounded '
             '(depth 2; quick tier: seeded sample of 700 depth-2 expressions + all depth-1 forms and literals).  Operators\' numeric results, '
             'spreads of non-array iterables and the TypeScript runtime are outside.'
             ' Probe fallback: a program whose emitted code the translator cannot execute is compared with the reference in node over the edge pool (which contains Object.prototype member names); a difference is a replayed violation, otherwise the program is inconclusive.',
        technique='SMT translation validation of emitted JavaScript (symbolic data) + MIR symbolic execution for literals; node replay',
        design='§4 C03',
    ),
    'C06': dict(
        engine='J', category='translation_validation',
        text='Per binding site, for ALL update trees: the emitted code is executed symbolically in update mode (C=false; U, item/index/slot trees, '
             'data and dynamic keys symbolic) and z3 decides  touched(some dependency the evaluation reads) => guard  for text, attribute families, '
             'wx:if keys (must be unguarded), wx:for list trees, slot names and template data trees, with no scope / wx:for / nested wx:for / slot values. '
             'touched walks the tree as the runtime marks it; ?: && || ?? are path sensitive; over-approximation is allowed.  A sat verdict is confirmed in '
             'node by create(D0); update(D1,U) vs create(D1) over single-leaf changes with exact or coarsened trees.  That the TypeScript runtime hands down '
             'sound item trees and re-invokes children is outside (assume-guarantee per site; histories add nothing to a per-step obligation).',
        note='Trusted: jssym interpreter and value model, the touched predicate and tree well-formedness (node = undefined | true | object with a marked '
             'descendant), helper functions Z / Q.a / Q.b interpreted from the real runtime string.  Bounded program family (22 dependency shapes x site kinds '
             'x scopes; quick tier samples 3 extra site kinds per expression).'
             " Added: a computed wx:for list / computed template-data field must hand on `true`, never a dependency's sub-tree (decided for all update trees); the node replay includes the splice scenario (items moved: item tree unmarked, index tree true).",
        technique='SMT translation validation of emitted JavaScript in update mode (symbolic update trees), node replay',
        design='§4 C06',
    ),
    'C11': dict(
        engine='J', category='translation_validation',
        text='Per path site, for ALL data, indices and conditions: the emitted l-value path expression (model: 4th argument of the property setter, '
             'wx:for: 4th argument of F, script references: last argument of R.v / R.p) is evaluated symbolically to a key sequence and z3 decides that it '
             'equals the key sequence of the access chain of the model expression (through wx:for items by the runtime contract item path = list path ++ '
             '[index], through ?: as ite, dynamic keys as terms); non-assignable expressions (arithmetic, literals, calls, indices, items of non-path lists) '
             'must carry no path.  Equality of key sequences is get-put; a sat verdict is confirmed in node by writing a sentinel at the emitted path.',
        note='Trusted: jssym interpreter, the runtime contract for item paths, prefix conventions (0 = data, 2,<path>,<module> = script). Bounded '
             'family: chains <= 3, nested loops <= 2, one-level conditionals.'
             ' Added: conditional-with-tail families ((c ? a : b).z, nested conditionals, wx:for over (c ? l : m).list); elisions in a path array are wrong segments.',
        technique='SMT translation validation of emitted JavaScript (symbolic path evaluation), node get-put replay',
        design='§4 C11',
    ),
    'C04': dict(
        engine='J', category='translation_validation',
        text='Creation at the protocol level: templates built from a model (text forms, 23 attribute forms over every family, wx:if/elif/else chains with every pair of '
             'node kinds per branch, wx:for nested <= 2, block, template is/data, include, slot) are compiled; the emitted code is executed symbolically in creation mode '
             'and the recorded protocol-call tree (T/E/B/F/S/J calls, R.* setters) is compared with the reference tree derived from the model by an explicit rule table: '
             'structure, channel and normalised names exactly; every value position, branch condition and template data by z3 for all data.  Generated code that throws at '
             'creation (undeclared protocol name) is confirmed in node.  The name normalisation kernel escape::dash_to_camel is executed from MIR (engine M) on every string of <= 4 characters against its specification.  What the TypeScript runtime does with the calls is outside.',
        note='Trusted: jssym interpreter and the rule table of checks/c04.py (printed in the evidence); entity decoding limited to a fixed set; dynamic template names outside.',
        technique='SMT translation validation of emitted JavaScript (protocol-call tree vs reference rendering)',
        design='§4 C04',
    ),
    'C05': dict(
        engine='J+K', category='translation_validation',
        text='Translation validation of scope resolution: templates with nested wx:for (default / renamed / colliding variables), slot: values on elements and '
             'blocks, wxs modules, siblings and following nodes and <template name> bodies are compiled; per binding site (identifiers placed at every kind of '
             'position: holes, spreads, call arguments, object values, index expressions, branches) z3 decides generated value term == lexically resolved '
             'reference term for all data and scope values.  Kani proves on the compiled code that sub_expressions()/sub_expressions_mut() - the traversal '
             'convert_scopes relies on - yield every child of all 44 expression forms (literals with symbolic field kinds) and that convert_scopes on a leaf '
             'picks the innermost matching scope.',
        note='Trusted: jssym interpreter; the model builder of checks/c05.py (lexical scoping rules = the property statement). Kani: unwinding assertions on, cover points as vacuity '
             'guards, no stubs; bounded to 2-field (thorough: 3-field) literals and a 3-deep scope stack over two names.',
        technique='SMT translation validation of emitted JavaScript + Kani (CBMC) harnesses on the compiled traversal',
        design='§4 C05',
    ),
    'C07': dict(
        engine='J+K', category='translation_validation',
        text='For every template of the family and every advertised binding-map field: the field is read only at plain sites outside wx:if / wx:for / template / '
             'slot subtrees and not structurally (comparison of the real A={...} with the template model); its registered updaters are exactly the sites that read it '
             '(no hole, none missing); and each updater, executed symbolically, performs the same setter call with the same value as the creation code - decided '
             'by z3 for all data.  Kani (shared with C05): the traversal used by collect/disable_binding_map_keys visits every child expression.',
        note='Trusted: jssym interpreter and the template model of checks/c07.py.  Content of component children carrying slot: values is treated as reachable (whether it is '
             'instantiated more than once is decided by the TypeScript runtime, which cannot run here).'
             " Added: updaters are executed on fresh data D' and compared with the creation value under D := D' (stale captures from the creation pass); a file with <include> whose included file reads an advertised field must refresh that node.",
        technique='SMT translation validation of emitted JavaScript (updaters vs creation) + Kani harnesses',
        design='§4 C07',
    ),
    'C14': dict(
        engine='J', category='translation_validation',
        text='Behavioural equivalence of re-printed templates: for every program t of the families of C03 (sampled), C05 and C06 (sampled) plus stringifier-specific '
             'shapes (mixed text, text that decodes to {{, quotes, childless scope-introducing elements, every attribute family), t and print(parse(t)) are both compiled; '
             'the two emitted programs are executed symbolically in creation and update mode and compared site by site: protocol structure exactly, value terms, guards and '
             'paths by z3 for all data / scope values / update trees.  Re-parse diagnostics and the print fixpoint are recorded as supporting data only.',
        note='Trusted: jssym interpreter; identical structure gives identical fresh scope symbols on both sides.  Scope-name mangling and ill-formed inputs are outside.'
             " Added: literal-receiver family ((1).a, (1.5).a, (7).toFixed(), 's'.length, [a].length, {k:a}.k).",
        technique='SMT translation validation (pairwise comparison of two compilations of the real compiler)',
        design='§4 C14',
    ),
    'C15': dict(
        engine='K+M', category='model_checking',
        text='Locations of diagnostics: Kani proves one inductive step of the position invariant (cursor on a char boundary, never backwards, (line, utf16 col) = '
             'recomputation from the consumed text, restored by a failing try_parse) for the ParseState primitives from an arbitrary state, and that Position ordering is '
             'lexicographic for all u32 values; engine M executes ParseErrorKind::level with a symbolic kind: every kind has a level and the structural defects the '
             'property names keep at least their documented level.  "Clean input is clean / each injected defect is flagged" needs whole-parser runs and is outside.',
        note='Bound: <= 4 arbitrary UTF-8 bytes per state (skip_bytes: "<newline|a><any scalar>"); unwinding assertions on; cover points; stub core::str::slice_error_fail -> panic. '
             'Assumes the position fields are written only by the covered primitives (they are private to parse/mod.rs).'
             ' Added: M15d - parse_number from MIR over every well-formed decimal literal d{k}[.d{m}], k <= 21 digits: accepted, consumed entirely, no diagnostic (clean input is not flagged, number kernel only).',
        technique='Kani (CBMC) bounded model checking of the compiled primitives + MIR symbolic execution of the level table',
        design='§4 C15',
    ),
    'C16': dict(
        engine='K+M', category='model_checking',
        text='Position bookkeeping: Kani proves one inductive step of the position invariant for next, skip_whitespace, consume_str, skip_bytes (over a line break followed '
             'by ANY scalar value, incl. astral), try_parse (thorough: next_char_as_str, skip_until_after) from an arbitrary state - so line / UTF-16 column are right along '
             'every parser path of any length; engine M shows that the location stored by parse_number is [cursor at entry, cursor at return) on every path, and that the mixed-text '
             'assembler Value::parse_until_before (<= 5 symbolic characters; bindings, entities and the until predicate as environment) gives every static string piece exactly the text '
             'consumed for it and the location [first character, after last).  Location nesting across a template, the stringifier and source-map tokens are not decided.',
        note='Bound: <= 4 arbitrary UTF-8 bytes per state; literals <= 7 (10) chars.  Kani cannot build a Stringifier (sourcemap builder reaches an unmodelled syscall).',
        technique='Kani (CBMC) bounded model checking + MIR symbolic execution',
        design='§4 C16',
    ),
    'C08': dict(
        engine='M', category='other',
        text='Routine-level bounded check of token conservation and meaningful whitespace: the MIR of convert_class_names_and_rpx_in_block, '
             'convert_rpx_in_block, parse_qualified_rule and parse_at_rule (with closures and the helper methods they call) is executed against a symbolic '
             'token forest; every path yields trace obligations - each non-whitespace token causes exactly one output unit in order, blocks are '
             'open/recurse/close with the matching closer, descendant whitespace is re-emitted exactly when the previous token was whitespace, calc() keeps '
             'the spaces around + and -, every block is dispatched to the routine of its context (selector / value / rule list) - decided by z3 for all forests '
             'within the bound.  Tokenizer/serializer behaviour (separators, spelling-sensitive values) is outside.',
        note=CSS_NOTE, technique='symbolic execution of MIR against an environment contract (open environment) + SMT trace predicates, replay through from_css',
        design='§4 C08',
    ),
    'C09': dict(
        engine='M', category='other',
        text='Routine-level bounded check of class prefixing: in selector context write_maybe_class_name is called for every Ident with in_class == '
             '"previous token is the . delimiter" (decided for all forests within the bound), never from the value routine; its effect (MIR of '
             'write_maybe_class_name, all option combinations symbolic) is exactly "<prefix>--<name>" once, with the sign comment exactly at class '
             'positions, and unchanged otherwise; every nested selector block and every rule-bearing at-rule block is dispatched to a class-aware routine.',
        note=CSS_NOTE, technique='symbolic execution of MIR against an environment contract (open environment) + SMT trace predicates, replay through from_css',
        design='§4 C09',
    ),
    'C17': dict(
        engine='M', category='other',
        text='Routine-level bounded check of :host conversion: on every path of parse_qualified_rule (convert_host, class_prefix, host_is and a two-entry '
             'at-rule stack symbolic) the low-priority output is written only for exactly ":host {", event by event ([wx-host="prefix"], optional ,[is="..."], '
             'the wrappers of the at-rule stack in order and closed as often, the block processed while using_low_priority is set), combinations give '
             'exactly one warning and no output, everything else goes through the ordinary selector path; parse_at_rule pushes exactly the prelude segment '
             'while its block is processed and restores the stack on every path.',
        note=CSS_NOTE, technique='symbolic execution of MIR against an environment contract (open environment) + SMT trace predicates, replay through from_css',
        design='§4 C17',
    ),
    'C18': dict(
        engine='M', category='other',
        text='Routine-level bounded check of the @import placeholder: on every path of parse_at_rule with an import sign exactly one comment '
             '"<sign> <urlencoding::encode(path of the string token)>" is emitted after one wrapper per layer()/supports() function and one @media wrapper '
             'iff media tokens exist, closed in reverse order; IllegalImportPosition iff not at file start; without a sign @import takes the generic path. '
             'Percent-encoding itself (urlencoding crate) is an uninterpreted function; counterexamples are instantiated with critical paths at replay.',
        note=CSS_NOTE, technique='symbolic execution of MIR against an environment contract (open environment) + SMT trace predicates, replay through from_css',
        design='§4 C18',
    ),
    'C19': dict(
        engine='M', category='other',
        text='Bounded check of source-map provenance and column accounting: (1) in every routine the StepToken handed to an output carries the position '
             'of the input token that caused it (copy: its own, synthesized whitespace: the token it precedes, closer: its opener, rewritten class/rpx: the '
             'original token plus its spelling as name) for all forests within the bound; (2) one inductive step of StyleSheetOutput::append_token / '
             'append_token_space_preserved / append_raw from an arbitrary output state with utf16_len == UTF-16 length of the text: the entry column is that '
             'length after the separator and before the token, line 0, source fields passed through, invariant preserved (so entries are ordered).',
        note=CSS_NOTE + ' Column step: output string abstracted to (utf8, utf16) lengths; to_css appends an arbitrary token text.'
             " Added: writer conservation - one call of each token appender from an arbitrary output state writes the token (shared executor target with C19's column step)."
             ' Added: import paths in url-token and url("string") form (contract expect_url_or_string); the import-position obligation demands a diagnostic only after a rule other than @import.'
             " Added: the raw text handed to append_raw carries a symbolic class vector (any measure of the argument is decided); the replay oracle also checks the low-priority output's source map (word tokens).",
        technique='symbolic execution of MIR (open environment + one inductive step over an abstract output state) + SMT',
        design='§4 C19',
    ),
    'C10': dict(
        engine='M',
        category='other',
        text='Bounded symbolic check of the rpx kernel: the MIR of write_maybe_rpx_dimension is executed with symbolic value, '
             'ratio, sign, int_value and unit; z3 decides the unit gate (converted iff unit == "rpx", emitted unit "vw", sign kept), '
             'field-for-field pass-through of every other dimension, source-position and source-name provenance, and the accuracy '
             '|new - value*100/ratio| <= 1.5 eps |.| in the standard f32 rounding-error model for all values in the stated ranges. '
             'Number serialisation (cssparser ToCss) is outside: the "integers keep their value exactly" half is not claimed.',
        note='Trusted: MIR text of the current tree; contracts f32::round/abs (exact), CowRcStr deref/clone/into as identities, '
             'append_token as an event; f32 operations as exact*(1+d), |d|<=2^-24, valid for 2^-20<=|value|<=2^40, 2^-10<=ratio<=2^20 '
             '(thorough: wider).  sat verdicts are replayed through StyleSheetTransformer::from_css.',
        technique='symbolic execution of MIR + SMT (z3, nonlinear real arithmetic rounding-error model), replay through from_css',
        design='§4 C10',
    ),
    'C20': dict(
        engine='M', category='other',
        text='Bounded check of iteration-order independence: every call in the template compiler crate that observes the iteration order of a '
             'HashMap/HashSet is located in the MIR; each must be one of the wrappers group::sorted_by_key / BindingMapCollector::list_fields '
             '(or the listed non-emission listing API). The wrappers are executed from MIR with HashMap::iter = an environment-chosen permutation of '
             '2 and 3 symbolic distinct entries; z3 shows that for every pair of permutations the returned sequence is identical. Whole-artefact byte '
             'identity across processes is replayed (12 fresh processes, two insertion orders), not proved; the stylesheet half iterates no hash container.',
        note='Trusted: MIR text; std contracts (HashMap::iter yields each entry once in unspecified order; sort/sort_by as a 3-element sorting network over '
             'symbolic comparisons; String Ord = z3 str.<); dependencies (sourcemap crate) outside. An unanalysed order-observing site whose replay '
             'shows identical bytes is reported inconclusive (exit 2), not as a violation.',
        technique='symbolic execution of MIR with the hash iteration order as symbolic environment + SMT (z3), MIR call-site scan, multi-process replay',
        design='§4 C20',
    ),
    'C12': dict(
        engine='M', category='other',
        text='Bounded check of the two string kernels: (a) escape::gen_lit_str, the writer of every string literal of the generated JavaScript, executed '
             'from MIR on strings of <= 2 (thorough: 3) symbolic Unicode scalar values - every code point with every neighbour; a reference decoder of '
             'ECMAScript double-quoted literals (restricted to what every engine and strict mode accept: no legacy octal, no \\u{..}, no raw line terminator) '
             'is evaluated over the symbolic output and z3 decides well-formedness and value == input for all inputs; (b) Expression::parse_lit_str on '
             'literals of <= 8 symbolic characters against the escape table of template string literals (invalid \\x/\\u must be diagnosed); (c) entities: make_mapping inserts (name, full replacement text) for an arbitrary table entry, and entities::decode on every ASCII string of 2..10 characters returns char::from_u32(value) for &#x..; / &#..; (None if invalid) and the unmodified table value for names. '
             '(d) StrName::parse_next_entity with decode as environment: progress, decode called exactly on the `&`...`;` stretch, accepted references consumed whole, rejected ones kept verbatim and diagnosed.  Longer strings and composition over whole templates are outside.',
        note='Trusted: MIR text; String/Chars/push_str/Range/char::from_u32 contracts; ParseState cursor contracts (assume-guarantee with K16a); the two reference '
             'decoders in checks/c12.py. Digit-table lemmas are proved before they are used. If gen_lit_str cannot be executed by M the check only probes critical '
             'strings end to end (violation if one differs, otherwise inconclusive).'
             ' Probe fallback: if the entity kernels cannot be executed, the reference pool incl. all case-sibling names goes through the real pipeline (a deviation is a replayed violation, otherwise inconclusive).',
        technique='symbolic execution of MIR + SMT (z3) against reference decoders over symbolic characters; end-to-end replay in node',
        design='§4 C12',
    ),
    'C13': dict(
        engine='M', category='other',
        text='Path algebra half of the property, bounded: path::resolve(base, rel) and path::normalize(path) are executed from MIR over sequences of <= 4 (thorough 5) '
             'symbolic segments (each an arbitrary string without "/": ".", "..", empty and every name at once); str::split / starts_with / [1..] / join act on the segment '
             'sequence by their documented meaning.  For every path of the code and every classification of the segments z3 decides that the result equals the reference '
             'resolver (absolute rel restarts at the root; otherwise fold base, drop the file name, fold rel; "." keeps, ".." pops or stays at the root, others push).  '
             'Counterexamples are replayed through TmplGroup::direct_dependencies.  Import precedence, <template is> lookup order, dependency queries in general, '
             'suffix handling and insertion-order independence are NOT decided (concrete comparisons with nothing for a solver to range over).',
        note='Trusted: the string-as-segment-sequence contracts in checks/c13.py (split / starts_with / index / join), Vec push/pop of the executor, the 12-line reference fold.',
        technique='symbolic execution of MIR over symbolic segment sequences + SMT (z3 strings), replay through the group API',
        design='§4 C13',
    ),
}

NOT_APPLICABLE = {}

PENDING_REASON = 'check not built yet in this revision (engine work in progress, see DESIGN.md §9); not claimed until it runs'


def main():
    hooks_commits = subprocess.run(['git', '-C', '/repo', 'log', '--format=%h %s', '--grep', '^verif hooks'],
                                   stdout=subprocess.PIPE, text=True).stdout.strip().split('\n')
    checks = []
    for pid in ALL:
        if pid not in CHECKS:
            continue
        c = CHECKS[pid]
        checks.append({
            'property_id': pid,
            'quick_cmd': 'bin/check %s --tier quick' % pid,
            'thorough_cmd': 'bin/check %s --tier thorough' % pid,
            'evidence_file': 'evidence/%s.json' % pid,
            'replay_cmd_template': 'bin/check %s --replay {path}' % pid,
            'engine': c['engine'],
            'level_claimed': {'category': c['category'], 'text': c['text'], 'design_ref': c['design']},
            'level_note': c['note'],
            'technique': c['technique'],
        })
    na = []
    for pid in ALL:
        if pid in CHECKS:
            continue
        na.append({'property_id': pid, 'reason': NOT_APPLICABLE.get(pid, PENDING_REASON)})
    m = {
        'version': 1,
        'setup_cmd': 'bin/setup',
        'hooks': {
            'guard': 'glass_easel_verif',
            'enable': 'RUSTFLAGS="--cfg glass_easel_verif" (replay CLI, MIR dumps with hooks) / cargo kani (cfg(kani)); the guarded '
                      'blocks `#[cfg(any(kani, glass_easel_verif))] #[path = "/verif/hooks/<file>.rs"] pub mod verif;` include files that live in /verif/hooks',
            'baseline_off_cmd': 'cd /repo && cargo test --workspace --no-fail-fast --offline',
            'source_commits': [h.split(' ')[0] for h in hooks_commits if h],
            'add_only': True,
        },
        'engines': [
            {'name': 'M', 'path': 'mirsym/', 'serves_properties': sorted(p for p, c in CHECKS.items() if 'M' in c['engine']),
             'kind_free_text': 'own symbolic executor over rustc MIR text (-Zunpretty=mir) with a callee-contract table; z3 (python API) '
                               'decides, /usr/bin/z3 4.8.12 and cvc5 cross-check through SMT-LIB2'},
            {'name': 'K', 'path': 'hooks/ + kani/', 'serves_properties': sorted(p for p, c in CHECKS.items() if 'K' in c['engine']),
             'kind_free_text': 'Kani 0.68 / CBMC proof harnesses included into the repo crates under cfg(kani)'},
            {'name': 'J', 'path': 'jssym/', 'serves_properties': sorted(p for p, c in CHECKS.items() if 'J' in c['engine']),
             'kind_free_text': 'SMT translation validation of the JavaScript the real compiler emits (symbolic data / update trees)'},
        ],
        'checks': checks,
        'not_applicable': na,
        'notes': 'Exit codes of bin/check: 0 held / known findings only, 1 replayed unlisted violation, 2 inconclusive. '
                 'known_findings.json lists recorded and fixed defects.',
    }
    json.dump(m, open(os.path.join(HERE, 'MANIFEST.json'), 'w'), indent=1)
    print('MANIFEST.json: %d checks, %d not applicable' % (len(checks), len(na)))


if __name__ == '__main__':
    main()
